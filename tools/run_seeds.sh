#!/bin/bash
# tools/run_seeds.sh [ids...]: apply each kept seed to /repo, run that property's quick check, undo.
cd /verif
for d in ${@:-$(ls seeded)}; do
  pid=${d%%-*}
  [ -f wzsa/rules/${pid,,}.py ] || { echo "$d: no check for $pid yet"; continue; }
  git -C /repo apply /verif/seeded/$d/patch.diff || { echo "$d: patch does not apply"; continue; }
  out=$(./check $pid --no-evidence 2>&1); rc=$?
  git -C /repo checkout -- .
  rules=$(echo "$out" | grep -o "\[$pid-R[0-9.]*\]" | sort -u | tr '\n' ' ')
  echo "$d: rc=$rc $rules"
done
