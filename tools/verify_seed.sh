#!/bin/bash
# tools/verify_seed.sh <dir with patch.diff demo.py meta.json> <name>
# Confirms in a scratch worktree of /repo (removed afterwards): demo passes on the clean tree,
# fails with the patch, the full test suite passes with the patch. On success copies the seed
# into /verif/seeded/<name>/ and records what was run.
set -u
SRC="$1"; NAME="$2"
WT=$(mktemp -d /tmp/vseed-XXXXXX)
rmdir "$WT"
git -C /repo worktree add -q --detach "$WT" HEAD || exit 3
cleanup() { git -C /repo worktree remove --force "$WT" >/dev/null 2>&1; rm -rf "$WT"; }
trap cleanup EXIT
cd "$WT"
PYTHONPATH="$WT/src" timeout 300 /venv/bin/python "$SRC/demo.py" >/tmp/vseed-$NAME.clean 2>&1; C=$?
if ! git apply --check "$SRC/patch.diff" 2>/dev/null; then echo "$NAME: patch does not apply to /repo HEAD"; exit 4; fi
git apply "$SRC/patch.diff"
PYTHONPATH="$WT/src" timeout 300 /venv/bin/python "$SRC/demo.py" >/tmp/vseed-$NAME.patched 2>&1; P=$?
PYTHONPATH="$WT/src" timeout 900 /venv/bin/python -m pytest -q -p no:cacheprovider -n 6 >/tmp/vseed-$NAME.tests 2>&1; T=$?
TAIL=$(tail -1 /tmp/vseed-$NAME.tests)
echo "$NAME: demo clean rc=$C, demo patched rc=$P, tests rc=$T ($TAIL)"
if [ $C -eq 0 ] && [ $P -ne 0 ] && [ $T -eq 0 ]; then
  mkdir -p /verif/seeded/$NAME
  cp "$SRC/patch.diff" "$SRC/demo.py" /verif/seeded/$NAME/
  /venv/bin/python - "$SRC/meta.json" "/verif/seeded/$NAME/meta.json" "$C" "$P" "$TAIL" <<'EOF'
import json, sys
src, dst, c, p, tail = sys.argv[1:6]
try:
    m = json.load(open(src))
except Exception:
    m = {}
m["confirmed_by_me"] = {
    "scratch": "git worktree of /repo HEAD under /tmp, removed afterwards",
    "demo_on_clean_tree_rc": int(c), "demo_with_patch_rc": int(p), "test_suite_with_patch": tail.strip(),
    "commands": ["PYTHONPATH=<wt>/src /venv/bin/python demo.py (clean)", "git apply patch.diff", "PYTHONPATH=<wt>/src /venv/bin/python demo.py (patched)", "PYTHONPATH=<wt>/src /venv/bin/python -m pytest -q -p no:cacheprovider -n 6"],
}
json.dump(m, open(dst, "w"), indent=1)
EOF
  echo "$NAME: KEPT"
else
  echo "$NAME: REJECTED"; tail -5 /tmp/vseed-$NAME.clean /tmp/vseed-$NAME.patched | head -30
fi
rm -f /tmp/vseed-$NAME.clean /tmp/vseed-$NAME.patched /tmp/vseed-$NAME.tests
