#!/venv/bin/python
"""Regenerate MANIFEST.json from the rule modules that exist (run by hand after
adding a property's rules; the manifest is committed, not generated at check time)."""

from __future__ import annotations

import importlib
import json
import sys
from pathlib import Path

V = Path(__file__).resolve().parent.parent
sys.path.insert(0, str(V))

NA: dict[str, str] = {}
# properties whose rule module I have reviewed and accepted (a module that merely exists is not claimed)
READY = ["C01", "C02", "C03", "C04", "C05", "C06", "C07", "C08", "C09", "C10", "C11", "C12", "C13", "C14", "C15", "C16", "C17", "C18", "C19", "C20"]
PENDING = "check not built yet in this session (planned in DESIGN.md section 4); not claimed until it exists"

TECH = {
    "C01": "constant folding + regex width analysis; typestate over the decoder's branches; path executor for skip / deletion / state agreement; bounded table evaluation of the hold-back anchor (own source-level evaluator)",
    "C02": "abstract interpretation of the parser / encoder / test-client source over symbolic events (value-path purity, framing constants vs decoder regex languages, urlencoded writer/reader table agreement, Content-Disposition reader on a finite family)",
    "C03": "value-per-path analyses on the CFG (search order, handler mapping, rule loops as truth tables); string-end analysis for parser/matcher anchoring agreement; abstract interpretation of sample maps (interpreter shared with C04)",
    "C04": "abstract interpretation of the routing source with concrete rule configurations and opaque values (quoting tables, converter pairs, builder wiring, match pairing, query encoding, default converter table, URL assembly, match-is-an-observation histories)",
    "C05": "sanitiser-dominance provenance over every store into header storage; guard-set extraction; return-shape rules; close-count on the inlined call graph",
    "C06": "symbolic summaries of header writers / readers with regex class algebra; bounded evaluation of small pure functions over finite families by shape class (own AST evaluator, no werkzeug import)",
    "C07": "exception-effect analysis over the resolved call graph with handler lattice and value-origin (Flow) analysis; loop progress from path facts; decode-handler value rule; regex backtracking shape rule",
    "C08": "path-wise event executor over the MRO-resolved inlined call graph (mutation / comparison / raise events); case-fold agreement; freshness provenance; removal-loop, get() and pickle-state rules",
    "C09": "normalised symbolic paths with canonical linear atoms: bounded reads, position accounting, error routing, outcome table of get_input_stream, sample evaluation of get_content_length",
    "C10": "guard-dominates-growth on symbolic paths (engine shared with C09); keyword forwarding chain; non-interference by use classification of limit values",
    "C11": "truth table of the validator precedence by path-wise evaluation; literal / flag guard reading; def-use from parsed validators to comparison methods; single-source rule for 206; bounded evaluation of the range parser",
    "C12": "structured taint over the urlunsplit slots of router-made redirect URLs; constant executor for scheme and host positions; predicate and sort-key tables; may-flow into the redirect signal",
    "C13": "regular-language computation over method x anchors x flags for the fast path; value-level abstract interpretation of the cookie writer / parser; exhaustive byte tables",
    "C14": "per-path value classes for normalise-then-reject; origin sets over conditional arms for filesystem sinks; base-containment history; regex class algebra for secure_filename",
    "C15": "origin analysis with codec pairing over URL components; folded safe / keep-quoted tables vs RFC 3986 delimiter sets; constant evaluator for the host / args readers",
    "C16": "event automata over path-wise execution of the mutators (notification post-dominance, pairing invariants); decision tables for typed setters; header-name agreement read vs write-back",
    "C17": "regex language algebra for q values; statement-level evaluator over order-type scenarios and bounded offer sequences; inclusion order of specificity keys",
    "C18": "copy-on-write effect analysis (SHARED/FRESH tags) over ContextVar payloads; per-iteration release analysis on the split-atom CFG; abstract empty-payload runs; late-binding placement rule",
    "C19": "truth-table admission for the chunking decision; arithmetic path proofs for the de-chunker; per-path evaluation of the header loop on sample names; stream premise table",
    "C20": "path-wise symbolic decisions over the debugger dispatch (gates decided before effects); return-edge conditions for host matching; data-flow dependence of the PIN hash",
}


def main() -> None:
    props = [json.loads(l) for l in (V / "properties.jsonl").read_text().splitlines() if l.strip()]
    checks = []
    na = []
    served = []
    for p in props:
        pid = p["id"]
        if pid in NA:
            na.append({"property_id": pid, "reason": NA[pid]})
            continue
        f = V / "wzsa" / "rules" / f"{pid.lower()}.py"
        if not f.exists() or pid not in READY:
            na.append({"property_id": pid, "reason": PENDING})
            continue
        mod = importlib.import_module(f"wzsa.rules.{pid.lower()}")
        served.append(pid)
        checks.append(
            {
                "property_id": pid,
                "quick_cmd": f"./check {pid} --tier quick",
                "thorough_cmd": f"./check {pid} --tier thorough",
                "evidence_file": f"/verif/evidence/{pid}.json",
                "replay_cmd_template": f"./check {pid} --replay {{path}}",
                "engine": "wzsa",
                "level_claimed": {"category": "other", "text": mod.LEVEL_TEXT, "design_ref": f"DESIGN.md section 9.0, {pid}" if pid in ("C02", "C04") else f"DESIGN.md section 4 and 8.2, {pid}"},
                "level_note": "Trusted: " + "; ".join(mod.TRUSTED) + ". Assumed: " + "; ".join(mod.ASSUMPTIONS),
                "technique": "static analysis: " + TECH[pid],
            }
        )
    man = {
        "version": 1,
        "setup_cmd": "/venv/bin/python -B -c \"import ast, sys; sys.path.insert(0, '/verif'); import wzsa.main\"",
        "hooks": {
            "guard": "WERKZEUG_VERIF",
            "enable": "no hooks: the checks read /repo's source; nothing in werkzeug is instrumented",
            "baseline_off_cmd": "cd /repo && /venv/bin/python -m pytest -ra -q -p no:cacheprovider --timeout=900 --continue-on-collection-errors",
            "source_commits": [],
            "add_only": True,
        },
        "engines": [
            {
                "name": "wzsa",
                "path": "/verif/wzsa",
                "serves_properties": served,
                "kind_free_text": "repository-specific static analyser: ast loader/resolver with MRO and typeshed tables, statement CFG with edge dominance, constant folder, regex class algebra, exception-effect analysis; never imports or runs werkzeug",
            }
        ],
        "checks": checks,
        "not_applicable": na,
        "notes": "Static analysis only. Exit 0 = all obligations discharged (known findings printed as KNOWN-FINDING); exit 1 + VIOLATION = undischarged obligation not in known_findings.json; exit 2 + ANALYSIS-ERROR = machinery could not decide (anchor vanished, floor not met). Thorough tier adds whole-package scope, path enumeration and the mutant/twin self-validation battery.",
    }
    (V / "MANIFEST.json").write_text(json.dumps(man, indent=1) + "\n")
    print(f"claimed={len(checks)} not_applicable={len(na)}")


if __name__ == "__main__":
    main()
