#!/venv/bin/python
"""Regenerate MANIFEST.json from the rule modules that exist (run by hand after
adding a property's rules; the manifest is committed, not generated at check time)."""

from __future__ import annotations

import importlib
import json
import sys
from pathlib import Path

V = Path(__file__).resolve().parent.parent
sys.path.insert(0, str(V))

NA: dict[str, str] = {}
# properties whose rule module I have reviewed and accepted (a module that merely exists is not claimed)
READY = ["C01", "C02", "C03", "C04", "C05", "C06", "C07", "C08", "C09", "C10", "C11", "C12", "C13", "C14", "C15", "C16", "C17", "C18", "C19", "C20"]
PENDING = "check not built yet in this session (planned in DESIGN.md section 4); not claimed until it exists"

TECH = {
    "C02": "abstract interpretation of the parser / encoder / test-client source over symbolic events (value-path purity, framing constants vs decoder regex languages, urlencoded writer/reader table agreement)",
    "C04": "abstract interpretation of the routing source with concrete rule configurations and opaque values (quoting tables, converter pairs, builder wiring, match pairing, query encoding, default converter table, URL assembly)",
    "C01": "constant folding + regex width analysis; typestate over the decoder's branches",
    "C03": "CFG statement order, class-attribute folding over the converter hierarchy, sibling-loop cross-check",
    "C05": "sanitiser-dominance provenance over every store into header storage; guard-set extraction; CFG return-shape rules",
    "C06": "constant folding + regex class algebra (writer alphabet vs reader classes); offset-constant cancellation",
    "C07": "exception-effect analysis over the resolved call graph with handler lattice; loop progress rule",
    "C08": "MRO-resolved reachability of primitive mutations from public methods; case-fold tag agreement; freshness provenance",
    "C09": "CFG dominance (bounded reads, error routing), who-may-use of the underlying stream, return-table of get_input_stream",
    "C10": "guard-dominates-growth on the CFG; keyword forwarding chain; non-interference (use classification of limit values)",
    "C11": "def-use from parsed validators to comparison methods; CFG dominance of method gate; single-source rule for 206",
    "C12": "taint over urlunsplit slots of router-made redirect URLs",
    "C13": "constant folding + regex class algebra, exhaustive over 256 byte values; AST shape rules for attribute assembly",
    "C14": "CFG dominance (normalise-then-reject), provenance of filesystem sinks, regex class algebra for secure_filename",
    "C15": "constant folding of per-component safe/keep-quoted tables vs RFC 3986 delimiter sets; codec pairing",
    "C16": "MRO-resolved mutator exhaustiveness with notification post-dominance; header-name agreement read vs write-back",
    "C17": "CFG dominance of q filter and selection gate; sort-key shape",
    "C18": "copy-on-write effect analysis (SHARED/FRESH tags) over ContextVar payloads; late-binding placement rule",
    "C19": "guard algebra (truth table) for the chunking decision; CFG framing rules; exception-effect of the de-chunker",
    "C20": "guard algebra over the debugger dispatch chain; CFG dominance of host checks; return-edge rules for host matching",
}


def main() -> None:
    props = [json.loads(l) for l in (V / "properties.jsonl").read_text().splitlines() if l.strip()]
    checks = []
    na = []
    served = []
    for p in props:
        pid = p["id"]
        if pid in NA:
            na.append({"property_id": pid, "reason": NA[pid]})
            continue
        f = V / "wzsa" / "rules" / f"{pid.lower()}.py"
        if not f.exists() or pid not in READY:
            na.append({"property_id": pid, "reason": PENDING})
            continue
        mod = importlib.import_module(f"wzsa.rules.{pid.lower()}")
        served.append(pid)
        checks.append(
            {
                "property_id": pid,
                "quick_cmd": f"./check {pid} --tier quick",
                "thorough_cmd": f"./check {pid} --tier thorough",
                "evidence_file": f"/verif/evidence/{pid}.json",
                "replay_cmd_template": f"./check {pid} --replay {{path}}",
                "engine": "wzsa",
                "level_claimed": {"category": "other", "text": mod.LEVEL_TEXT, "design_ref": f"DESIGN.md section 9.0, {pid}" if pid in ("C02", "C04") else f"DESIGN.md section 4 and 8.2, {pid}"},
                "level_note": "Trusted: " + "; ".join(mod.TRUSTED) + ". Assumed: " + "; ".join(mod.ASSUMPTIONS),
                "technique": "static analysis: " + TECH[pid],
            }
        )
    man = {
        "version": 1,
        "setup_cmd": "/venv/bin/python -B -c \"import ast, sys; sys.path.insert(0, '/verif'); import wzsa.main\"",
        "hooks": {
            "guard": "WERKZEUG_VERIF",
            "enable": "no hooks: the checks read /repo's source; nothing in werkzeug is instrumented",
            "baseline_off_cmd": "cd /repo && /venv/bin/python -m pytest -ra -q -p no:cacheprovider --timeout=900 --continue-on-collection-errors",
            "source_commits": [],
            "add_only": True,
        },
        "engines": [
            {
                "name": "wzsa",
                "path": "/verif/wzsa",
                "serves_properties": served,
                "kind_free_text": "repository-specific static analyser: ast loader/resolver with MRO and typeshed tables, statement CFG with edge dominance, constant folder, regex class algebra, exception-effect analysis; never imports or runs werkzeug",
            }
        ],
        "checks": checks,
        "not_applicable": na,
        "notes": "Static analysis only. Exit 0 = all obligations discharged (known findings printed as KNOWN-FINDING); exit 1 + VIOLATION = undischarged obligation not in known_findings.json; exit 2 + ANALYSIS-ERROR = machinery could not decide (anchor vanished, floor not met). Thorough tier adds whole-package scope, path enumeration and the mutant/twin self-validation battery.",
    }
    (V / "MANIFEST.json").write_text(json.dumps(man, indent=1) + "\n")
    print(f"claimed={len(checks)} not_applicable={len(na)}")


if __name__ == "__main__":
    main()
