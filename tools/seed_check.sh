#!/bin/bash
# tools/seed_check.sh <seed id, e.g. C11-A> [...]: parallel-safe variant of run_seeds.sh.
# Copies /repo/src to a scratch dir under /tmp, applies the seed there, runs the property's quick check on the copy, removes the copy.
cd /verif
for d in "$@"; do
  pid=${d%%-*}
  T=$(mktemp -d /tmp/seedchk-XXXXXX)
  mkdir -p $T/src && cp -r /repo/src/werkzeug $T/src/ && rm -rf $T/src/werkzeug/__pycache__
  if ! (cd $T && git init -q . 2>/dev/null; git apply /verif/seeded/$d/patch.diff 2>/dev/null || patch -s -p1 < /verif/seeded/$d/patch.diff); then echo "$d: patch does not apply"; rm -rf $T; continue; fi
  out=$(./check $pid --repo $T --no-evidence 2>&1); rc=$?
  rm -rf $T
  rules=$(echo "$out" | grep -o "\[$pid-R[0-9.]*\]" | sort -u | tr '\n' ' ')
  echo "$d: rc=$rc $rules"
  [ $rc -eq 2 ] && echo "$out" | grep ANALYSIS-ERROR | head -3
done
