#!/bin/bash
# tools/all_checks_on.sh <twin id>...: run EVERY claimed check on the given neutral refactorings (twins/<id>/patch.diff), scratch copy each.
cd /verif
ALL=${CHECKS:-"C01 C02 C03 C04 C05 C06 C07 C08 C09 C10 C11 C12 C13 C14 C15 C16 C17 C18 C19 C20"}
for t in "$@"; do
  T=$(mktemp -d /tmp/twinall-XXXXXX); mkdir -p $T/src && cp -r /repo/src/werkzeug $T/src/ && rm -rf $T/src/werkzeug/__pycache__
  if ! (cd $T && patch -s -p1 < /verif/twins/$t/patch.diff >/dev/null 2>&1); then echo "$t: patch does not apply"; rm -rf $T; continue; fi
  res=""
  for q in $ALL; do
    out=$(./check $q --repo $T --no-evidence 2>&1); rc=$?
    if [ $rc -ne 0 ]; then res="$res $q:rc=$rc"; echo "$out" | grep -E "ANALYSIS-ERROR|\[$q-R" | head -3 | cut -c1-260 | sed "s/^/      /"; fi
  done
  echo "$t: ${res:- all silent}"
  rm -rf $T
done
