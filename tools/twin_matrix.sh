#!/bin/bash
# tools/twin_matrix.sh <PID> [twin ids...]: run ONE property's check on every behaviour-preserving refactoring in /verif/twins
# (scratch copy of /repo/src per twin; parallel-safe). Prints one line per twin: silent / rc=1 (false alarm) / rc=2 (cannot decide).
cd /verif
pid=$1; shift
list=${@:-$(ls twins)}
for t in $list; do
  f=twins/$t/patch.diff
  T=$(mktemp -d /tmp/twinmx-XXXXXX); mkdir -p $T/src && cp -r /repo/src/werkzeug $T/src/ && rm -rf $T/src/werkzeug/__pycache__
  if ! (cd $T && patch -s -p1 < /verif/$f >/dev/null 2>&1); then echo "$t: patch does not apply"; rm -rf $T; continue; fi
  out=$(./check $pid --repo $T --no-evidence 2>&1); rc=$?
  rm -rf $T
  if [ $rc -eq 0 ]; then echo "$t: silent"; else echo "$t: rc=$rc"; echo "$out" | grep -E "ANALYSIS-ERROR|\[$pid-R" | head -4 | cut -c1-300 | sed 's/^/      /'; fi
done
