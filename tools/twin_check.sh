#!/bin/bash
# tools/twin_check.sh <PID>...: run every claimed check on each neutral refactoring /tmp/twin-<PID>/<n>/patch.diff (scratch copy of /repo/src)
cd /verif
ALL="C01 C03 C05 C06 C07 C08 C09 C10 C11 C12 C13 C14 C15 C16 C17 C18 C19 C20"
for p in "$@"; do
  for n in 1 2 3; do
    f=/tmp/twin-$p/$n/patch.diff
    [ -f $f ] || { echo "$p/$n: no patch"; continue; }
    T=$(mktemp -d /tmp/twinchk-XXXXXX); mkdir -p $T/src && cp -r /repo/src/werkzeug $T/src/ && rm -rf $T/src/werkzeug/__pycache__
    if ! (cd $T && patch -s -p1 < $f); then echo "$p/$n: patch does not apply"; rm -rf $T; continue; fi
    res=""
    for q in $ALL; do
      out=$(./check $q --repo $T --no-evidence 2>&1); rc=$?
      if [ $rc -ne 0 ]; then res="$res $q:rc=$rc"; echo "$out" | grep -E "ANALYSIS-ERROR|\[$q-R" | head -3 | cut -c1-260 | sed "s/^/      /"; fi
    done
    echo "$p/$n: ${res:- all silent}"
    rm -rf $T
  done
done
