#!/bin/bash
# tools/verify_compact.sh <PID>...: one block per property, only the essentials
cd /verif
for P in "$@"; do
  q=$(./check $P 2>&1 | grep -v conda | tail -1 | sed -E 's/.*obligations=([0-9]+).*known=([0-9]+) new=([0-9]+).*/ob=\1 known=\2 new=\3/'); qrc=${PIPESTATUS[0]}
  t=$(./check $P --tier thorough 2>&1 | grep "self-validation" | sed -E 's/self-validation: //')
  tw=$(tools/twin_matrix.sh $P 2>&1 | grep -v conda | grep -v silent)
  seeds=$(ls -d seeded/$P-* | xargs -n1 basename | tr '\n' ' ')
  sd=$(tools/seed_check.sh $seeds 2>&1 | grep -v conda | grep -v "rc=1" | tr '\n' ';')
  echo "$P: quick[$q] thorough[$t] twins_not_silent[${tw:-none}] seeds_not_rc1[${sd:-none}]"
done
