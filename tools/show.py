#!/venv/bin/python
"""tools/show.py <module path rel to src/werkzeug> <name> [<name>...]  - print functions without docstrings"""
import ast, sys
src = open(f"/repo/src/werkzeug/{sys.argv[1]}").read()
tree = ast.parse(src)
want = sys.argv[2:]
def show(f, prefix):
    decs = [ast.unparse(d) for d in f.decorator_list]
    if any('overload' in d for d in decs): return
    body = [s for s in f.body if not (isinstance(s, ast.Expr) and isinstance(s.value, ast.Constant) and isinstance(s.value.value, str))]
    print(f"--- {prefix}{f.name}({ast.unparse(f.args)}) L{f.lineno} {decs}")
    for s in body:
        print("    " + ast.unparse(s).replace("\n", "\n    "))
for n in tree.body:
    if isinstance(n, (ast.FunctionDef, ast.AsyncFunctionDef)) and (n.name in want or not want):
        show(n, "")
    if isinstance(n, ast.ClassDef):
        for f in n.body:
            if isinstance(f, (ast.FunctionDef, ast.AsyncFunctionDef)) and (f"{n.name}.{f.name}" in want or n.name in want):
                show(f, n.name + ".")
