#!/bin/bash
# usage: tools/verify_prop.sh <PID>  -- quick, thorough, twin matrix, seeds
P=$1
cd /verif
echo "== $P quick"; ./check $P 2>&1 | grep -v conda | tail -1 | cut -c1-200; echo "rc=${PIPESTATUS[0]}"
echo "== $P thorough"; ./check $P --tier thorough 2>&1 | grep -v conda | tail -2 | cut -c1-200
echo "== $P twins"; tools/twin_matrix.sh $P 2>&1 | grep -v conda | grep -vc silent
tools/twin_matrix.sh $P 2>&1 | grep -v conda | grep -v silent | head
echo "== $P seeds"; tools/seed_check.sh $P-A $P-B $P-C $P-D 2>&1 | grep -v conda | cut -c1-200
