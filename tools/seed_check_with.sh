#!/bin/bash
# tools/seed_check_with.sh <PID> <seed id>...: run property PID's check on seeds of (possibly) another property
cd /verif
pid=$1; shift
for d in "$@"; do
  T=$(mktemp -d /tmp/seedchk-XXXXXX)
  mkdir -p $T/src && cp -r /repo/src/werkzeug $T/src/ && rm -rf $T/src/werkzeug/__pycache__
  if ! (cd $T && patch -s -p1 < /verif/seeded/$d/patch.diff >/dev/null 2>&1); then echo "$d: patch does not apply"; rm -rf $T; continue; fi
  out=$(./check $pid --repo $T --no-evidence 2>&1); rc=$?
  rm -rf $T
  rules=$(echo "$out" | grep -o "\[$pid-R[0-9.]*\]" | sort -u | tr '\n' ' ')
  echo "$d under $pid: rc=$rc $rules"
done
