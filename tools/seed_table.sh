#!/bin/bash
# tools/seed_table.sh: run every seeded defect against its property's check (scratch copies) and print a markdown table
cd /verif
echo "| seed | rc | rules reporting it | what was broken |"
echo "|---|---|---|---|"
for d in $(ls seeded | sort -V); do
  line=$(tools/seed_check.sh $d 2>&1 | grep -v conda | head -1)
  rc=$(echo "$line" | sed -E 's/.*rc=([0-9]+).*/\1/')
  rules=$(echo "$line" | grep -o "R[0-9]*\.[0-9]*" | sort -u | tr '\n' ' ')
  what=$(/venv/bin/python -c "import json,re;m=json.load(open('/verif/seeded/$d/meta.json'));print(re.sub(r'[|\n]',' ',m.get('summary') or m.get('what') or '')[:150])")
  echo "| $d | $rc | $rules | $what |"
done
