#!/bin/bash
# tools/verify_twin.sh <dir with patch.diff diff_check.py meta.json> <name>
# Confirms in a scratch worktree of /repo (removed afterwards): the patch applies, its differential check prints PASS
# with the patch applied, the full test suite passes with the patch. On success copies it into /verif/twins/<name>/.
set -u
SRC="$1"; NAME="$2"
WT=$(mktemp -d /tmp/vtwin-XXXXXX)
rmdir "$WT"
git -C /repo worktree add -q --detach "$WT" HEAD || exit 3
cleanup() { git -C /repo worktree remove --force "$WT" >/dev/null 2>&1; rm -rf "$WT"; }
trap cleanup EXIT
cd "$WT"
if ! git apply --check "$SRC/patch.diff" 2>/dev/null; then echo "$NAME: patch does not apply to /repo HEAD"; exit 4; fi
git apply "$SRC/patch.diff"
# the differential checks were written against the author's worktree path: rewrite it to this worktree
cp "$SRC"/expected*.json "$WT"/ 2>/dev/null
sed -E "s#/tmp/wt[0-9]+-C[0-9]+#$WT#g" "$SRC/diff_check.py" > "$WT/.diff_check.py"
PYTHONPATH="$WT/src" timeout 1200 /venv/bin/python "$WT/.diff_check.py" >/tmp/vtwin-$NAME.diff 2>&1; D=$?
grep -q PASS /tmp/vtwin-$NAME.diff && DP=1 || DP=0
rm -f "$WT/.diff_check.py"
PYTHONPATH="$WT/src" timeout 900 /venv/bin/python -m pytest -q -p no:cacheprovider -n 6 >/tmp/vtwin-$NAME.tests 2>&1; T=$?
TAIL=$(tail -1 /tmp/vtwin-$NAME.tests)
echo "$NAME: diff_check rc=$D pass=$DP, tests rc=$T ($TAIL)"
if [ $D -eq 0 ] && [ $DP -eq 1 ] && [ $T -eq 0 ]; then
  mkdir -p /verif/twins/$NAME
  cp "$SRC/patch.diff" "$SRC/diff_check.py" /verif/twins/$NAME/
  cp "$SRC"/expected*.json /verif/twins/$NAME/ 2>/dev/null
  /venv/bin/python - "$SRC/meta.json" "/verif/twins/$NAME/meta.json" "$TAIL" <<'PY'
import json, sys
src, dst, tail = sys.argv[1:4]
try:
    m = json.load(open(src))
except Exception:
    m = {}
m["confirmed_by_me"] = {"scratch": "git worktree of /repo HEAD under /tmp, removed afterwards", "diff_check_with_patch": "PASS", "test_suite_with_patch": tail.strip()}
json.dump(m, open(dst, "w"), indent=1)
PY
  echo "$NAME: KEPT"
else
  echo "$NAME: REJECTED"; tail -5 /tmp/vtwin-$NAME.diff
fi
rm -f /tmp/vtwin-$NAME.diff /tmp/vtwin-$NAME.tests
