#!/bin/bash
# tools/process_seed2.sh <PID>...: verify round-2 seeds (/tmp/seed2-<PID>/A|B -> seeded/<PID>-C|D), run the checks on them
cd /verif
for p in "$@"; do
  for x in A B; do
    y=$([ $x = A ] && echo C || echo D)
    [ -d seeded/$p-$y ] && continue
    [ -f /tmp/seed2-$p/$x/patch.diff ] || { echo "$p-$y: no patch"; continue; }
    tools/verify_seed.sh /tmp/seed2-$p/$x $p-$y 2>&1 | grep -v conda
  done
  git -C /repo worktree remove --force /tmp/wt2-$p 2>/dev/null
  tools/seed_check.sh $p-C $p-D 2>&1 | grep -v conda
done
