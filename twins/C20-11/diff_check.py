"""Differential check for refactoring 2 (DebuggedApplication.check_pin_trust).

Part A calls the refactored ``check_pin_trust`` and a pasted copy of the
original on the same application object and generated environs with a frozen
clock.  Part B drives two complete debugger applications (one with the
original method patched in) through identical random request sequences and
compares full responses and the failure counter.
"""

from __future__ import annotations

import random
import typing as t

import werkzeug.debug as dbg
from werkzeug.debug import DebuggedApplication
from werkzeug.debug import hash_pin
from werkzeug.debug import parse_cookie
from werkzeug.debug import PIN_TIME
from werkzeug.debug import time
from werkzeug.test import Client
from werkzeug.test import EnvironBuilder
from werkzeug.wrappers import Response


# ---- original implementation (verbatim copy) -------------------------------
def orig_check_pin_trust(self, environ):
    if self.pin is None:
        return True
    val = parse_cookie(environ).get(self.pin_cookie_name)
    if not val or "|" not in val:
        return False
    ts_str, pin_hash = val.split("|", 1)

    try:
        ts = int(ts_str)
    except ValueError:
        return False

    if pin_hash != hash_pin(self.pin):
        return None
    return (time.time() - PIN_TIME) < ts


# ---- frozen clock -----------------------------------------------------------
NOW = [1_700_000_000.25]
_real_time = time.time
_real_sleep = time.sleep
time.time = lambda: NOW[0]  # type: ignore[assignment]
time.sleep = lambda s: None  # type: ignore[assignment]

rng = random.Random(2020)
PIN = "123-456-789"


def wsgi_app(environ, start_response):
    if environ["PATH_INFO"] == "/boom":
        raise ValueError("boom")
    return Response("ok")(environ, start_response)


def make_app(pin: str | None = PIN) -> DebuggedApplication:
    app = DebuggedApplication(wsgi_app, evalex=True, pin_security=pin is not None)
    app._pin_cookie = "__wzdtest"
    if pin is not None:
        app.pin = pin
    app.secret = "sekrit"
    app.pin_logging = False
    return app


def outcome(f: t.Callable[..., t.Any], *args: t.Any) -> t.Any:
    try:
        r = f(*args)
        return ("ok", type(r), r)
    except BaseException as e:  # noqa: B036
        return ("exc", type(e), str(e))


def gen_ts() -> str:
    now = int(NOW[0])
    r = rng.random()
    if r < 0.35:
        # around the expiry boundary
        return str(now - PIN_TIME + rng.randint(-3, 3))
    if r < 0.5:
        return str(now + rng.randint(-10, 10))
    if r < 0.6:
        return str(rng.randint(-(10**12), 10**12))
    return rng.choice(
        [
            "", " ", "0", "-1", "+5", " 1700000000 ", "1_700_000_000", "1e9",
            "1700000000.0", "abc", "0x10", "١٧٠٠٠٠٠٠٠٠", "9" * 30, "9" * 5000,
            "-" + "9" * 5000, "nan", "inf", "\t12\n", "12 3", "１７０００００００００",
            str(now - PIN_TIME), str(now - PIN_TIME + 1), "--1", "1-",
        ]
    )


def gen_hash(pin: str | None) -> str:
    good = hash_pin(pin) if pin is not None else "x"
    r = rng.random()
    if r < 0.55:
        return good
    if r < 0.65:
        return good + "|" + rng.choice(["", "x", good])
    return rng.choice(
        ["", "x", good[:-1], good + "0", good.upper(), "|" + good, " " + good,
         good + " ", hash_pin("000-000-000"), "|", "||"]
    )


def gen_cookie_value(pin: str | None) -> str | None:
    r = rng.random()
    if r < 0.05:
        return None
    if r < 0.1:
        return ""
    if r < 0.2:
        return rng.choice(
            ["|", "||", "nopipe", gen_ts(), hash_pin(pin or "x"), "a|", "|b",
             "%7C", "1700000000%7C" + hash_pin(pin or "x"), '"', "\\", ";", "="]
        )
    sep = "|" if rng.random() < 0.93 else rng.choice(["", "||", ":", "%7C", " | "])
    return gen_ts() + sep + gen_hash(pin)


def gen_cookie_header(app: DebuggedApplication, pin: str | None) -> str | None:
    name = app.pin_cookie_name
    parts = []
    for _ in range(rng.choice([0, 1, 1, 1, 1, 2])):
        v = gen_cookie_value(pin)
        if v is None:
            continue
        n = name if rng.random() < 0.9 else rng.choice([name + "x", name.upper(), "other"])
        if rng.random() < 0.1:
            v = '"' + v + '"'
        parts.append(f"{n}={v}")
    if rng.random() < 0.2:
        parts.insert(rng.randrange(len(parts) + 1), "session=abc")
    if not parts:
        return None if rng.random() < 0.5 else ""
    return "; ".join(parts)


def main() -> None:
    n = 0
    bad = 0
    kinds: dict[t.Any, int] = {}

    def check(a: t.Any, b: t.Any, what: t.Any) -> None:
        nonlocal n, bad
        n += 1
        if a != b:
            bad += 1
            if bad < 20:
                print("MISMATCH", what, a, b)

    # ---- Part A: direct calls -------------------------------------------
    apps = [make_app(PIN), make_app(None), make_app("000000000"), make_app("")]
    new_check = DebuggedApplication.check_pin_trust
    for _ in range(30000):
        app = rng.choice(apps[:1] * 6 + apps)
        NOW[0] = rng.choice([1_700_000_000.25, 1_700_000_000.0, 1_700_000_000.999])
        environ: dict[str, t.Any] = {}
        hdr = gen_cookie_header(app, app.pin)
        if hdr is not None:
            environ["HTTP_COOKIE"] = hdr
        a = outcome(orig_check_pin_trust, app, environ)
        b = outcome(new_check, app, environ)
        kinds[a[:3] if a[0] == "ok" else a[:2]] = kinds.get(
            a[:3] if a[0] == "ok" else a[:2], 0
        ) + 1
        check(a, b, (app.pin, NOW[0], hdr))
    print("part A outcome distribution:", kinds)

    # ---- Part B: whole-application sequences -------------------------------
    class OrigApp(DebuggedApplication):
        check_pin_trust = orig_check_pin_trust  # type: ignore[assignment]

    def make_pair() -> tuple[DebuggedApplication, DebuggedApplication]:
        out = []
        for cls in (DebuggedApplication, OrigApp):
            app = cls(wsgi_app, evalex=True, pin_security=True, console_path="/console")
            app._pin_cookie = "__wzdtest"
            app.pin = PIN
            app.secret = "sekrit"
            app.pin_logging = False
            out.append(app)
        return out[0], out[1]

    def run(app: DebuggedApplication, path: str, headers: dict[str, str]) -> t.Any:
        builder = EnvironBuilder(path=path, headers=headers)
        env = builder.get_environ()
        env["wsgi.errors"] = open("/dev/null", "w")
        try:
            c = Client(app, use_cookies=False)
            resp = c.run_wsgi_app(env)
            body = b"".join(resp[0])
            hs = sorted(
                (k, v) for k, v in resp[2] if k.lower() in ("set-cookie", "content-type")
            )
            # tracebacks embed frame ids, only compare the trust flags there
            if b"EVALEX_TRUSTED" in body:
                body = b"html evalex=%d trusted=%d" % (
                    b"EVALEX = true" in body,
                    b"EVALEX_TRUSTED = true" in body,
                )
            return ("ok", resp[1], hs, body, app._failed_pin_auth.value)
        except BaseException as e:  # noqa: B036
            return ("exc", type(e), str(e), app._failed_pin_auth.value)

    seen_b: dict[t.Any, int] = {}

    for _seq in range(400):
        new_app, old_app = make_pair()
        pins = [PIN, "123456789", " 123-456-789 ", "111-111-111", ""]
        if rng.random() < 0.4:
            pins = ["111-111-111", "", "12345678", PIN] + ["000"] * 20
        for _step in range(25):
            NOW[0] = 1_700_000_000.25 + rng.choice([0, 0, 1, 3600, PIN_TIME])
            host = rng.choice(["localhost", "127.0.0.1", "evil.com", "a.localhost:5000"])
            secret = rng.choice(["sekrit", "sekrit", "sekrit", "wrong"])
            r = rng.random()
            if r < 0.4:
                pin = rng.choice(pins)
                path = f"/?__debugger__=yes&cmd=pinauth&s={secret}&pin={pin}"
            elif r < 0.5:
                path = f"/?__debugger__=yes&cmd=printpin&s={secret}"
            elif r < 0.7:
                path = f"/?__debugger__=yes&cmd=1%2B1&frm=0&s={secret}"
            elif r < 0.85:
                path = "/console"
            elif r < 0.95:
                path = "/boom"
            else:
                path = "/"
            headers = {"Host": host}
            hdr = gen_cookie_header(new_app, PIN)
            if hdr and "\n" not in hdr:
                # WSGI transports header bytes as latin-1 decoded text
                headers["Cookie"] = hdr.encode("utf-8").decode("latin-1")
            a = run(old_app, path, dict(headers))
            b = run(new_app, path, dict(headers))
            check(a, b, (path, headers))
            key = (path.split("&pin")[0][:40], a[1], a[3][:40] if a[0] == "ok" else "")
            seen_b[key] = seen_b.get(key, 0) + 1

    print("part B outcome distribution:")
    for k, v in sorted(seen_b.items(), key=repr):
        print("   ", v, k)

    print(f"{n} comparisons, {bad} mismatches")
    print("PASS" if bad == 0 else "FAIL")


if __name__ == "__main__":
    try:
        main()
    finally:
        time.time = _real_time
        time.sleep = _real_sleep
