"""Differential check for refactoring 1 (safe_join: extracted _escapes_directory)."""
import itertools
import ntpath
import os
import posixpath
import random

import werkzeug.security as sec
from werkzeug.security import safe_join as new_safe_join

# ORIGINAL implementation (copied from the unmodified tree); the module-level
# alt-separator list and os.path module are read through ``sec`` so both
# implementations see the same (possibly patched) environment.


def orig_safe_join(directory, *pathnames):
    _os_alt_seps = sec._os_alt_seps
    if not directory:
        directory = "."

    parts = [directory]

    for filename in pathnames:
        if filename != "":
            filename = posixpath.normpath(filename)

        if (
            any(sep in filename for sep in _os_alt_seps)
            or sec.os.path.isabs(filename)
            # ntpath.isabs doesn't catch this on Python < 3.11
            or filename.startswith("/")
            or filename == ".."
            or filename.startswith("../")
        ):
            return None

        parts.append(filename)

    return posixpath.join(*parts)


def run(f, *a):
    try:
        return ("ok", f(*a))
    except BaseException as e:  # noqa: BLE001
        return ("exc", type(e))


ATOMS = [
    "", ".", "..", "...", "/", "//", "\\", "\\\\", "a", "b.txt", "foo", "\x00",
    "C:", "c:\\", "c:/", "~", " ", "..\\", "../", "./", "/..", "..a", "a..",
    "\u00e9", "%2e%2e", "\\\\?\\", "\\\\srv\\share", "con", "\n",
]
DIRS = ["", ".", "/", "/srv/www", "static", "static/", "../up", "C:\\www", "a/b/../c"]
ODD = [None, b"", b"a", b"../x", 0, 1.5, ["a"], ("..",), object()]


def gen_inputs(rng):
    # exhaustive short concatenations
    for n in (1, 2, 3):
        for combo in itertools.product(ATOMS[:16], repeat=n):
            yield "".join(combo)
    for _ in range(6000):
        k = rng.randint(0, 7)
        yield "".join(rng.choice(ATOMS) for _ in range(k))
    for _ in range(2000):
        k = rng.randint(0, 12)
        yield "".join(rng.choice("./\\ab\x00:~ ") for _ in range(k))


def check(label):
    rng = random.Random(1414)
    n = 0
    bad = 0
    paths = list(gen_inputs(rng))
    for p in paths:
        d = rng.choice(DIRS)
        for args in ((d, p), (d,), (d, p, rng.choice(paths)), (d, rng.choice(ATOMS), p)):
            n += 1
            a, b = run(orig_safe_join, *args), run(new_safe_join, *args)
            if a != b:
                bad += 1
                if bad < 10:
                    print("MISMATCH", label, args, a, b)
    for d in DIRS + ODD:
        for p in ODD + ATOMS:
            for args in ((d, p), (d, "ok", p), (d, p, "..")):
                n += 1
                a, b = run(orig_safe_join, *args), run(new_safe_join, *args)
                if a != b:
                    bad += 1
                    if bad < 10:
                        print("MISMATCH", label, args, a, b)
    print(label, "cases:", n, "mismatches:", bad)
    return bad


total = check("posix")

# simulate Windows: backslash is an alternative separator and os.path is ntpath
saved = sec._os_alt_seps, sec.os
try:
    sec._os_alt_seps = ["\\"]
    total += check("alt-seps")

    class _FakeOS:
        path = ntpath
        sep = "\\"

        def __getattr__(self, name):
            return getattr(os, name)

    sec.os = _FakeOS()
    total += check("ntpath")
finally:
    sec._os_alt_seps, sec.os = saved

print("PASS" if total == 0 else "FAIL")
