"""Differential check for refactoring 3 (SharedDataMiddleware loaders / __call__)."""
import importlib
import importlib.util
import itertools
import mimetypes
import os
import posixpath
import random
import shutil
import sys
import tempfile
from datetime import datetime
from datetime import timezone
from io import BytesIO
from time import time

from werkzeug.http import http_date
from werkzeug.http import is_resource_modified
from werkzeug.middleware.shared_data import SharedDataMiddleware as NewSDM
from werkzeug.security import safe_join
from werkzeug.test import create_environ
from werkzeug.utils import get_content_type
from werkzeug.wsgi import get_path_info
from werkzeug.wsgi import wrap_file


class OrigSDM(NewSDM):
    """The three methods below are copied verbatim from the unmodified tree."""

    def get_package_loader(self, package, package_path):
        load_time = datetime.now(timezone.utc)
        spec = importlib.util.find_spec(package)
        reader = spec.loader.get_resource_reader(package)  # type: ignore[union-attr]

        def loader(path):
            if path is None:
                return None, None

            path = safe_join(package_path, path)

            if path is None:
                return None, None

            basename = posixpath.basename(path)

            try:
                resource = reader.open_resource(path)
            except OSError:
                return None, None

            if isinstance(resource, BytesIO):
                return (
                    basename,
                    lambda: (resource, load_time, len(resource.getvalue())),
                )

            return (
                basename,
                lambda: (
                    resource,
                    datetime.fromtimestamp(
                        os.path.getmtime(resource.name), tz=timezone.utc
                    ),
                    os.path.getsize(resource.name),
                ),
            )

        return loader

    def get_directory_loader(self, directory):
        def loader(path):
            if path is not None:
                path = safe_join(directory, path)

                if path is None:
                    return None, None
            else:
                path = directory

            if os.path.isfile(path):
                return os.path.basename(path), self._opener(path)

            return None, None

        return loader

    def __call__(self, environ, start_response):
        path = get_path_info(environ)
        file_loader = None

        for search_path, loader in self.exports:
            if search_path == path:
                real_filename, file_loader = loader(None)

                if file_loader is not None:
                    break

            if not search_path.endswith("/"):
                search_path += "/"

            if path.startswith(search_path):
                real_filename, file_loader = loader(path[len(search_path) :])

                if file_loader is not None:
                    break

        if file_loader is None or not self.is_allowed(real_filename):  # type: ignore
            return self.app(environ, start_response)

        guessed_type = mimetypes.guess_type(real_filename)  # type: ignore
        mime_type = get_content_type(guessed_type[0] or self.fallback_mimetype, "utf-8")
        f, mtime, file_size = file_loader()

        headers = [("Date", http_date())]

        if self.cache:
            timeout = self.cache_timeout
            etag = self.generate_etag(mtime, file_size, real_filename)  # type: ignore
            headers += [
                ("Etag", f'"{etag}"'),
                ("Cache-Control", f"max-age={timeout}, public"),
            ]

            if not is_resource_modified(environ, etag, last_modified=mtime):
                f.close()
                start_response("304 Not Modified", headers)
                return []

            headers.append(("Expires", http_date(time() + timeout)))
        else:
            headers.append(("Cache-Control", "public"))

        headers.extend(
            (
                ("Content-Type", mime_type),
                ("Content-Length", str(file_size)),
                ("Last-Modified", http_date(mtime)),
            )
        )
        start_response("200 OK", headers)
        return wrap_file(environ, f)


# ---------------------------------------------------------------- fixture tree
tmp = tempfile.mkdtemp(prefix="c14-sdm-")
root = os.path.join(tmp, "root")
os.makedirs(os.path.join(root, "sub", "deep"))
os.makedirs(os.path.join(root, "..hidden"))
os.makedirs(os.path.join(tmp, "outside"))
os.makedirs(os.path.join(tmp, "c14pkg", "data", "nested"))
files = {
    "root/index.html": b"<h1>index</h1>",
    "root/a.txt": b"a",
    "root/sub/b.css": b"b{}",
    "root/sub/deep/c.js": b"c()",
    "root/..hidden/d.txt": b"d",
    "root/...": b"dots",
    "root/sp ace.txt": b"space",
    "outside/secret.txt": b"SECRET",
    "secret.txt": b"TOPSECRET",
    "single.txt": b"single-file export",
    "c14pkg/__init__.py": b"",
    "c14pkg/data/res.txt": b"resource",
    "c14pkg/data/nested/n.json": b"{}",
    "c14pkg/private.txt": b"pkg-level file (inside the /pkgroot export)",
}
for name, data in files.items():
    with open(os.path.join(tmp, name), "wb") as fh:
        fh.write(data)
sys.path.insert(0, tmp)
importlib.invalidate_caches()


def fallback(environ, start_response):
    start_response("404 NOT FOUND", [("Content-Type", "text/plain")])
    return [b"fallback:" + environ.get("PATH_INFO", "").encode("latin1", "replace")]


def exports():
    return {
        "/static": root,
        "/static/sub": os.path.join(root, "sub"),
        "/slash/": root,
        "/single": os.path.join(tmp, "single.txt"),
        "/pkg": ("c14pkg", "data"),
        "/pkgroot": ("c14pkg", ""),
        "/": os.path.join(root, "sub"),
    }


def run_loader(loader, arg):
    try:
        name, opener = loader(arg)
    except BaseException as e:  # noqa: BLE001
        return ("exc", type(e))
    if opener is None:
        return ("ok", name, None)
    f, mtime, size = opener()
    try:
        data = f.read()
    finally:
        f.close()
    return ("ok", name, getattr(f, "name", None), data, size)


def run_app(app, path, extra):
    environ = create_environ("/", "http://localhost/")
    environ["PATH_INFO"] = path
    environ.update(extra)
    captured = []

    def start_response(status, headers, exc_info=None):
        captured.append(
            (status, [(k, v) for k, v in headers if k not in ("Date", "Expires")])
        )

    try:
        it = app(environ, start_response)
        body = b"".join(it)
        if hasattr(it, "close"):
            it.close()
    except BaseException as e:  # noqa: BLE001
        return ("exc", type(e), captured)
    return ("ok", captured, body)


ATOMS = [
    "", ".", "..", "/", "//", "\\", "a.txt", "index.html", "sub", "deep", "b.css",
    "c.js", "..hidden", "d.txt", "...", "secret.txt", "outside", "root", "\x00",
    "sp ace.txt", "res.txt", "nested", "n.json", "private.txt", "__init__.py",
    "data", "single.txt", "%2e%2e", "C:", "~",
]
PREFIXES = [
    "/static", "/static/", "/static/sub", "/static/sub/", "/slash", "/slash/",
    "/single", "/single/", "/pkg", "/pkg/", "/pkgroot", "/pkgroot/", "/", "",
    "/staticx", "/stat", "static/", "/other/",
]


def gen_rel(rng):
    for n in (1, 2, 3):
        for combo in itertools.product(
            ["", ".", "..", "/", "a.txt", "sub", "\\", "secret.txt", "outside", "b.css"],
            repeat=n,
        ):
            yield "/".join(combo)
            yield "".join(combo)
    for _ in range(4000):
        k = rng.randint(0, 6)
        sep = rng.choice(["/", "/", "/", "", "//", "\\"])
        yield sep.join(rng.choice(ATOMS) for _ in range(k))


try:
    rng = random.Random(140003)
    rels = list(gen_rel(rng))
    bad = n = 0

    # 1) loaders, called directly
    o = OrigSDM(fallback, {})
    w = NewSDM(fallback, {})
    loader_pairs = [
        (o.get_directory_loader(root), w.get_directory_loader(root)),
        (o.get_directory_loader(""), w.get_directory_loader("")),
        (o.get_directory_loader(tmp + "/root/sub/.."), w.get_directory_loader(tmp + "/root/sub/..")),
        (o.get_package_loader("c14pkg", "data"), w.get_package_loader("c14pkg", "data")),
        (o.get_package_loader("c14pkg", ""), w.get_package_loader("c14pkg", "")),
        (o.get_file_loader(tmp + "/single.txt"), w.get_file_loader(tmp + "/single.txt")),
    ]
    os.chdir(root)  # makes directory="" meaningful
    for rel in rels + [None, b"a.txt", 5]:
        for lo, ln in loader_pairs:
            n += 1
            a, b = run_loader(lo, rel), run_loader(ln, rel)
            if a != b:
                bad += 1
                if bad < 10:
                    print("LOADER MISMATCH", repr(rel), a, b)
    # directory given as None/odd objects directly to the loader factory
    for d in (None, b"x", 3):
        for rel in (None, "a.txt", "..", ""):
            n += 1
            a = run_loader(o.get_directory_loader(d), rel)
            b = run_loader(w.get_directory_loader(d), rel)
            if a != b:
                bad += 1
                print("LOADER MISMATCH (odd dir)", repr(d), repr(rel), a, b)
    print("loader cases:", n, "mismatches so far:", bad)

    # 2) whole middleware
    configs = [
        dict(cache=True),
        dict(cache=False),
        dict(cache=True, disallow="*.css"),
        dict(cache=True, cache_timeout=60, fallback_mimetype="text/plain"),
    ]
    m = 0
    for ci, kw in enumerate(configs):
        o = OrigSDM(fallback, exports(), **kw)
        w = NewSDM(fallback, exports(), **kw)
        some = rels if ci < 2 else rng.sample(rels, 1500)
        for rel in some:
            prefix = rng.choice(PREFIXES)
            for path in {prefix + rel, prefix + "/" + rel, prefix}:
                extra = {}
                r = rng.random()
                if r < 0.1:
                    extra["HTTP_IF_MODIFIED_SINCE"] = http_date(time() + 3600)
                elif r < 0.15:
                    extra["HTTP_IF_NONE_MATCH"] = "*"
                m += 1
                a, b = run_app(o, path, extra), run_app(w, path, extra)
                if a != b:
                    bad += 1
                    if bad < 10:
                        print("APP MISMATCH", kw, repr(path), a, b)
                if a[0] == "ok" and (b"SECRET" in a[2] or b"SECRET" in b[2]):
                    bad += 1
                    print("ESCAPE", repr(path))
    print("middleware cases:", m, "total mismatches:", bad)
    print("PASS" if bad == 0 else "FAIL")
finally:
    os.chdir("/")
    sys.path.remove(tmp)
    shutil.rmtree(tmp, ignore_errors=True)
