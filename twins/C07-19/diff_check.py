"""Differential check for refactoring 1 (CharsetAccept._value_matches:
nested _normalize hoisted to module level, early return for "*").

Run: cd /tmp/wt14-C07 && PYTHONPATH=/tmp/wt14-C07/src /venv/bin/python /tmp/twin9-C07/1/diff_check.py
"""

from __future__ import annotations

import codecs
import random

from werkzeug.datastructures import Accept
from werkzeug.datastructures import CharsetAccept
from werkzeug.http import parse_accept_header


# ---- ORIGINAL implementation (copied from the unmodified tree) -------------
class OrigCharsetAccept(Accept):
    """Like :class:`Accept` but with normalization for charsets."""

    def _value_matches(self, value: str, item: str) -> bool:
        def _normalize(name: str) -> str:
            try:
                return codecs.lookup(name).name
            except (LookupError, ValueError):
                # ValueError: the name contains a null character.
                return name.lower()

        return item == "*" or _normalize(value) == _normalize(item)


# ---------------------------------------------------------------------------
rng = random.Random(7071)

NAMES = [
    "utf-8", "UTF8", "utf_8", "U8", "latin-1", "ISO-8859-1", "iso8859_1", "latin1",
    "l1", "ascii", "US-ASCII", "646", "cp1252", "windows-1252", "utf-16", "UTF-16LE",
    "utf-7", "utf7", "big5", "shift_jis", "sjis", "idna", "punycode", "rot13",
    "rot_13", "hex", "base64", "zlib", "unicode_escape", "raw-unicode-escape",
    "mbcs", "oem", "undefined", "*", "**", "* ", "", " ", "x", "unknown-charset",
    "utf-8\x00", "\x00", "a\x00b", "utf\x008", "utf-8 ", " utf-8", "utf 8",
    "UTF-8\n", "\udcff", "utf-8\udc80", "caf\xe9", "☃", "\U0001f600",
    "..", ".", "os", "os.path", "encodings", "__init__", "aliases", "utf-8/../x",
    "a" * 300, "\xdf", "İ", "ISO_8859-1:1987", "ibm037", "IBM-037", "İ",
    "ſ", "K", "utf-8;q=1", "=", ",", ";", "q=0.5", "%00", "utf%2d8",
]
ALPHABET = "abcuUtTfF8-_*. \x00\t\n;,=q01.5/\\\"'\xe9☃\udc80iso859latin16"


def rand_name() -> str:
    r = rng.random()
    if r < 0.6:
        return rng.choice(NAMES)
    if r < 0.8:
        n = rng.choice(NAMES)
        # mutate
        i = rng.randrange(len(n) + 1)
        return n[:i] + rng.choice(ALPHABET) + n[i + rng.randrange(2) :]
    return "".join(rng.choice(ALPHABET) for _ in range(rng.randrange(0, 10)))


def rand_q() -> str:
    return rng.choice(
        ["", ";q=1", ";q=0", ";q=0.5", ";q=0.001", ";q=0.9", ";q=1.000", ";q=2",
         ";q=abc", ";q=", "; q=0.3", ";Q=0.7", ";q=-1", ";q=nan", ";q=1e3", ";q=.5"]
    )


def rand_header() -> str | None:
    r = rng.random()
    if r < 0.03:
        return None
    if r < 0.06:
        return ""
    return rng.choice([",", ", ", " ,"]).join(
        rand_name() + rand_q() for _ in range(rng.randrange(1, 6))
    )


def call(f, *a):
    try:
        return ("ok", f(*a))
    except BaseException as e:  # noqa: B036
        return ("exc", type(e), str(e))


def same(a, b) -> bool:
    # compare repr too so that True/1, 0/0.0 differences are caught
    return a == b and repr(a) == repr(b)


failures = 0
checked = 0


def check(label, new, old):
    global failures, checked
    checked += 1
    if not same(new, old):
        failures += 1
        if failures <= 20:
            print("MISMATCH", label, new, old)


# 1. direct _value_matches on all pairs of the fixed names + random pairs
new_obj = CharsetAccept([("utf-8", 1)])
old_obj = OrigCharsetAccept([("utf-8", 1)])
for v in NAMES:
    for i in NAMES:
        check(
            ("vm", v, i),
            call(new_obj._value_matches, v, i),
            call(old_obj._value_matches, v, i),
        )
for _ in range(6000):
    v, i = rand_name(), rand_name()
    check(
        ("vm", v, i),
        call(new_obj._value_matches, v, i),
        call(old_obj._value_matches, v, i),
    )
# non-string operands (application misuse) must fail identically
for v, i in [(None, "utf-8"), ("utf-8", None), (None, "*"), (1, 2), (b"utf-8", "utf-8"),
             ("utf-8", b"utf-8"), (b"*", b"*"), (("a", 1), "a")]:
    check(
        ("vm-odd", v, i),
        call(new_obj._value_matches, v, i),
        call(old_obj._value_matches, v, i),
    )

# 2. whole-object behaviour through the header parser
for _ in range(4000):
    header = rand_header()
    new = call(parse_accept_header, header, CharsetAccept)
    old = call(parse_accept_header, header, OrigCharsetAccept)
    check(("parse", header), new[:1] + (list(new[1]),) if new[0] == "ok" else new,
          old[:1] + (list(old[1]),) if old[0] == "ok" else old)
    if new[0] != "ok" or old[0] != "ok":
        continue
    a_new, a_old = new[1], old[1]
    keys = [rand_name() for _ in range(4)] + [x for x, _ in list(a_old)[:2]]
    for k in keys:
        check(("contains", header, k), call(a_new.__contains__, k), call(a_old.__contains__, k))
        check(("quality", header, k), call(a_new.quality, k), call(a_old.quality, k))
        check(("getitem", header, k), call(a_new.__getitem__, k), call(a_old.__getitem__, k))
        check(("find", header, k), call(a_new.find, k), call(a_old.find, k))
        check(("index", header, k), call(a_new.index, k), call(a_old.index, k))
    matches = [rand_name() for _ in range(rng.randrange(0, 5))]
    check(("best_match", header, matches), call(a_new.best_match, matches),
          call(a_old.best_match, matches))
    check(("best_match_d", header, matches), call(a_new.best_match, matches, "dflt"),
          call(a_old.best_match, matches, "dflt"))
    check(("best", header), call(lambda: a_new.best), call(lambda: a_old.best))
    check(("to_header", header), call(a_new.to_header), call(a_old.to_header))

print(f"checked {checked} comparisons, {failures} mismatches")
print("PASS" if failures == 0 and checked > 5000 else "FAIL")
