"""Differential check: refactored werkzeug.http.parse_range_header vs. the original."""
import random
import sys

from werkzeug import datastructures as ds
from werkzeug._internal import _plain_int
from werkzeug.http import parse_range_header as new_impl


def old_impl(value, make_inclusive=True):
    if not value or "=" not in value:
        return None

    ranges = []
    last_end = 0
    units, rng = value.split("=", 1)
    units = units.strip().lower()

    for item in rng.split(","):
        item = item.strip()
        if "-" not in item:
            return None
        if item.startswith("-"):
            if last_end < 0:
                return None
            try:
                begin = _plain_int(item)
            except ValueError:
                return None
            end = None
            last_end = -1
        elif "-" in item:
            begin_str, end_str = item.split("-", 1)
            begin_str = begin_str.strip()
            end_str = end_str.strip()

            try:
                begin = _plain_int(begin_str)
            except ValueError:
                return None

            if begin < last_end or last_end < 0:
                return None
            if end_str:
                if end_str.startswith("-"):
                    # _plain_int accepts a sign, a position does not have one
                    return None

                try:
                    end = _plain_int(end_str) + 1
                except ValueError:
                    return None

                if begin >= end:
                    return None
            else:
                end = None
            last_end = end if end is not None else -1
        ranges.append((begin, end))

    return ds.Range(units, ranges)


def run(f, *a):
    try:
        r = f(*a)
    except BaseException as e:  # noqa: B036
        return ("exc", type(e), str(e))
    if r is None:
        return ("none",)
    return ("range", type(r), r.units, list(r.ranges))


rnd = random.Random(7)
ATOMS = [
    "bytes", "Bytes", " items ", "=", "==", "-", "--", ",", " ", "\t", "", "0", "1",
    "5", "9", "10", "99", "100", "0500", "+1", "1_0", "١", "²", "a", "x",
    ";", "\n", "-5", "5-", "0-0", "0-", "1-2", "3-2", "10-20", "20-30", "-0", "- 5",
    "5 - 7", " 5-7 ", "5--7", "5-+7", "5-7-9", "=0-1", "\xa0", " ", "\x1c", "/",
    "*", "99999999999999999999", "4294967296",
]


def gen():
    k = rnd.random()
    if k < 0.35:
        # well-formed-ish
        n = rnd.randint(0, 5)
        items = []
        cur = rnd.randint(0, 5)
        for _ in range(n):
            c = rnd.random()
            sp = rnd.choice(["", " ", "\t", "  "])
            if c < 0.2:
                items.append(f"{sp}-{sp if rnd.random() < .2 else ''}{rnd.randint(0, 50)}{sp}")
            elif c < 0.4:
                items.append(f"{sp}{cur}{sp}-{sp}")
            else:
                a = cur + rnd.randint(-3, 10)
                b = a + rnd.randint(-2, 10)
                items.append(f"{sp}{a}{sp}-{sp}{b}{sp}")
                cur = b + rnd.randint(-1, 3)
        u = rnd.choice(["bytes", "BYTES ", " items", "", "b=c"])
        return u + rnd.choice(["=", " = ", "==", ""]) + rnd.choice([",", ", ", " ,"]).join(items)
    if k < 0.9:
        return "".join(rnd.choice(ATOMS) for _ in range(rnd.randint(0, 9)))
    return "bytes=" + "".join(rnd.choice("0123456789-, ") for _ in range(rnd.randint(0, 14)))


cases = [None, "", "bytes", "bytes=", "bytes=-", "bytes=0-", "bytes=-5", "bytes=0-0",
         "bytes=0-1,2-3", "bytes=0-,5-6", "bytes=-5,0-1", "bytes=-5,-6", "bytes=5-1",
         "bytes=1--2", "bytes=--2", "bytes=0-1,1-2", "bytes=0-1,0-2", "=0-1", "a=b=0-1"]
cases += [gen() for _ in range(60000)]

bad = 0
for c in cases:
    for mi in (True, False):
        o, n = run(old_impl, c, mi), run(new_impl, c, mi)
        if o != n:
            bad += 1
            if bad < 10:
                print("MISMATCH", repr(c), o, n)

kinds = {}
for c in cases:
    kinds[run(old_impl, c)[0]] = kinds.get(run(old_impl, c)[0], 0) + 1
print("cases", len(cases), "outcome kinds", kinds)
print("PASS" if not bad else f"FAIL ({bad})")
sys.exit(1 if bad else 0)
