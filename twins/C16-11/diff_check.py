"""Differential check for refactoring 2 (C16).

Compares ``werkzeug.datastructures.HeaderSet`` from the worktree against a
copy of the ORIGINAL implementation pasted below: random mutation sequences,
with a recording ``on_update`` callback (sometimes absent, sometimes raising),
stand-alone and bound to ``Response.vary`` / ``allow`` / ``content_language``.

Run: cd /tmp/wt10-C16 && PYTHONPATH=/tmp/wt10-C16/src /venv/bin/python \
        /tmp/twin6-C16/2/diff_check.py
"""

from __future__ import annotations

import collections.abc as cabc
import random
import sys

from werkzeug import http
from werkzeug.datastructures import HeaderSet
from werkzeug.sansio.response import Response


# --------------------------------------------------------------------------
# ORIGINAL implementation (verbatim from the unmodified tree)
# --------------------------------------------------------------------------
class OrigHeaderSet(cabc.MutableSet):
    def __init__(self, headers=None, on_update=None) -> None:
        self._headers = list(headers or ())
        self._set = {x.lower() for x in self._headers}
        self.on_update = on_update

    def add(self, header: str) -> None:
        """Add a new header to the set."""
        self.update((header,))

    def remove(self, header: str) -> None:
        key = header.lower()
        if key not in self._set:
            raise KeyError(header)
        self._set.remove(key)
        for idx, item in enumerate(self._headers):
            if item.lower() == key:
                del self._headers[idx]
                break
        if self.on_update is not None:
            self.on_update(self)

    def update(self, iterable) -> None:
        inserted_any = False
        for header in iterable:
            key = header.lower()
            if key not in self._set:
                self._headers.append(header)
                self._set.add(key)
                inserted_any = True
        if inserted_any and self.on_update is not None:
            self.on_update(self)

    def discard(self, header: str) -> None:
        try:
            self.remove(header)
        except KeyError:
            pass

    def find(self, header: str) -> int:
        header = header.lower()
        for idx, item in enumerate(self._headers):
            if item.lower() == header:
                return idx
        return -1

    def index(self, header: str) -> int:
        rv = self.find(header)
        if rv < 0:
            raise IndexError(header)
        return rv

    def clear(self) -> None:
        """Clear the set."""
        self._set.clear()
        self._headers.clear()

        if self.on_update is not None:
            self.on_update(self)

    def as_set(self, preserve_casing: bool = False):
        if preserve_casing:
            return set(self._headers)
        return set(self._set)

    def to_header(self) -> str:
        """Convert the header set into an HTTP header string."""
        return ", ".join(map(http.quote_header_value, self._headers))

    def __getitem__(self, idx):
        return self._headers[idx]

    def __delitem__(self, idx) -> None:
        rv = self._headers.pop(idx)
        self._set.remove(rv.lower())
        if self.on_update is not None:
            self.on_update(self)

    def __setitem__(self, idx, value: str) -> None:
        old = self._headers[idx]
        self._set.remove(old.lower())
        self._headers[idx] = value
        self._set.add(value.lower())
        if self.on_update is not None:
            self.on_update(self)

    def __contains__(self, header: str) -> bool:
        return header.lower() in self._set

    def __len__(self) -> int:
        return len(self._set)

    def __iter__(self):
        return iter(self._headers)

    def __bool__(self) -> bool:
        return bool(self._set)

    def __str__(self) -> str:
        return self.to_header()

    def __repr__(self) -> str:
        return f"{type(self).__name__}({self._headers!r})"


# --------------------------------------------------------------------------
TOKENS = [
    "Accept", "accept", "ACCEPT", "Cookie", "cookie", "X-Foo", "x-foo", "en", "de",
    "GET", "get", "a b", 'q"x', "", "*", "ä", "Ä", "İ", "ß", "foo,bar", "Straße",
]
BAD = [None, 5, b"x"]


def tok(rnd):
    if rnd.random() < 0.04:
        return rnd.choice(BAD)
    return rnd.choice(TOKENS)


def gen_ops(rnd):
    ops = []
    for _ in range(rnd.randint(1, 16)):
        meth = rnd.choice(
            ["add", "add", "remove", "discard", "update", "update_gen", "clear",
             "delitem", "setitem", "find", "index", "contains", "ior", "isub",
             "pop", "set_cb", "raise_next"]
        )
        if meth in ("update", "update_gen", "ior", "isub"):
            arg = [tok(rnd) for _ in range(rnd.randint(0, 4))]
        elif meth == "delitem":
            arg = rnd.choice([-4, -2, -1, 0, 1, 2, 5, "x"])
        elif meth == "setitem":
            arg = (rnd.choice([-3, -1, 0, 1, 2, 6]), tok(rnd))
        elif meth == "set_cb":
            arg = rnd.choice(["none", "rec"])
        elif meth in ("clear", "pop", "raise_next"):
            arg = None
        else:
            arg = tok(rnd)
        ops.append((meth, arg))
    return ops


class Boom(Exception):
    pass


def safe_header(hs):
    try:
        return ("ok", hs.to_header())
    except Exception as e:  # noqa: BLE001
        return ("exc", type(e).__name__)


def run_standalone(cls, initial, with_cb, ops):
    log = []
    state = {"raise": False}

    def cb(hs):
        log.append((list(hs._headers), sorted(hs._set, key=repr)))
        if state["raise"]:
            state["raise"] = False
            raise Boom()

    hs = cls(initial, cb if with_cb else None)
    trace = []
    for meth, arg in ops:
        try:
            if meth == "delitem":
                del hs[arg]
                out = None
            elif meth == "setitem":
                hs[arg[0]] = arg[1]
                out = None
            elif meth == "update_gen":
                out = hs.update(x for x in arg)
            elif meth == "contains":
                out = arg in hs
            elif meth == "ior":
                hs |= set(a for a in arg if isinstance(a, str))
                out = None
            elif meth == "isub":
                hs -= [a for a in arg if isinstance(a, str)]
                out = None
            elif meth == "pop":
                out = hs.pop()
            elif meth == "clear":
                out = hs.clear()
            elif meth == "set_cb":
                hs.on_update = None if arg == "none" else cb
                out = None
            elif meth == "raise_next":
                state["raise"] = True
                out = None
            else:
                out = getattr(hs, meth)(arg)
            res = ("ok", repr(out))
        except Exception as e:  # noqa: BLE001
            res = ("exc", type(e).__name__)
        trace.append(
            (res, list(hs._headers), sorted(hs._set, key=repr), safe_header(hs),
             len(hs), bool(hs), list(log))
        )
    return trace


def run_response(use_orig, ops):
    """Same operations through Response.vary etc.; for the original, the view
    is rebuilt with OrigHeaderSet but the *same* on_update closure."""
    resp = Response()
    props = ["vary", "allow", "content_language"]
    trace = []
    for i, (meth, arg) in enumerate(ops):
        prop = props[i % 3]
        hs = getattr(resp, prop)
        if use_orig:
            hs = OrigHeaderSet(hs._headers, hs.on_update)
        try:
            if meth == "delitem":
                del hs[arg]
                out = None
            elif meth == "setitem":
                hs[arg[0]] = arg[1]
                out = None
            elif meth == "update_gen":
                out = hs.update(x for x in arg)
            elif meth == "contains":
                out = arg in hs
            elif meth in ("ior", "isub", "pop", "set_cb", "raise_next"):
                out = None
            elif meth == "clear":
                out = hs.clear()
            else:
                out = getattr(hs, meth)(arg)
            res = ("ok", repr(out))
        except Exception as e:  # noqa: BLE001
            res = ("exc", type(e).__name__)
        reread = getattr(resp, prop)
        trace.append((res, list(resp.headers), list(reread), safe_header(reread)))
    return trace


def main():
    rnd = random.Random(1602)
    n = 6000
    steps = 0
    for i in range(n):
        initial = rnd.choice(
            [None, [], ["Accept"], ["a", "B", "c"], ["Cookie", "X-Foo", "en"]]
        )
        with_cb = rnd.random() < 0.8
        ops = gen_ops(rnd)
        steps += len(ops)
        new = run_standalone(HeaderSet, initial, with_cb, ops)
        old = run_standalone(OrigHeaderSet, initial, with_cb, ops)
        if new != old:
            for j, (a, b) in enumerate(zip(new, old)):
                if a != b:
                    print("MISMATCH (standalone) seq", i, "step", j, ops[j])
                    print(" new:", a)
                    print(" old:", b)
                    break
            print("FAIL")
            return 1
        new = run_response(False, ops)
        old = run_response(True, ops)
        if new != old:
            for j, (a, b) in enumerate(zip(new, old)):
                if a != b:
                    print("MISMATCH (response) seq", i, "step", j, ops[j])
                    print(" new:", a)
                    print(" old:", b)
                    break
            print("FAIL")
            return 1
    print(f"{n} sequences / {steps} steps compared (stand-alone and via Response)")
    print("PASS")
    return 0


if __name__ == "__main__":
    sys.exit(main())
