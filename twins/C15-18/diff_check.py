"""Differential check for refactoring 3
(middleware.dispatcher.DispatcherMiddleware.__call__, sansio.utils.get_current_url,
and through it wsgi.get_current_url / Request.url for EnvironBuilder environs).

Run: cd /tmp/wt13-C15 && PYTHONPATH=/tmp/wt13-C15/src /venv/bin/python /tmp/twin8-C15/3/diff_check.py
"""
import random
from urllib.parse import quote

from werkzeug.middleware.dispatcher import DispatcherMiddleware as NewDispatcher
from werkzeug.sansio.utils import get_current_url as new_get_current_url
from werkzeug.test import EnvironBuilder
from werkzeug.urls import uri_to_iri
from werkzeug.wrappers import Request
from werkzeug.wsgi import get_current_url as wsgi_get_current_url


# ---- ORIGINAL implementations (copied from the unmodified tree) ----
class OrigDispatcher:
    def __init__(self, app, mounts=None):
        self.app = app
        self.mounts = mounts or {}

    def __call__(self, environ, start_response):
        script = environ.get("PATH_INFO", "")
        path_info = ""

        while "/" in script:
            if script in self.mounts:
                app = self.mounts[script]
                break

            script, last_item = script.rsplit("/", 1)
            path_info = f"/{last_item}{path_info}"
        else:
            app = self.mounts.get(script, self.app)

        original_script_name = environ.get("SCRIPT_NAME", "")
        environ["SCRIPT_NAME"] = original_script_name + script
        environ["PATH_INFO"] = path_info
        return app(environ, start_response)


def orig_get_current_url(scheme, host, root_path=None, path=None, query_string=None):
    url = [scheme, "://", host]

    if root_path is None:
        url.append("/")
        return uri_to_iri("".join(url))

    url.append(quote(root_path.rstrip("/"), safe="!$&'()*+,/:;=@%"))
    url.append("/")

    if path is None:
        return uri_to_iri("".join(url))

    url.append(quote(path.lstrip("/"), safe="!$&'()*+,/:;=@%"))

    if query_string:
        url.append("?")
        url.append(quote(query_string, safe="!$&'()*+,/:;=?@%"))

    return uri_to_iri("".join(url))


def run(f, *a, **kw):
    try:
        return ("ok", f(*a, **kw))
    except Exception as e:  # noqa: BLE001
        return ("exc", type(e))


rng = random.Random(31515)
n = bad = 0

# ---------------- dispatcher ----------------
SEGS = ["", "a", "b", "api", "v1", "static", "å", "☃", "a b", "%2F", ".", "..", "x" * 5]


def gen_path():
    r = rng.random()
    if r < 0.05:
        return ""
    segs = [rng.choice(SEGS) for _ in range(rng.randint(0, 6))]
    p = "/".join(segs)
    if rng.random() < 0.85:
        p = "/" + p
    if rng.random() < 0.2:
        p += "/"
    # WSGI tunnels PATH_INFO as latin-1
    return p.encode("utf-8").decode("latin-1") if rng.random() < 0.5 else p


def make_app(name):
    def app(environ, start_response):
        return (name, environ.get("SCRIPT_NAME"), environ.get("PATH_INFO"), dict(environ))

    return app


class Boom(Exception):
    pass


def boom_app(environ, start_response):
    raise Boom()


for _ in range(8000):
    paths = [gen_path() for _ in range(rng.randint(1, 6))]
    mounts = {}
    for _ in range(rng.randint(0, 5)):
        r = rng.random()
        if r < 0.5:
            # a prefix of one of the paths so that mounts actually match
            p = rng.choice(paths)
            cut = [i for i, c in enumerate(p) if c == "/"] + [len(p)]
            key = p[: rng.choice(cut)]
        elif r < 0.6:
            key = rng.choice(["", "/", "//", "a", "api"])
        else:
            key = gen_path()
        mounts[key] = boom_app if rng.random() < 0.05 else make_app(f"mount:{key}")
    if rng.random() < 0.1:
        mounts = None
    default = make_app("default")
    old_mw = OrigDispatcher(default, mounts)
    new_mw = NewDispatcher(default, mounts)

    for p in paths:
        base = {"REQUEST_METHOD": "GET", "QUERY_STRING": "x=1"}
        r = rng.random()
        if r < 0.9:
            base["PATH_INFO"] = p
        elif r < 0.95:
            base["PATH_INFO"] = p.encode("latin-1", "replace")  # wrong type -> same error
        if rng.random() < 0.6:
            base["SCRIPT_NAME"] = rng.choice(["", "/root", "/r/s", "/å".encode().decode("latin-1")])
        e1, e2 = dict(base), dict(base)
        a = run(old_mw, e1, None)
        b = run(new_mw, e2, None)
        n += 1
        if a != b or e1 != e2:
            bad += 1
            print("dispatcher mismatch", mounts and list(mounts), base, a[:1], b[:1])

# ---------------- get_current_url ----------------
TEXT = "abcXYZ09-._~!$&'()*+,;=:@/?#[] %<>\"{}|\\^`åß☃\U0001f600\udc80"


def text(maxlen=10):
    out = []
    for _ in range(rng.randint(0, maxlen)):
        r = rng.random()
        if r < 0.2:
            out.append("%" + rng.choice("0123456789abcdefABCDEFg") + rng.choice("0123456789abcdefABCDEFg"))
        elif r < 0.3:
            out.append("".join("%%%02X" % b for b in rng.choice("åß☃").encode()))
        elif r < 0.4:
            out.append("/")
        else:
            out.append(rng.choice(TEXT))
    return "".join(out)


HOSTS = ["example.com", "localhost:8080", "☃.net", "xn--n3h.net", "[::1]:5000", "[::1]", "bücher.example:99999",
         "a:b", "u:p@h", "", "h:0", "xn--zz--.com", None, b"bytes.example"]
SCHEMES = ["http", "https", "ws", "wss", "ftp", "", None]


def opt(f):
    r = rng.random()
    if r < 0.2:
        return None
    if r < 0.3:
        return ""
    return f()


def gen_qs():
    r = rng.random()
    if r < 0.6:
        return text(12).encode("utf-8", "surrogateescape")
    if r < 0.8:
        return bytes(rng.randrange(256) for _ in range(rng.randint(0, 8)))
    return text(6)  # str instead of bytes


for _ in range(12000):
    args = (rng.choice(SCHEMES), rng.choice(HOSTS), opt(text), opt(text), opt(gen_qs))
    a = run(orig_get_current_url, *args)
    b = run(new_get_current_url, *args)
    n += 1
    if a != b:
        bad += 1
        print("get_current_url mismatch", args, a, b)

# ---------------- end to end: EnvironBuilder -> Request / wsgi.get_current_url ----------------
for _ in range(3000):
    path = "/" + "".join(rng.choice("abc/ å☃%?&=+;~\U0001f600") for _ in range(rng.randint(0, 8)))
    path = path.replace("?", "%3F")
    base = rng.choice(["http://localhost/", "https://☃.net/app/", "http://example.com:8080/å/", "http://[::1]:5000/x"])
    q = {text(3) or "k": text(4) for _ in range(rng.randint(0, 2))}
    rb = run(lambda: EnvironBuilder(path=path, base_url=base, query_string=q or None).get_environ())
    if rb[0] != "ok":
        continue
    env = rb[1]
    req = Request(env)
    exp_full = run(
        orig_get_current_url, req.scheme, req.host, req.root_path, req.path, req.query_string
    )
    exp_base = run(orig_get_current_url, req.scheme, req.host, req.root_path, req.path)
    exp_root = run(orig_get_current_url, req.scheme, req.host, req.root_path)
    exp_host = run(orig_get_current_url, req.scheme, req.host)
    got = [
        run(lambda: req.url),
        run(lambda: req.base_url),
        run(lambda: req.root_url),
        run(lambda: req.host_url),
        run(wsgi_get_current_url, env),
        run(wsgi_get_current_url, env, strip_querystring=True),
        run(wsgi_get_current_url, env, root_only=True),
        run(wsgi_get_current_url, env, host_only=True),
    ]
    # wsgi.get_current_url passes the raw (latin-1 tunnelled) environ values on.
    from werkzeug.wsgi import get_host as wsgi_get_host

    w_scheme, w_host = env["wsgi.url_scheme"], wsgi_get_host(env)
    w_root, w_path = env.get("SCRIPT_NAME", ""), env.get("PATH_INFO", "")
    w_qs = env.get("QUERY_STRING", "").encode("latin1")
    exp = [
        exp_full,
        exp_base,
        exp_root,
        exp_host,
        run(orig_get_current_url, w_scheme, w_host, w_root, w_path, w_qs),
        run(orig_get_current_url, w_scheme, w_host, w_root, w_path),
        run(orig_get_current_url, w_scheme, w_host, w_root),
        run(orig_get_current_url, w_scheme, w_host),
    ]
    n += 1
    if got != exp:
        bad += 1
        print("end-to-end mismatch", path, base, q, got, exp)

print(f"{n} comparisons, {bad} mismatches")
print("PASS" if bad == 0 else "FAIL")
