"""Differential check for refactoring 2 (werkzeug.sansio.http.is_resource_modified).

Run: cd /tmp/wt12-C11 && PYTHONPATH=/tmp/wt12-C11/src /venv/bin/python /tmp/twin7-C11/2/diff_check.py
"""

from __future__ import annotations

import random
from datetime import datetime
from datetime import timedelta
from datetime import timezone

from werkzeug._internal import _dt_as_utc
from werkzeug.http import generate_etag
from werkzeug.http import http_date
from werkzeug.http import is_resource_modified as wsgi_is_resource_modified
from werkzeug.http import parse_date
from werkzeug.http import parse_etags
from werkzeug.http import parse_if_range_header
from werkzeug.http import unquote_etag
from werkzeug.sansio.http import is_resource_modified as new_is_resource_modified
from werkzeug.wrappers import Response


def orig_is_resource_modified(
    http_range=None,
    http_if_range=None,
    http_if_modified_since=None,
    http_if_none_match=None,
    http_if_match=None,
    etag=None,
    data=None,
    last_modified=None,
    ignore_if_range=True,
):
    # verbatim copy of the implementation on the unmodified tree
    if etag is None and data is not None:
        etag = generate_etag(data)
    elif data is not None:
        raise TypeError("both data and etag given")

    unmodified = False
    if isinstance(last_modified, str):
        last_modified = parse_date(last_modified)

    # HTTP doesn't use microsecond, remove it to avoid false positive
    # comparisons. Mark naive datetimes as UTC.
    if last_modified is not None:
        last_modified = _dt_as_utc(last_modified.replace(microsecond=0))

    if_range = None
    if not ignore_if_range and http_range is not None:
        # https://tools.ietf.org/html/rfc7233#section-3.2
        # A server MUST ignore an If-Range header field received in a request
        # that does not contain a Range header field.
        if_range = parse_if_range_header(http_if_range)

    if if_range is not None and if_range.date is not None:
        modified_since = if_range.date
    else:
        modified_since = parse_date(http_if_modified_since)

    if modified_since and last_modified and last_modified <= modified_since:
        unmodified = True

    if etag:
        etag, _ = unquote_etag(etag)

        if if_range is not None and if_range.etag is not None:
            unmodified = parse_etags(if_range.etag).contains(etag)
        else:
            if_none_match = parse_etags(http_if_none_match)
            if if_none_match:
                # https://tools.ietf.org/html/rfc7232#section-3.2
                # "A recipient MUST use the weak comparison function when comparing
                # entity-tags for If-None-Match"
                unmodified = if_none_match.contains_weak(etag)

            # https://tools.ietf.org/html/rfc7232#section-3.1
            # "Origin server MUST use the strong comparison function when
            # comparing entity-tags for If-Match"
            if_match = parse_etags(http_if_match)
            if if_match:
                unmodified = not if_match.contains(etag)

    return not unmodified


rnd = random.Random(1111)
BASE = datetime(2024, 5, 17, 12, 30, 15, tzinfo=timezone.utc)
TAGS = ["abc", "xyz", "a b", "", "W/", "*", 'a"b']


def rand_dt():
    dt = BASE + timedelta(seconds=rnd.choice([-86400, -2, -1, 0, 0, 0, 1, 2, 86400]))
    if rnd.random() < 0.3:
        dt = dt.replace(microsecond=rnd.choice([1, 500000, 999999]))
    return dt


def rand_date_header():
    k = rnd.random()
    if k < 0.75:
        return http_date(rand_dt())
    if k < 0.8:
        return rand_dt().strftime("%A, %d-%b-%y %H:%M:%S GMT")
    if k < 0.85:
        return rand_dt().strftime("%a %b %d %H:%M:%S %Y")
    if k < 0.9:
        return '"' + http_date(rand_dt()) + '"'
    return rnd.choice(["", " ", "garbage", "0", "Thu, 32 Foo 2024 00:00:00 GMT", "*"])


def rand_etag_value():
    tag = rnd.choice(TAGS)
    k = rnd.random()
    if k < 0.5:
        return f'"{tag}"'
    if k < 0.75:
        return f'W/"{tag}"'
    if k < 0.8:
        return f'w/"{tag}"'
    if k < 0.9:
        return tag
    return rnd.choice(["*", "", " ", '"', 'W/"', '""'])


def rand_etag_list():
    k = rnd.random()
    if k < 0.1:
        return "*"
    if k < 0.15:
        return rnd.choice(["", " ", ",", "garbage, more"])
    return rnd.choice([", ", ",", " , "]).join(
        rand_etag_value() for _ in range(rnd.choice([1, 1, 2, 3]))
    )


def maybe(fn, p=0.5):
    return fn() if rnd.random() < p else None


def rand_last_modified():
    k = rnd.random()
    if k < 0.3:
        return None
    if k < 0.55:
        return rand_dt()
    if k < 0.7:
        return rand_dt().replace(tzinfo=None)  # naive
    if k < 0.75:
        return rand_dt().astimezone(timezone(timedelta(hours=2)))
    return rand_date_header()


def rand_if_range():
    k = rnd.random()
    if k < 0.45:
        return rand_date_header()
    if k < 0.9:
        return rand_etag_value()
    return rnd.choice(["", " ", "*", "W/", 'w/"abc"', '  "abc"'])


def rand_case():
    kw = dict(
        http_range=maybe(
            lambda: rnd.choice(["bytes=0-1", "bytes=5-", "", "junk", "bytes=-3"]), 0.6
        ),
        http_if_range=maybe(rand_if_range, 0.6),
        http_if_modified_since=maybe(rand_date_header, 0.6),
        http_if_none_match=maybe(rand_etag_list, 0.5),
        http_if_match=maybe(rand_etag_list, 0.35),
        etag=maybe(rand_etag_value, 0.7),
        data=maybe(lambda: rnd.choice([b"", b"abc", b"hello world"]), 0.12),
        last_modified=rand_last_modified(),
        ignore_if_range=rnd.random() < 0.4,
    )
    return kw


def run(fn, kw):
    try:
        rv = fn(**kw)
    except Exception as e:  # noqa: BLE001
        return ("exc", type(e).__name__, str(e))
    return ("ok", type(rv).__name__, rv)


def response_outcome(kw, complete_length):
    """End-to-end through Response.make_conditional (uses the worktree function)."""
    environ = {"REQUEST_METHOD": rnd.choice(["GET", "GET", "HEAD", "POST"])}
    for key, name in (
        ("http_range", "HTTP_RANGE"),
        ("http_if_range", "HTTP_IF_RANGE"),
        ("http_if_modified_since", "HTTP_IF_MODIFIED_SINCE"),
        ("http_if_none_match", "HTTP_IF_NONE_MATCH"),
        ("http_if_match", "HTTP_IF_MATCH"),
    ):
        if kw[key] is not None:
            environ[name] = kw[key]
    return environ


def main():
    bad = 0
    n = 0
    counts = {}
    for _ in range(80000):
        kw = rand_case()
        a = run(orig_is_resource_modified, kw)
        b = run(new_is_resource_modified, kw)
        n += 1
        counts[a[:3] if a[0] == "ok" else a[:2]] = (
            counts.get(a[:3] if a[0] == "ok" else a[:2], 0) + 1
        )
        if a != b:
            bad += 1
            if bad < 10:
                print("MISMATCH", kw, a, b)

    # the WSGI level wrapper and Response.make_conditional delegate to the
    # function under test; compare them against the original fed with the same
    # header values
    for _ in range(20000):
        kw = rand_case()
        kw["data"] = None
        environ = response_outcome(kw, 10)
        etag = kw["etag"]
        lm = kw["last_modified"]
        for ignore in (True, False):
            kw2 = dict(kw, ignore_if_range=ignore)
            # the WSGI wrapper runs the check for every method (since 1.0.0)
            expect = run(orig_is_resource_modified, kw2)
            got = run(
                lambda environ=environ, ignore=ignore: wsgi_is_resource_modified(
                    environ, etag, None, lm, ignore_if_range=ignore
                ),
                {},
            )
            n += 1
            if expect != got:
                bad += 1
                if bad < 10:
                    print("MISMATCH(wsgi)", environ, etag, lm, expect, got)

        # Response.make_conditional without range support: 200 / 304 / 412
        if environ["REQUEST_METHOD"] in ("GET", "HEAD"):
            resp = Response(b"0123456789")
            if etag is not None:
                resp.headers["ETag"] = etag
            if isinstance(lm, str):
                resp.headers["Last-Modified"] = lm
            elif lm is not None:
                resp.last_modified = lm
            hdr_etag = resp.headers.get("etag")
            hdr_lm = resp.headers.get("last-modified")
            kw3 = dict(kw, etag=hdr_etag, last_modified=hdr_lm, ignore_if_range=True)
            modified = orig_is_resource_modified(**kw3)
            if modified:
                want = 200
            elif parse_etags(environ.get("HTTP_IF_MATCH")):
                want = 412
            else:
                want = 304
            resp.make_conditional(environ)
            n += 1
            if resp.status_code != want:
                bad += 1
                if bad < 10:
                    print("MISMATCH(resp)", environ, hdr_etag, hdr_lm, want, resp.status_code)

    for k in sorted(counts, key=str):
        print("  outcome", k, counts[k])
    print(f"{n} comparisons, {bad} mismatches")
    print("PASS" if bad == 0 else "FAIL")


if __name__ == "__main__":
    main()
