"""Differential check for C01 refactoring 3: MultiPartParser.parse read/event
loop restructuring and _chunk_iter loop rewrite.

OrigMultiPartParser below is the worktree MultiPartParser with `parse` replaced
by a verbatim copy of the ORIGINAL method (using a verbatim copy of the original
_chunk_iter).  Both are run on generated multipart bodies with many buffer
sizes and streams that do short reads / fail midway, and the produced fields,
files (name, filename, headers, payload bytes, container type), the sequence of
stream.read() and stream_factory calls and the type of any exception raised are
compared.  _chunk_iter is additionally compared directly.

Run: cd /tmp/wt12-C01 && PYTHONPATH=/tmp/wt12-C01/src /venv/bin/python <this file>
"""
from __future__ import annotations

import io
import random
import sys
import typing as t

import werkzeug.formparser as FP
from werkzeug.datastructures import FileStorage
from werkzeug.datastructures import MultiDict
from werkzeug.exceptions import RequestEntityTooLarge
from werkzeug.formparser import MultiPartParser
from werkzeug.sansio.multipart import Data
from werkzeug.sansio.multipart import Epilogue
from werkzeug.sansio.multipart import Field
from werkzeug.sansio.multipart import File
from werkzeug.sansio.multipart import MultipartDecoder
from werkzeug.sansio.multipart import NeedData

assert FP.__file__.startswith("/tmp/wt12-C01/"), FP.__file__


# ---------------------------------------------------------------------------
# ORIGINAL implementation (verbatim copy from the unmodified tree)
# ---------------------------------------------------------------------------
def _orig_chunk_iter(read: t.Callable[[int], bytes], size: int) -> t.Iterator[bytes | None]:
    """Read data in chunks for multipart/form-data parsing. Stop if no data is read.
    Yield ``None`` at the end to signal end of parsing.
    """
    while True:
        data = read(size)

        if not data:
            break

        yield data

    yield None


class OrigMultiPartParser(MultiPartParser):
    def parse(
        self, stream: t.IO[bytes], boundary: bytes, content_length: int | None
    ) -> tuple[MultiDict[str, str], MultiDict[str, FileStorage]]:
        current_part: Field | File
        field_size: int | None = None
        container: t.IO[bytes] | list[bytes]
        _write: t.Callable[[bytes], t.Any]

        parser = MultipartDecoder(
            boundary,
            max_form_memory_size=self.max_form_memory_size,
            max_parts=self.max_form_parts,
        )

        fields = []
        files = []

        for data in _orig_chunk_iter(stream.read, self.buffer_size):
            parser.receive_data(data)
            event = parser.next_event()
            while not isinstance(event, (Epilogue, NeedData)):
                if isinstance(event, Field):
                    current_part = event
                    field_size = 0
                    container = []
                    _write = container.append
                elif isinstance(event, File):
                    current_part = event
                    field_size = None
                    container = self.start_file_streaming(event, content_length)
                    _write = container.write
                elif isinstance(event, Data):
                    if self.max_form_memory_size is not None and field_size is not None:
                        # Ensure that accumulated data events do not exceed limit.
                        # Also checked within single event in MultipartDecoder.
                        field_size += len(event.data)

                        if field_size > self.max_form_memory_size:
                            raise RequestEntityTooLarge()

                    _write(event.data)
                    if not event.more_data:
                        if isinstance(current_part, Field):
                            value = b"".join(container).decode(
                                self.get_part_charset(current_part.headers), "replace"
                            )
                            fields.append((current_part.name, value))
                        else:
                            container = t.cast(t.IO[bytes], container)
                            container.seek(0)
                            files.append(
                                (
                                    current_part.name,
                                    FileStorage(
                                        container,
                                        current_part.filename,
                                        current_part.name,
                                        headers=current_part.headers,
                                    ),
                                )
                            )

                event = parser.next_event()

        return self.cls(fields), self.cls(files)


# ---------------------------------------------------------------------------
# Input generation
# ---------------------------------------------------------------------------

LBS = [b"\r\n", b"\n", b"\r"]
BOUNDARIES = [b"boundary", b"b", b"----WebKitFormBoundaryABC123", b"a-b", b"x" * 40,
              b"foo.bar", b"(+)", b"--", b"-"]


def rand_payload(rng, boundary):
    kind = rng.randrange(9)
    if kind == 0:
        return b""
    if kind == 1:
        return bytes(rng.randrange(256) for _ in range(rng.randrange(1, 60)))
    if kind == 2:
        # lots of newlines / dashes / partial boundaries
        toks = [b"\r", b"\n", b"\r\n", b"-", b"--", b"--" + boundary[: max(1, len(boundary) // 2)],
                b"\r\n--" + boundary[:-1], b"a", b"xyz", b" ", b"\r\n--", b"\n--" + boundary[:1]]
        return b"".join(rng.choice(toks) for _ in range(rng.randrange(1, 25)))
    if kind == 3:
        return b"x" * rng.randrange(1, 300)
    if kind == 4:
        return (b"line" + rng.choice(LBS)) * rng.randrange(1, 20)
    if kind == 5:
        # ends with line breaks
        return b"abc" + rng.choice(LBS) * rng.randrange(1, 4)
    if kind == 6:
        # starts with line breaks
        return rng.choice(LBS) * rng.randrange(1, 4) + b"abc"
    if kind == 7:
        # contains the bare boundary without preceding line break
        return b"zz--" + boundary + b"zz" + rng.choice([b"", b"\r\n", b"\r\nq"])
    return "snow☃man \xe9".encode() * rng.randrange(1, 5)


def rand_headers(rng, lb, idx):
    name = rng.choice(["a", "field%d" % idx, "f o", "", "é", "x" * 20])
    lines = []
    cd = 'form-data; name="%s"' % name
    is_file = rng.random() < 0.45
    if is_file:
        cd += '; filename="%s"' % rng.choice(["t.txt", "", "a b.bin", "☃.png"])
    r = rng.random()
    if r < 0.06:
        pass  # no content-disposition
    elif r < 0.12:
        lines.append(b"content-disposition:" + cd.encode())
    elif r < 0.2:
        # folded header
        a, _, b = cd.partition("; ")
        lines.append(b"Content-Disposition: " + a.encode() + b";" + lb + rng.choice([b" ", b"\t"]) + b.encode())
    else:
        lines.append(b"Content-Disposition: " + cd.encode())
    if rng.random() < 0.4:
        lines.append(b"Content-Type: " + rng.choice([b"text/plain", b"text/plain; charset=utf-8",
                                                       b"text/plain; charset=iso-8859-1",
                                                       b"application/octet-stream", b"text/x; charset=bogus"]))
    if rng.random() < 0.2:
        lines.append(b"Content-Length: " + rng.choice([b"3", b"abc", b"-1", b"100"]))
    if rng.random() < 0.1:
        lines.append(b"X-Junk")
    if rng.random() < 0.03:
        lines.append(b"X-Bad: \xff\xfe")
    rng.shuffle(lines)
    return lb.join(lines)


def rand_body(rng):
    boundary = rng.choice(BOUNDARIES)
    mixed = rng.random() < 0.2
    base_lb = rng.choice(LBS)

    def lb():
        return rng.choice(LBS) if mixed else base_lb

    out = bytearray()
    # preamble
    r = rng.random()
    if r < 0.3:
        out += rng.choice([b"preamble", b"pre" + lb() + b"amble", b"x" * 50, b"--", b"--" + boundary[:-1]])
        out += lb()
    elif r < 0.4:
        out += lb()
    nparts = rng.choice([0, 1, 1, 2, 3, 5])
    for i in range(nparts):
        out += b"--" + boundary + rng.choice([b"", b"", b" ", b" \t"]) + lb()
        l = lb()
        out += rand_headers(rng, l, i)
        r = rng.random()
        if r < 0.04:
            out += l  # missing blank line
        elif r < 0.08:
            out += l + l + b"X"[:0]
            out += b""  # normal
        else:
            out += l + l
        if rng.random() < 0.03:
            # header block immediately followed by non line break (not reachable
            # normally, but keep generator broad)
            pass
        out += rand_payload(rng, boundary)
        out += lb()
    r = rng.random()
    if r < 0.8:
        out += b"--" + boundary + b"--" + rng.choice([b"", lb(), b" " + lb(), lb() + b"epilogue", lb() + b"epi" + lb() + b"logue"])
    elif r < 0.9:
        out += b"--" + boundary + lb()  # open part, never terminated
    # else: no closing boundary at all
    body = bytes(out)
    r = rng.random()
    if r < 0.1 and body:
        body = body[: rng.randrange(len(body))]  # truncated
    elif r < 0.13 and body:
        i = rng.randrange(len(body))
        body = body[:i] + bytes([rng.randrange(256)]) + body[i + 1:]
    return boundary, body


def rand_chunking(rng, body):
    """Return list of chunks whose concatenation is body (may include empty chunks)."""
    n = len(body)
    mode = rng.randrange(7)
    if mode == 0 or n == 0:
        chunks = [body]
    elif mode == 1:
        chunks = [body[i:i + 1] for i in range(n)]
    elif mode == 2:
        k = rng.randrange(1, 12)
        chunks = [body[i:i + k] for i in range(0, n, k)]
    elif mode == 3:
        k = rng.randrange(12, 200)
        chunks = [body[i:i + k] for i in range(0, n, k)]
    elif mode == 4:
        cuts = sorted(rng.randrange(n + 1) for _ in range(rng.randrange(1, 10)))
        chunks = [body[a:b] for a, b in zip([0] + cuts, cuts + [n])]
    elif mode == 5:
        # cut around every CR / LF / dash
        cuts = sorted({i + rng.choice([0, 1]) for i, c in enumerate(body) if c in b"\r\n-" and rng.random() < 0.5})
        chunks = [body[a:b] for a, b in zip([0] + cuts, cuts + [n])]
    else:
        chunks = []
        i = 0
        while i < n:
            k = rng.choice([1, 2, 3, 5, 8, 13, 64, 1000])
            chunks.append(body[i:i + k])
            i += k
    return chunks


# ---------------------------------------------------------------------------
# Differential driver
# ---------------------------------------------------------------------------
class Boom(Exception):
    pass


class LoggingStream:
    """A stream whose read() may return fewer bytes than asked for, may hit a
    premature empty read, or may raise; every call is logged."""

    def __init__(self, body, plan_seed, mode):
        self.src = io.BytesIO(body)
        self.rng = random.Random(plan_seed)
        self.mode = mode
        self.log = []
        self.calls = 0

    def read(self, size=-1):
        self.calls += 1
        self.log.append(size)
        if self.mode == "full":
            return self.src.read(size)
        if self.mode == "short":
            k = self.rng.randrange(1, max(2, size + 1)) if size and size > 0 else size
            return self.src.read(k)
        if self.mode == "tiny":
            return self.src.read(min(size, self.rng.choice([1, 1, 2, 3])))
        if self.mode == "early_eof":
            if self.calls == self.rng.randrange(1, 6):
                return b""
            return self.src.read(size)
        if self.mode == "raise":
            if self.calls >= 3:
                raise Boom()
            return self.src.read(size)
        raise AssertionError(self.mode)


def run(cls, boundary, body, buffer_size, mode, seed, kw, content_length):
    factory_log = []

    def factory(total_content_length, content_type, filename, content_length=None):
        factory_log.append((total_content_length, content_type, filename, content_length))
        if filename == "a b.bin" and kw.get("_factory_fails"):
            raise Boom()
        return io.BytesIO()

    pkw = {k: v for k, v in kw.items() if not k.startswith("_")}
    if kw.get("_custom_factory"):
        pkw["stream_factory"] = factory
    stream = LoggingStream(body, seed, mode)
    parser = cls(buffer_size=buffer_size, **pkw)
    try:
        fields, files = parser.parse(stream, boundary, content_length)
    except Exception as e:  # noqa: B902
        return ("EXC", type(e).__name__, stream.log, factory_log)
    out_files = []
    for name, fs in files.items(multi=True):
        pos = fs.stream.tell()
        out_files.append((name, fs.filename, fs.name, list(fs.headers), type(fs.stream).__name__,
                          pos, fs.stream.read()))
    return ("OK", type(fields).__name__, list(fields.items(multi=True)), out_files, stream.log, factory_log)


def chunk_iter_trace(fn, reads, size):
    it = iter(reads)
    log = []

    def read(n):
        log.append(n)
        v = next(it)
        if isinstance(v, Exception):
            raise v
        return v

    out = []
    try:
        for x in fn(read, size):
            out.append(x)
    except Exception as e:  # noqa: B902
        out.append(("EXC", type(e).__name__))
    return out, log


def main():
    rng = random.Random(77001)
    n_cases = failures = n_exc = n_ok = 0

    for _ in range(2500):
        boundary, body = rand_body(rng)
        kw = {}
        if rng.random() < 0.25:
            kw["max_form_memory_size"] = rng.choice([0, 1, 5, 20, 100, 500, 100000])
        if rng.random() < 0.15:
            kw["max_form_parts"] = rng.choice([0, 1, 2, 10])
        if rng.random() < 0.5:
            kw["_custom_factory"] = True
            kw["_factory_fails"] = rng.random() < 0.2
        content_length = rng.choice([None, len(body), 600 * 1024])
        for _ in range(3):
            buffer_size = rng.choice([1, 2, 3, 5, 7, 16, 33, 64, 100, 1024, 64 * 1024])
            mode = rng.choice(["full", "full", "short", "short", "tiny", "early_eof", "raise"])
            seed = rng.randrange(1 << 30)
            a = run(OrigMultiPartParser, boundary, body, buffer_size, mode, seed, kw, content_length)
            b = run(MultiPartParser, boundary, body, buffer_size, mode, seed, kw, content_length)
            n_cases += 1
            if a[0] == "EXC":
                n_exc += 1
            else:
                n_ok += 1
            if a != b:
                failures += 1
                if failures <= 5:
                    print("MISMATCH", boundary, body, buffer_size, mode, kw)
                    print("  orig:", a)
                    print("  new: ", b)

    # direct _chunk_iter comparison, including odd falsy / non-bytes read results
    vals = [b"a", b"bc", b"x" * 10, b"", None, "", "str", 0, bytearray(b"q"), bytearray(), Boom(), StopIteration()]
    for _ in range(3000):
        reads = [rng.choice(vals[:3] if rng.random() < 0.7 else vals) for _ in range(rng.randrange(0, 8))] + [b""]
        if rng.random() < 0.1:
            reads = reads[:-1]  # read() itself runs out -> StopIteration inside generator -> RuntimeError
        size = rng.choice([1, 10, 65536])
        a = chunk_iter_trace(_orig_chunk_iter, list(reads), size)
        b = chunk_iter_trace(FP._chunk_iter, list(reads), size)
        n_cases += 1
        if a != b:
            failures += 1
            if failures <= 5:
                print("MISMATCH _chunk_iter", reads, a, b)

    # laziness: nothing is read before the first next(), and exactly one read per step
    for fn in (_orig_chunk_iter, FP._chunk_iter):
        log = []
        src = io.BytesIO(b"abcdef")

        def read(n, log=log, src=src):
            log.append(n)
            return src.read(n)

        g = fn(read, 4)
        steps = [list(log)]
        for x in g:
            steps.append((x, list(log)))
        if fn is _orig_chunk_iter:
            ref = steps
        elif steps != ref:
            failures += 1
            print("MISMATCH laziness", ref, steps)

    print("cases=%d (parse ok=%d, parse raised=%d) failures=%d" % (n_cases, n_ok, n_exc, failures))
    print("PASS" if failures == 0 else "FAIL")
    return 0 if failures == 0 else 1


if __name__ == "__main__":
    sys.exit(main())
