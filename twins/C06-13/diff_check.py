"""Differential check for refactoring 1 (dump_header / dump_options_header share
a private _dump_key_value helper).

Run: cd /tmp/wt12-C06 && PYTHONPATH=/tmp/wt12-C06/src /venv/bin/python /tmp/twin7-C06/1/diff_check.py
"""

from __future__ import annotations

import random
import typing as t

from werkzeug import http
from werkzeug.http import quote_header_value


# ---- ORIGINAL implementations (copied from the unmodified tree) -------------
def orig_dump_options_header(header, options) -> str:
    segments = []

    if header is not None:
        segments.append(header)

    for key, value in options.items():
        if value is None:
            continue

        if key[-1] == "*":
            segments.append(f"{key}={value}")
        else:
            segments.append(f"{key}={quote_header_value(value)}")

    return "; ".join(segments)


def orig_dump_header(iterable) -> str:
    if isinstance(iterable, dict):
        items = []

        for key, value in iterable.items():
            if value is None:
                items.append(key)
            elif key[-1] == "*":
                items.append(f"{key}={value}")
            else:
                items.append(f"{key}={quote_header_value(value)}")
    else:
        items = [quote_header_value(x) for x in iterable]

    return ", ".join(items)


# ---- generators --------------------------------------------------------------
ALPHABET = list("abcXYZ019-_.*= ,;\"\\'/%\t\u00e9\u2603") + ["", "UTF-8''", "%20"]


def rand_str(rng: random.Random, maxlen: int = 8) -> str:
    return "".join(rng.choice(ALPHABET) for _ in range(rng.randint(0, maxlen)))


class Weird:
    def __init__(self, s: str) -> None:
        self.s = s

    def __str__(self) -> str:
        return self.s

    def __format__(self, spec: str) -> str:
        return f"<fmt:{self.s}>"


def rand_key(rng: random.Random) -> t.Any:
    r = rng.random()
    if r < 0.08:
        return ""
    if r < 0.3:
        return rand_str(rng, 5) + "*"
    if r < 0.35:
        return rng.randint(-3, 50)  # non-str key -> TypeError on key[-1]
    if r < 0.4:
        return rng.choice([b"ab*", b"", ("a", "*"), (), None])
    return rand_str(rng, 6)


def rand_value(rng: random.Random) -> t.Any:
    r = rng.random()
    if r < 0.2:
        return None
    if r < 0.3:
        return rng.randint(-100, 10**6)
    if r < 0.35:
        return rng.choice([True, False, 1.5, b"bytes", ("x", 1), [], 0, ""])
    if r < 0.4:
        return Weird(rand_str(rng))
    return rand_str(rng, 10)


def rand_dict(rng: random.Random) -> dict:
    return {rand_key(rng): rand_value(rng) for _ in range(rng.randint(0, 5))}


def run(func: t.Callable, *args: t.Any) -> tuple:
    try:
        return ("ok", func(*args))
    except Exception as e:  # noqa: BLE001
        return ("exc", type(e), str(e))


def main() -> None:
    rng = random.Random(60601)
    n = 0
    mismatches = 0

    for _ in range(20000):
        d = rand_dict(rng)
        # dict form of dump_header
        a, b = run(orig_dump_header, d), run(http.dump_header, d)
        n += 1
        if a != b:
            mismatches += 1
            print("dump_header(dict) mismatch", d, a, b)

        # options header, with and without primary value
        header = rng.choice([None, "", "text/html", rand_str(rng), 5])
        a = run(orig_dump_options_header, header, d)
        b = run(http.dump_options_header, header, d)
        n += 1
        if a != b:
            mismatches += 1
            print("dump_options_header mismatch", header, d, a, b)

        # iterable forms of dump_header
        seq = [rand_value(rng) for _ in range(rng.randint(0, 5))]
        for make in (list, tuple, iter, lambda s: (x for x in s)):
            a, b = run(orig_dump_header, make(seq)), run(http.dump_header, make(seq))
            n += 1
            if a != b:
                mismatches += 1
                print("dump_header(iterable) mismatch", seq, a, b)

        # non-iterables / odd iterables
        odd = rng.choice([None, 5, "a b,c", b"ab", {1, 2}, frozenset(), range(3)])
        a, b = run(orig_dump_header, odd), run(http.dump_header, odd)
        n += 1
        if a != b:
            mismatches += 1
            print("dump_header(odd) mismatch", odd, a, b)

        # round trip still holds for in-domain values
        clean = {
            k: v
            for k, v in d.items()
            if isinstance(k, str)
            and k
            and isinstance(v, (str, type(None)))
            and run(orig_dump_header, {k: v})[0] == "ok"
        }
        h_new = run(http.dump_header, clean)
        h_old = run(orig_dump_header, clean)
        if h_new != h_old or (
            h_new[0] == "ok"
            and run(http.parse_dict_header, h_new[1])
            != run(http.parse_dict_header, h_old[1])
        ):
            mismatches += 1
            print("round trip mismatch", clean)
        n += 1

    # dict subclasses and non-dict mappings
    import collections

    from werkzeug.datastructures import MultiDict

    for _ in range(2000):
        d = rand_dict(rng)
        for m in (collections.OrderedDict(d), MultiDict(d), collections.UserDict(d)):
            a, b = run(orig_dump_header, m), run(http.dump_header, m)
            n += 1
            if a != b:
                mismatches += 1
                print("dump_header(mapping) mismatch", m, a, b)
            a = run(orig_dump_options_header, "x", m)
            b = run(http.dump_options_header, "x", m)
            n += 1
            if a != b:
                mismatches += 1
                print("dump_options_header(mapping) mismatch", m, a, b)

    print(f"{n} comparisons, {mismatches} mismatches")
    print("PASS" if mismatches == 0 else "FAIL")


if __name__ == "__main__":
    main()
