"""Differential check for refactoring 2
(Response.get_app_iter and wsgi.ClosingIterator.__init__).

Run as:
  cd /tmp/wt6-C05 && PYTHONPATH=/tmp/wt6-C05/src /venv/bin/python /tmp/twin4-C05/2/diff_check.py

The ORIGINAL implementations are pasted below and compared with the worktree's
on several thousand generated inputs; outputs, close-call logs and raised
exception types must be identical.
"""
from __future__ import annotations

import io
import random
import sys
from functools import partial

from werkzeug.wrappers import Response
from werkzeug.wsgi import ClosingIterator


# ---------------------------------------------------------------- originals
class OrigClosingIterator:
    def __init__(self, iterable, callbacks=None):
        iterator = iter(iterable)
        self._next = partial(next, iterator)
        if callbacks is None:
            callbacks = []
        elif callable(callbacks):
            callbacks = [callbacks]
        else:
            callbacks = list(callbacks)
        iterable_close = getattr(iterable, "close", None)
        if iterable_close:
            callbacks.insert(0, iterable_close)
        self._callbacks = callbacks

    def __iter__(self):
        return self

    def __next__(self):
        return self._next()

    def close(self):
        for callback in self._callbacks:
            callback()


def original_get_app_iter(self, environ):
    status = self.status_code
    if (
        environ["REQUEST_METHOD"] == "HEAD"
        or 100 <= status < 200
        or status in (204, 304)
    ):
        iterable = ()
    elif self.direct_passthrough:
        return self.response  # type: ignore
    else:
        iterable = self.iter_encoded()
    return OrigClosingIterator(iterable, self.close)


class OrigResponse(Response):
    get_app_iter = original_get_app_iter


# ------------------------------------------------- part A: ClosingIterator
class Closable:
    """Iterable with a close() that logs."""

    def __init__(self, log, items, label="iter.close", fail_after=None):
        self.log = log
        self.items = list(items)
        self.label = label
        self.fail_after = fail_after

    def __iter__(self):
        for i, x in enumerate(self.items):
            if self.fail_after is not None and i >= self.fail_after:
                raise RuntimeError("boom in iteration")
            yield x

    def close(self):
        self.log.append(self.label)


class FalsyCallable:
    """Callable close attribute whose truth value is False."""

    def __init__(self, log):
        self.log = log

    def __bool__(self):
        return False

    def __call__(self):
        self.log.append("falsy-close")


class WithCloseAttr:
    def __init__(self, items, close):
        self.items = list(items)
        self.close = close

    def __iter__(self):
        return iter(self.items)


class RaisingCloseAttr:
    def __iter__(self):
        return iter([b"x"])

    @property
    def close(self):
        raise LookupError("no close for you")


class CallableAndIterable:
    """callable() wins over iterable: must be wrapped as single callback."""

    def __init__(self, log):
        self.log = log

    def __call__(self):
        self.log.append("callable-and-iterable called")

    def __iter__(self):
        self.log.append("callable-and-iterable ITERATED")
        return iter([])


def make_cb(log, label, exc=None):
    def cb():
        log.append(label)
        if exc is not None:
            raise exc(label)

    return cb


def make_iterable(rng, log):
    k = rng.randrange(13)
    items = [bytes([65 + rng.randrange(26)]) * rng.randrange(4) for _ in range(rng.randrange(5))]
    if k == 0:
        return items
    if k == 1:
        return tuple(items)
    if k == 2:
        return (x for x in items)  # generator: has its own close
    if k == 3:
        return Closable(log, items)
    if k == 4:
        return WithCloseAttr(items, None)
    if k == 5:
        return WithCloseAttr(items, FalsyCallable(log))
    if k == 6:
        return WithCloseAttr(items, make_cb(log, "attr-close"))
    if k == 7:
        return io.BytesIO(b"line1\nline2\n")
    if k == 8:
        return 42  # not iterable -> TypeError
    if k == 9:
        return RaisingCloseAttr()
    if k == 10:
        return Closable(log, items + [b"z", b"y"], fail_after=1)
    if k == 11:
        return iter(items)
    return ()


def make_callbacks(rng, log):
    k = rng.randrange(12)
    if k == 0:
        return None
    if k == 1:
        return make_cb(log, "single")
    if k == 2:
        return [make_cb(log, f"list{i}") for i in range(rng.randrange(4))]
    if k == 3:
        return tuple(make_cb(log, f"tuple{i}") for i in range(rng.randrange(4)))
    if k == 4:
        return (make_cb(log, f"gen{i}") for i in range(rng.randrange(4)))
    if k == 5:
        return 7  # neither callable nor iterable -> TypeError
    if k == 6:
        return []
    if k == 7:
        return CallableAndIterable(log)
    if k == 8:
        return [make_cb(log, "ok0"), make_cb(log, "raises", ValueError), make_cb(log, "ok2")]
    if k == 9:
        return [make_cb(log, "a"), "not callable", make_cb(log, "b")]
    if k == 10:
        return {make_cb(log, "only-in-set")}
    return partial(log.append, "partial")


def run_closing(cls, seed):
    rng = random.Random(seed)
    log: list = []
    iterable = make_iterable(rng, log)
    callbacks = make_callbacks(rng, log)
    orig_cb_snapshot = list(callbacks) if isinstance(callbacks, list) else None
    n_take = rng.randrange(4)
    n_close = rng.choice([1, 1, 2])
    out = []
    try:
        ci = cls(iterable, callbacks)
    except Exception as e:
        return ("ctor-exc", type(e).__name__, str(e), list(log))
    out.append(("iter-is-self", iter(ci) is ci))
    out.append(("n-callbacks", len(ci._callbacks), type(ci._callbacks).__name__))
    for _ in range(n_take):
        try:
            out.append(("item", next(ci)))
        except StopIteration:
            out.append(("stop",))
            break
        except Exception as e:
            out.append(("next-exc", type(e).__name__, str(e)))
            break
    if rng.random() < 0.5:
        try:
            out.append(("rest", list(ci)))
        except Exception as e:
            out.append(("rest-exc", type(e).__name__, str(e)))
    for _ in range(n_close):
        try:
            out.append(("close", ci.close()))
        except Exception as e:
            out.append(("close-exc", type(e).__name__, str(e)))
    # caller's list must not be mutated
    if orig_cb_snapshot is not None:
        out.append(("caller-list-unchanged", len(callbacks) == len(orig_cb_snapshot)))
    return ("ok", out, list(log))


# ------------------------------------------------- part B: get_app_iter
STATUSES = [
    100, 101, 102, 103, 150, 199, 200, 201, 203, 204, 205, 206, 301, 302, 304,
    305, 400, 404, 500, 0, 99, 600, "204 X", "304", "wat",
]
METHODS = ["GET", "HEAD", "POST", "head", "Head", "OPTIONS", "", None, b"HEAD", "MISSING"]


def make_body(rng, log):
    k = rng.randrange(9)
    if k == 0:
        return [b"abc", b"de"]
    if k == 1:
        return ["text", "☃"]
    if k == 2:
        return b"bytes body"
    if k == 3:
        return "str body é"
    if k == 4:
        return (x for x in [b"g1", "g2"])
    if k == 5:
        return Closable(log, [b"c1", "c2", b"c3"], label="body.close")
    if k == 6:
        return ()
    if k == 7:
        return None
    return io.BytesIO(b"file\ncontents\n")


def run_app_iter(cls, seed):
    rng = random.Random(seed)
    log: list = []
    status = rng.choice(STATUSES)
    method = rng.choice(METHODS)
    body = make_body(rng, log)
    passthrough = rng.random() < 0.3
    n_on_close = rng.randrange(3)
    consume = rng.choice(["all", "some", "none"])
    n_close = rng.choice([1, 1, 2])

    resp = cls(body, status=status, direct_passthrough=passthrough)
    for i in range(n_on_close):
        resp.call_on_close(make_cb(log, f"on_close{i}"))
    environ = {"wsgi.url_scheme": "http", "SERVER_NAME": "x", "SERVER_PORT": "80"}
    if method != "MISSING":
        environ["REQUEST_METHOD"] = method
    out = []
    try:
        it = resp.get_app_iter(environ)
    except Exception as e:
        return ("exc", type(e).__name__, str(e), list(log))
    kind = type(it).__name__.replace("Orig", "")
    out.append(("type", kind, it is resp.response))
    if kind == "ClosingIterator":
        out.append(("n-callbacks", len(it._callbacks)))
        # bound-method equality: same function, same instance
        out.append(("cb-is-resp-close", it._callbacks[-1] == resp.close))
    try:
        if consume == "all":
            out.append(("items", list(it)))
        elif consume == "some":
            i = iter(it)
            out.append(("first", next(i, "<none>")))
    except Exception as e:
        out.append(("iter-exc", type(e).__name__, str(e)))
    for _ in range(n_close):
        try:
            if hasattr(it, "close"):
                out.append(("close", it.close()))
        except Exception as e:
            out.append(("close-exc", type(e).__name__, str(e)))
    return ("ok", out, list(log))


def main():
    assert Response.get_app_iter is not original_get_app_iter
    mismatches = 0
    stats = {}
    n = 0
    for seed in range(8000):
        a = run_closing(OrigClosingIterator, seed)
        b = run_closing(ClosingIterator, seed)
        n += 1
        stats[("A", a[0])] = stats.get(("A", a[0]), 0) + 1
        if a != b:
            mismatches += 1
            if mismatches <= 5:
                print("MISMATCH A seed", seed, "\n  orig:", a, "\n  new: ", b)
    for seed in range(8000):
        a = run_app_iter(OrigResponse, seed)
        b = run_app_iter(Response, seed)
        n += 1
        stats[("B", a[0])] = stats.get(("B", a[0]), 0) + 1
        if a != b:
            mismatches += 1
            if mismatches <= 5:
                print("MISMATCH B seed", seed, "\n  orig:", a, "\n  new: ", b)
    print(f"cases={n} stats={stats} mismatches={mismatches}")
    if mismatches or stats.get(("A", "ok"), 0) < 2000 or stats.get(("B", "ok"), 0) < 2000:
        print("FAIL")
        sys.exit(1)
    print("PASS")


if __name__ == "__main__":
    main()
