"""Differential check for refactoring 2 (formparser.MultiPartParser.parse).

Run: cd /tmp/wt13-C10 && PYTHONPATH=/tmp/wt13-C10/src /venv/bin/python /tmp/twin8-C10/2/diff_check.py
"""

from __future__ import annotations

import io
import random
import typing as t

from werkzeug import formparser
from werkzeug.datastructures import FileStorage
from werkzeug.datastructures import MultiDict
from werkzeug.exceptions import RequestEntityTooLarge
from werkzeug.formparser import _chunk_iter
from werkzeug.formparser import FormDataParser
from werkzeug.formparser import MultiPartParser
from werkzeug.sansio.multipart import Data
from werkzeug.sansio.multipart import Epilogue
from werkzeug.sansio.multipart import Field
from werkzeug.sansio.multipart import File
from werkzeug.sansio.multipart import MultipartDecoder
from werkzeug.sansio.multipart import NeedData


class OrigMultiPartParser(MultiPartParser):
    # ORIGINAL implementation, pasted from the unmodified tree.
    def parse(
        self, stream: t.IO[bytes], boundary: bytes, content_length: int | None
    ) -> tuple[MultiDict[str, str], MultiDict[str, FileStorage]]:
        current_part: Field | File
        field_size: int | None = None
        container: t.IO[bytes] | list[bytes]
        _write: t.Callable[[bytes], t.Any]

        parser = MultipartDecoder(
            boundary,
            max_form_memory_size=self.max_form_memory_size,
            max_parts=self.max_form_parts,
        )

        fields = []
        files = []

        for data in _chunk_iter(stream.read, self.buffer_size):
            parser.receive_data(data)
            event = parser.next_event()
            while not isinstance(event, (Epilogue, NeedData)):
                if isinstance(event, Field):
                    current_part = event
                    field_size = 0
                    container = []
                    _write = container.append
                elif isinstance(event, File):
                    current_part = event
                    field_size = None
                    container = self.start_file_streaming(event, content_length)
                    _write = container.write
                elif isinstance(event, Data):
                    if self.max_form_memory_size is not None and field_size is not None:
                        # Ensure that accumulated data events do not exceed limit.
                        # Also checked within single event in MultipartDecoder.
                        field_size += len(event.data)

                        if field_size > self.max_form_memory_size:
                            raise RequestEntityTooLarge()

                    _write(event.data)
                    if not event.more_data:
                        if isinstance(current_part, Field):
                            value = b"".join(container).decode(
                                self.get_part_charset(current_part.headers), "replace"
                            )
                            fields.append((current_part.name, value))
                        else:
                            container = t.cast(t.IO[bytes], container)
                            container.seek(0)
                            files.append(
                                (
                                    current_part.name,
                                    FileStorage(
                                        container,
                                        current_part.filename,
                                        current_part.name,
                                        headers=current_part.headers,
                                    ),
                                )
                            )

                event = parser.next_event()

        return self.cls(fields), self.cls(files)


assert OrigMultiPartParser.parse is not MultiPartParser.parse

NLS = [b"\r\n", b"\r\n", b"\r\n", b"\r\n", b"\n", b"\r"]
BOUNDARIES = ["boundary", "b", "----WebKitFormBoundaryXyZ123", "a.b+c(d)"]
CHARSETS = [
    None,
    b"text/plain",
    b"text/plain; charset=utf-8",
    b"text/plain; charset=ISO-8859-1",
    b"text/plain; charset=ascii",
    b"text/plain; charset=utf-16",
    b'text/plain; charset="us-ascii"',
]


def rand_bytes(rng: random.Random, n: int) -> bytes:
    alphabet = b"abcXYZ 0123-\r\n\t=:;\"\xe4\xff\xc3\xa9"
    return bytes(rng.choice(alphabet) for _ in range(n))


def gen_body(rng: random.Random, boundary: bytes) -> bytes:
    nl = rng.choice(NLS)
    out = bytearray()
    if rng.random() < 0.2:
        out += rand_bytes(rng, rng.randrange(0, 30)) + nl
    nparts = rng.choice([0, 1, 1, 2, 3, 4, 6, 10])
    for i in range(nparts):
        out += b"--" + boundary + nl
        kind = rng.random()
        if kind < 0.04:
            out += b"X-Other: 1" + nl  # missing disposition
        else:
            name = rng.choice([b"a", b"b", b"f%d" % i])
            if rng.random() < 0.05:
                out += b"Content-Disposition: form-data"
            else:
                out += b'Content-Disposition: form-data; name="%s"' % name
            if kind < 0.4:
                out += b'; filename="n%d.txt"' % i
            out += nl
            ct = rng.choice(CHARSETS)
            if ct is not None:
                out += b"Content-Type: " + ct + nl
            if rng.random() < 0.15:
                out += b"Content-Length: " + rng.choice([b"12", b"x", b"-1"]) + nl
        out += nl
        size = rng.choice([0, 1, 3, 10, 30, 80, 200, 600, 3000])
        out += rand_bytes(rng, size)
        out += nl
    r = rng.random()
    if r < 0.88:
        out += b"--" + boundary + b"--" + (nl if rng.random() < 0.8 else b"")
        if rng.random() < 0.1:
            out += b"epilogue"
    elif r < 0.94:
        out += b"--" + boundary[:-1]
    if rng.random() < 0.04 and len(out) > 3:
        out = out[: rng.randrange(1, len(out))]
    return bytes(out)


class ShortReader:
    """A stream whose read() may return fewer bytes than asked."""

    def __init__(self, data: bytes, seed: int, short: bool) -> None:
        self._io = io.BytesIO(data)
        self._rng = random.Random(seed)
        self._short = short

    def read(self, size: int = -1) -> bytes:
        if self._short and size > 1:
            size = self._rng.randrange(1, size + 1)
        return self._io.read(size)


class Factory:
    def __init__(self) -> None:
        self.calls: list[t.Any] = []

    def __call__(
        self,
        total_content_length: int | None,
        content_type: str | None,
        filename: str | None,
        content_length: int | None = None,
    ) -> t.IO[bytes]:
        self.calls.append((total_content_length, content_type, filename, content_length))
        return io.BytesIO()


class OrderedMulti(MultiDict):  # type: ignore[type-arg]
    pass


def norm_result(
    form: MultiDict[str, str], files: MultiDict[str, FileStorage]
) -> tuple[t.Any, ...]:
    fl = []
    for k, fs in files.items(multi=True):
        pos = fs.stream.tell()
        fl.append(
            (
                k,
                type(fs).__name__,
                fs.filename,
                fs.name,
                list(fs.headers),
                pos,
                fs.stream.read(),
                type(fs.stream).__name__,
            )
        )
    return (
        type(form).__name__,
        list(form.items(multi=True)),
        type(files).__name__,
        fl,
    )


def run_direct(
    cls: type[MultiPartParser],
    body: bytes,
    boundary: bytes,
    mem: int | None,
    parts: int | None,
    bufsize: int,
    short: bool,
    seed: int,
    dict_cls: t.Any,
    content_length: int | None,
    use_factory: bool,
) -> t.Any:
    fac = Factory() if use_factory else None
    parser = cls(
        stream_factory=fac,
        max_form_memory_size=mem,
        cls=dict_cls,
        buffer_size=bufsize,
        max_form_parts=parts,
    )
    stream = ShortReader(body, seed, short)
    try:
        form, files = parser.parse(stream, boundary, content_length)  # type: ignore[arg-type]
    except Exception as e:
        return ("exc", type(e), str(e), fac.calls if fac else None, stream._io.tell())
    return ("ok", norm_result(form, files), fac.calls if fac else None, stream._io.tell())


def run_e2e(
    cls: type[MultiPartParser],
    body: bytes,
    boundary: str,
    mem: int | None,
    parts: int | None,
    max_len: int | None,
    silent: bool,
) -> t.Any:
    saved = formparser.MultiPartParser
    formparser.MultiPartParser = cls  # type: ignore[misc]
    try:
        environ = {
            "wsgi.input": io.BytesIO(body),
            "CONTENT_LENGTH": str(len(body)),
            "CONTENT_TYPE": f'multipart/form-data; boundary="{boundary}"',
            "REQUEST_METHOD": "POST",
        }
        p = FormDataParser(
            max_form_memory_size=mem,
            max_content_length=max_len,
            max_form_parts=parts,
            silent=silent,
        )
        try:
            stream, form, files = p.parse_from_environ(environ)
        except Exception as e:
            return ("exc", type(e), str(e))
        return ("ok", norm_result(form, files), type(stream).__name__)
    finally:
        formparser.MultiPartParser = saved  # type: ignore[misc]


def main() -> None:
    rng = random.Random(10032026)
    counts = {"ok": 0, "RequestEntityTooLarge": 0, "ValueError": 0, "other": 0}
    pure_guard_checked = 0
    n = 0
    for i in range(5000):
        boundary_s = rng.choice(BOUNDARIES)
        boundary = boundary_s.encode()
        body = gen_body(rng, boundary)
        mem = rng.choice([None, None, 0, 1, 10, 50, 100, 250, 700, 3500, 10**6])
        parts = rng.choice([None, None, 0, 1, 2, 3, 5, 9, 10, 11, 1000])
        bufsize = rng.choice([1, 2, 5, 16, 50, 128, 1024, 64 * 1024])
        if mem is not None and rng.random() < 0.5:
            # keep the chunk below the decoder's own limit so that the
            # accumulated-field-size check in parse() is what triggers
            bufsize = max(1, min(bufsize, max(1, mem // 4)))
        short = rng.random() < 0.3
        seed = rng.randrange(10**9)
        dict_cls = rng.choice([None, MultiDict, OrderedMulti])
        content_length = rng.choice([None, len(body), 0])
        use_factory = rng.random() < 0.6

        args = (body, boundary, mem, parts, bufsize, short, seed, dict_cls, content_length, use_factory)
        a = run_direct(OrigMultiPartParser, *args)
        b = run_direct(MultiPartParser, *args)
        if a != b:
            print("FAIL direct case", i, args)
            print(" orig:", a)
            print(" new :", b)
            raise SystemExit(1)
        if a[0] == "ok":
            counts["ok"] += 1
            if mem is not None or parts is not None:
                # limits are pure guards: same result as without limits
                c = run_direct(
                    MultiPartParser, body, boundary, None, None, bufsize, short, seed,
                    dict_cls, content_length, use_factory,
                )
                if c != a:
                    print("FAIL pure-guard case", i, args)
                    raise SystemExit(1)
                pure_guard_checked += 1
        else:
            counts[a[1].__name__ if a[1].__name__ in counts else "other"] += 1
        n += 1

        if i % 2 == 0:
            max_len = rng.choice([None, None, 100, 1000, len(body), len(body) - 1])
            silent = rng.random() < 0.5
            a2 = run_e2e(OrigMultiPartParser, body, boundary_s, mem, parts, max_len, silent)
            b2 = run_e2e(MultiPartParser, body, boundary_s, mem, parts, max_len, silent)
            if a2 != b2:
                print("FAIL e2e case", i, body, boundary_s, mem, parts, max_len, silent)
                print(" orig:", a2)
                print(" new :", b2)
                raise SystemExit(1)
            n += 1

    print("cases:", n, counts, "pure-guard re-checks:", pure_guard_checked)
    assert counts["ok"] > 300 and counts["RequestEntityTooLarge"] > 300
    assert counts["ValueError"] > 50
    print("PASS")


if __name__ == "__main__":
    main()
