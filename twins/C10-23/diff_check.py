"""Differential check for refactoring 2 (formparser.MultiPartParser.parse)."""
import io
import random
import typing as t

from werkzeug.datastructures import FileStorage
from werkzeug.datastructures import MultiDict
from werkzeug.exceptions import RequestEntityTooLarge
from werkzeug.formparser import _chunk_iter
from werkzeug.formparser import MultiPartParser
from werkzeug.sansio.multipart import Data
from werkzeug.sansio.multipart import Epilogue
from werkzeug.sansio.multipart import Field
from werkzeug.sansio.multipart import File
from werkzeug.sansio.multipart import MultipartDecoder
from werkzeug.sansio.multipart import NeedData


class OrigParser(MultiPartParser):
    # Verbatim copy of the original MultiPartParser.parse.
    def parse(self, stream, boundary, content_length):
        current_part: Field | File
        field_size: int | None = None
        container: t.IO[bytes] | list[bytes]
        _write: t.Callable[[bytes], t.Any]

        parser = MultipartDecoder(
            boundary,
            max_form_memory_size=self.max_form_memory_size,
            max_parts=self.max_form_parts,
        )

        fields = []
        files = []

        for data in _chunk_iter(stream.read, self.buffer_size):
            parser.receive_data(data)
            event = parser.next_event()
            while not isinstance(event, (Epilogue, NeedData)):
                if isinstance(event, Field):
                    current_part = event
                    field_size = 0
                    container = []
                    _write = container.append
                elif isinstance(event, File):
                    current_part = event
                    field_size = None
                    container = self.start_file_streaming(event, content_length)
                    _write = container.write
                elif isinstance(event, Data):
                    if self.max_form_memory_size is not None and field_size is not None:
                        field_size += len(event.data)

                        if field_size > self.max_form_memory_size:
                            raise RequestEntityTooLarge()

                    _write(event.data)
                    if not event.more_data:
                        if isinstance(current_part, Field):
                            value = b"".join(container).decode(
                                self.get_part_charset(current_part.headers), "replace"
                            )
                            fields.append((current_part.name, value))
                        else:
                            container = t.cast(t.IO[bytes], container)
                            container.seek(0)
                            files.append(
                                (
                                    current_part.name,
                                    FileStorage(
                                        container,
                                        current_part.filename,
                                        current_part.name,
                                        headers=current_part.headers,
                                    ),
                                )
                            )

                event = parser.next_event()

        return self.cls(fields), self.cls(files)


class OrderedMultiDictLike(MultiDict):
    """A custom ``cls`` to check that the configured class is still used."""


BOUNDARY = b"bound"
CHARSETS = [None, "utf-8", "ascii", "iso-8859-1", "latin2", "UTF-8"]


def rand_payload(rng):
    kind = rng.random()
    n = rng.choice([0, 1, 3, 10, 40, 90, 200, 600])
    if kind < 0.5:
        return bytes(rng.choice(b"abc xyz\xe9\xff\r\n-") for _ in range(n))
    if kind < 0.7:
        return (b"\r\n--boun" * n)[:n]
    return bytes(rng.randrange(256) for _ in range(n))


def make_body(rng):
    parts = []
    for i in range(rng.choice([0, 1, 1, 2, 3, 5, 8])):
        name = rng.choice(["a", "b", "f%d" % i, ""])
        is_file = rng.random() < 0.4
        head = 'Content-Disposition: form-data; name="%s"' % name
        if rng.random() < 0.05:
            head = "X-Nothing: 1"
        if is_file:
            head += '; filename="%s"' % rng.choice(["x.txt", "", "d/e.bin"])
        cs = rng.choice(CHARSETS)
        if cs is not None or is_file and rng.random() < 0.5:
            head += "\r\nContent-Type: text/plain" + (
                "; charset=%s" % cs if cs is not None else ""
            )
        if is_file and rng.random() < 0.3:
            head += "\r\nContent-Length: %s" % rng.choice(["3", "x", "-1"])
        parts.append(
            b"--" + BOUNDARY + b"\r\n" + head.encode() + b"\r\n\r\n" + rand_payload(rng)
        )
    body = rng.choice([b"", b"preamble", b"\r\n"]) + b"\r\n".join(parts)
    if parts:
        body += b"\r\n"
    r = rng.random()
    if r < 0.85:
        body += b"--" + BOUNDARY + b"--" + rng.choice([b"", b"\r\n", b"\r\nepilogue"])
    elif r < 0.93:
        body = body[: rng.randrange(len(body) + 1)]
    return body


def observe(cls, body, kwargs, content_length):
    created = []

    def factory(total_content_length, content_type, filename, content_length=None):
        created.append((total_content_length, content_type, filename, content_length))
        return io.BytesIO()

    p = cls(stream_factory=factory, **kwargs)
    try:
        form, files = p.parse(io.BytesIO(body), BOUNDARY, content_length)
    except Exception as e:  # noqa: B902
        return ("raise", type(e).__name__, str(e), created)
    return (
        type(form).__name__,
        list(form.items(multi=True)),
        type(files).__name__,
        [
            (k, type(v).__name__, v.filename, v.name, list(v.headers), v.stream.tell(), v.stream.getvalue())
            for k, v in files.items(multi=True)
        ],
        created,
    )


def main():
    rng = random.Random(20102)
    n = 0
    kinds: dict[str, int] = {}
    for _ in range(6000):
        body = make_body(rng)
        kwargs = {
            "max_form_memory_size": rng.choice([None, None, 0, 5, 100, 250, 700, 2000, 5000, 20000]),
            "max_form_parts": rng.choice([None, None, None, 0, 1, 2, 4, 10, 10]),
            "buffer_size": rng.choice([1, 2, 7, 16, 64, 300, 64 * 1024]),
        }
        if rng.random() < 0.2:
            kwargs["cls"] = OrderedMultiDictLike
        cl = rng.choice([None, len(body), 0])
        a = observe(OrigParser, body, kwargs, cl)
        b = observe(MultiPartParser, body, kwargs, cl)
        if a != b:
            print("FAIL", body, kwargs, a, b)
            return
        n += 1
        kind = a[1] if a[0] == "raise" else "ok"
        kinds[kind] = kinds.get(kind, 0) + 1
    print(f"PASS ({n} cases: {kinds})")


if __name__ == "__main__":
    main()
