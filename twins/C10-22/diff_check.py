"""Differential check for refactoring 1 (wsgi.get_input_stream)."""
import io
import random
import typing as t

from werkzeug.exceptions import RequestEntityTooLarge
from werkzeug.wsgi import get_content_length
from werkzeug.wsgi import get_input_stream as new_get_input_stream
from werkzeug.wsgi import LimitedStream


def orig_get_input_stream(environ, safe_fallback=True, max_content_length=None):
    stream = t.cast(t.IO[bytes], environ["wsgi.input"])
    content_length = get_content_length(environ)

    if content_length is not None and max_content_length is not None:
        if content_length > max_content_length:
            raise RequestEntityTooLarge()

    if "wsgi.input_terminated" in environ:
        if max_content_length is not None:
            return t.cast(
                t.IO[bytes], LimitedStream(stream, max_content_length, is_max=True)
            )

        return stream

    if content_length is None:
        return io.BytesIO() if safe_fallback else stream

    return t.cast(t.IO[bytes], LimitedStream(stream, content_length))


def observe(fn, env_factory, kwargs, reads):
    environ, raw = env_factory()
    out = []
    try:
        s = fn(environ, **kwargs)
    except Exception as e:  # noqa: B902
        return [("raise", type(e).__name__)]
    out.append(("type", type(s).__name__, s is raw))
    if isinstance(s, LimitedStream):
        out.append(("limit", s.limit, s._limit_is_max if hasattr(s, "_limit_is_max") else None, getattr(s, "is_max", None)))
    for size in reads:
        try:
            if size == "line":
                out.append(("line", s.readline()))
            elif size is None:
                out.append(("read", s.read()))
            else:
                out.append(("read", s.read(size)))
        except Exception as e:  # noqa: B902
            out.append(("raise", type(e).__name__))
            break
    out.append(("rawpos", raw.tell()))
    return out


def main():
    rng = random.Random(1010)
    n = 0
    cl_choices = [None, "", "0", "1", "5", "10", "20", "64", "abc", "-3", "+4", " 7", "1_0", "999"]
    for _ in range(6000):
        body = bytes(rng.randrange(256) for _ in range(rng.choice([0, 1, 5, 10, 20, 33, 64, 100])))
        if rng.random() < 0.3:
            body = body.replace(b"\x00", b"\n")
        cl = rng.choice(cl_choices + [str(len(body))] * 4)
        te = rng.choice([None, None, None, "chunked", "gzip", "Chunked"])
        terminated = rng.choice([None, None, True, False])
        kwargs = {}
        if rng.random() < 0.7:
            kwargs["max_content_length"] = rng.choice([None, 0, 1, 5, 10, 20, 50, 64, 1000])
        if rng.random() < 0.6:
            kwargs["safe_fallback"] = rng.choice([True, False, 0, 1, "", "x", None])
        reads = [rng.choice([None, 0, 1, 3, 7, 16, 50, -1, "line"]) for _ in range(rng.randrange(1, 6))]

        def env_factory():
            raw = io.BytesIO(body)
            environ = {"wsgi.input": raw}
            if cl is not None:
                environ["CONTENT_LENGTH"] = cl
            if te is not None:
                environ["HTTP_TRANSFER_ENCODING"] = te
            if terminated is not None:
                environ["wsgi.input_terminated"] = terminated
            return environ, raw

        a = observe(orig_get_input_stream, env_factory, kwargs, reads)
        b = observe(new_get_input_stream, env_factory, kwargs, reads)
        if a != b:
            print("FAIL", cl, te, terminated, kwargs, reads, a, b)
            return
        n += 1
    print(f"PASS ({n} cases)")


if __name__ == "__main__":
    main()
