"""Differential check for refactoring 1 (C04): MapAdapter._partial_build
rewritten with guard clauses (early ``continue``) and a merged host condition.

Run: cd /tmp/wt12-C04 && PYTHONPATH=/tmp/wt12-C04/src /venv/bin/python /tmp/twin7-C04/1/diff_check.py

Runs the same few thousand random build+match scenarios twice - once with the
worktree's (refactored) code, once with the ORIGINAL implementation pasted below
patched in - and prints PASS only if every output / exception is identical.
Also calls _partial_build directly against stub rules to cover orderings the
real router does not produce.
"""
from __future__ import annotations

import typing as t


# ---- ORIGINAL implementation (verbatim from the unmodified tree) ----------
def _orig_partial_build(
    self,
    endpoint: t.Any,
    values: t.Mapping[str, t.Any],
    method: str | None,
    append_unknown: bool,
) -> tuple[str, str, bool] | None:
    # in case the method is none, try with the default method first
    if method is None:
        rv = self._partial_build(
            endpoint, values, self.default_method, append_unknown
        )
        if rv is not None:
            return rv

    # Default method did not match or a specific method is passed.
    # Check all for first match with matching host. If no matching
    # host is found, go with first result.
    first_match = None

    for rule in self.map._rules_by_endpoint.get(endpoint, ()):
        if rule.suitable_for(values, method):
            build_rv = rule.build(values, append_unknown)

            if build_rv is not None:
                rv = (build_rv[0], build_rv[1], rule.websocket)
                if self.map.host_matching:
                    if rv[0] == self.server_name:
                        return rv
                    elif first_match is None:
                        first_match = rv
                else:
                    return rv

    return first_match


# --------------------------------------------------------------------------
# Shared differential harness: random maps / values / adapters; build + match.
# --------------------------------------------------------------------------
import contextlib
import random
import sys
import uuid as _uuid
from urllib.parse import unquote, urlsplit

from werkzeug.datastructures import MultiDict
from werkzeug.routing import Map, Rule, Submount, Subdomain

TEXT_ALPHABET = list("abcXYZ019 ;?#%&=+@:,!$'()*~._-[]{}|\\\"<>^`") + [
    "é",
    "ü",
    "ß",
    "日",
    "本",
    " ",
    "😀",
    "%20",
    "%2F",
]


def gen_text(rng, lo=1, hi=8):
    return "".join(rng.choice(TEXT_ALPHABET) for _ in range(rng.randint(lo, hi)))


def gen_path(rng):
    return "/".join(gen_text(rng, 1, 4) for _ in range(rng.randint(1, 4)))


def gen_float(rng, signed):
    v = rng.choice(
        [0.0, 0.5, 1.25, 3.0, 10.75, 123456.789, round(rng.uniform(0, 1000), 3)]
    )
    if signed and rng.random() < 0.5:
        v = -v
    return v


def gen_rule_specs(rng):
    """Return a list of rule specs: dict(kind, rule, kwargs, endpoint, gen)."""
    specs = []
    kinds = [
        "str",
        "strlen",
        "int",
        "intfixed",
        "intsigned",
        "intminmax",
        "float",
        "floatsigned",
        "any",
        "uuid",
        "path",
        "pathedit",
        "multi",
        "defaults",
        "inrule_default",
        "methods",
        "alias",
        "static",
        "websocket",
        "buildonly",
        "subdomain_rule",
    ]
    chosen = rng.sample(kinds, rng.randint(3, 9))
    for i, kind in enumerate(chosen):
        ep = f"ep_{kind}_{i}"
        seg = f"{kind}{i}"
        trail = rng.choice(["", "/"])
        if kind == "str":
            specs.append((ep, [(f"/{seg}/<name>{trail}", {})], kind))
        elif kind == "strlen":
            opt = rng.choice(["length=3", "minlength=2", "maxlength=5", "minlength=2, maxlength=4"])
            specs.append((ep, [(f"/{seg}/<string({opt}):name>{trail}", {})], kind))
        elif kind == "int":
            specs.append((ep, [(f"/{seg}/<int:n>{trail}", {})], kind))
        elif kind == "intfixed":
            specs.append((ep, [(f"/{seg}/<int(fixed_digits=4):n>{trail}", {})], kind))
        elif kind == "intsigned":
            specs.append((ep, [(f"/{seg}/<int(signed=True):n>{trail}", {})], kind))
        elif kind == "intminmax":
            specs.append((ep, [(f"/{seg}/<int(min=5, max=50):n>{trail}", {})], kind))
        elif kind == "float":
            specs.append((ep, [(f"/{seg}/<float:x>{trail}", {})], kind))
        elif kind == "floatsigned":
            specs.append((ep, [(f"/{seg}/<float(signed=True):x>{trail}", {})], kind))
        elif kind == "any":
            specs.append((ep, [(f'/{seg}/<any(foo, bar, "b z", "q;x"):w>{trail}', {})], kind))
        elif kind == "uuid":
            specs.append((ep, [(f"/{seg}/<uuid:id>{trail}", {})], kind))
        elif kind == "path":
            specs.append((ep, [(f"/{seg}/<path:p>{trail}", {})], kind))
        elif kind == "pathedit":
            specs.append((ep, [(f"/{seg}/<path:p>/edit", {})], kind))
        elif kind == "multi":
            specs.append((ep, [(f"/{seg}/<int:a>/<b>/x-<float:c>/<path:d>", {})], kind))
        elif kind == "defaults":
            specs.append(
                (
                    ep,
                    [
                        (f"/{seg}/", {"defaults": {"page": 1}}),
                        (f"/{seg}/page/<int:page>", {}),
                    ],
                    kind,
                )
            )
        elif kind == "inrule_default":
            specs.append(
                (
                    ep,
                    [
                        (f"/{seg}/<lang>/doc", {"defaults": {"lang": "e n"}}),
                        (f"/{seg}/<lang>/doc/<int:v>", {"defaults": {"v": 7}}),
                        (f"/{seg}/other/<lang>/<int:v>", {}),
                    ],
                    kind,
                )
            )
        elif kind == "methods":
            specs.append(
                (
                    ep,
                    [
                        (f"/{seg}/get/<int:n>", {"methods": ["GET"]}),
                        (f"/{seg}/post/<int:n>", {"methods": ["POST", "PUT"]}),
                        (f"/{seg}/anym/<int:n>/<extra>", {}),
                    ],
                    kind,
                )
            )
        elif kind == "alias":
            specs.append(
                (
                    ep,
                    [
                        (f"/{seg}/old/<name>", {"alias": True}),
                        (f"/{seg}/new/<name>", {}),
                    ],
                    kind,
                )
            )
        elif kind == "static":
            specs.append((ep, [(f"/{seg}/sta tic;é{trail}", {})], kind))
        elif kind == "websocket":
            specs.append((ep, [(f"/{seg}/<name>", {"websocket": True})], kind))
        elif kind == "buildonly":
            specs.append((ep, [(f"/{seg}/<path:p>", {"build_only": True})], kind))
        elif kind == "subdomain_rule":
            specs.append((ep, [(f"/{seg}/<name>", {"__domain__": True})], kind))
    return specs


def gen_values(rng, kind):
    r = rng.random()
    if kind in ("str", "websocket", "subdomain_rule"):
        v = {"name": gen_text(rng)}
        if kind == "subdomain_rule":
            v["dom"] = rng.choice(["www", "api", "a-b", "kb"])
        return v
    if kind == "alias":
        return {"name": gen_text(rng)}
    if kind == "strlen":
        return {"name": gen_text(rng, 1, 6)}
    if kind in ("int", "intfixed", "intminmax"):
        return {"n": rng.choice([0, 1, 5, 7, 42, 50, 51, 999, 1234, 12345, 10**12, rng.randint(0, 99999)])}
    if kind == "intsigned":
        return {"n": rng.choice([0, -1, 1, -42, 999, -(10**9), rng.randint(-9999, 9999)])}
    if kind == "float":
        return {"x": gen_float(rng, False)}
    if kind == "floatsigned":
        return {"x": gen_float(rng, True)}
    if kind == "any":
        return {"w": rng.choice(["foo", "bar", "b z", "q;x", "nope", "Foo"])}
    if kind == "uuid":
        return {"id": _uuid.UUID(int=rng.getrandbits(128))}
    if kind in ("path", "pathedit", "buildonly"):
        return {"p": gen_path(rng)}
    if kind == "multi":
        return {
            "a": rng.randint(0, 10**6),
            "b": gen_text(rng),
            "c": gen_float(rng, False),
            "d": gen_path(rng),
        }
    if kind == "defaults":
        if r < 0.3:
            return {}
        return {"page": rng.choice([1, 1, 2, 3, 10, "1", 1.0, True])}
    if kind == "inrule_default":
        v = {}
        if r < 0.8:
            v["lang"] = rng.choice(["e n", "e n", "de", gen_text(rng, 1, 3)])
        if rng.random() < 0.7:
            v["v"] = rng.choice([7, 7, 8, 0, "7"])
        return v
    if kind == "methods":
        v = {"n": rng.randint(0, 100)}
        if rng.random() < 0.3:
            v["extra"] = gen_text(rng, 1, 3)
        return v
    if kind == "static":
        return {}
    raise AssertionError(kind)


def perturb_values(rng, values):
    """Occasionally make the values odd: missing keys, None, wrong types, extras."""
    values = dict(values)
    r = rng.random()
    if r < 0.06 and values:
        del values[rng.choice(sorted(values))]
    elif r < 0.10 and values:
        values[rng.choice(sorted(values))] = None
    elif r < 0.16 and values:
        values[rng.choice(sorted(values))] = rng.choice(
            ["abc", "", -3, 2.5, "12", [1, 2], ("x",), b"by", "a/b", "/lead", "trail/"]
        )
    if rng.random() < 0.4:
        for _ in range(rng.randint(1, 3)):
            key = rng.choice(["q", "z", "a b", "é", "page_", "x&y"])
            values[key] = rng.choice(
                [
                    gen_text(rng),
                    rng.randint(-5, 500),
                    [gen_text(rng, 1, 3), gen_text(rng, 1, 3)],
                    None,
                    2.5,
                    True,
                    [],
                    ("t1", "t2"),
                ]
            )
    return values


def gen_scenarios(seed, n_maps, n_builds):
    rng = random.Random(seed)
    scenarios = []
    for _ in range(n_maps):
        specs = gen_rule_specs(rng)
        host_matching = rng.random() < 0.3
        cfg = {
            "specs": specs,
            "host_matching": host_matching,
            "wrap": rng.choice([None, None, "submount", "subdomain", "both"]),
            "sort_parameters": rng.random() < 0.3,
            "default_subdomain": rng.choice(["", "", "www"]),
            "strict_slashes": rng.random() < 0.8,
            "merge_slashes": rng.random() < 0.8,
            "redirect_defaults": rng.random() < 0.8,
            "script_name": rng.choice(["/", "/app", "/app/", None]),
            "bind_subdomain": rng.choice([None, None, "www", "api", ""]),
            "url_scheme": rng.choice(["http", "https", "ws", "wss", ""]),
            "default_method": rng.choice(["GET", "GET", "POST"]),
            "server_name": rng.choice(["example.com", "example.com", "www.example.com", "localhost:5000"]),
        }
        builds = []
        for _ in range(n_builds):
            ep, _rules, kind = rng.choice(specs)
            values = perturb_values(rng, gen_values(rng, kind))
            if rng.random() < 0.03:
                ep = "missing_endpoint"
            as_multi = rng.random() < 0.15
            builds.append(
                {
                    "endpoint": ep,
                    "values": values,
                    "as_multi": as_multi,
                    "method": rng.choice([None, None, None, "GET", "POST", "PUT", "DELETE"]),
                    "force_external": rng.random() < 0.4,
                    "append_unknown": rng.random() < 0.8,
                    "url_scheme": rng.choice([None, None, None, "https", "ws", ""]),
                    "match_method": rng.choice([None, "GET", "POST"]),
                }
            )
        cfg["builds"] = builds
        scenarios.append(cfg)
    return scenarios


def make_map(cfg):
    host_matching = cfg["host_matching"]
    rules = []
    for ep, rule_list, _kind in cfg["specs"]:
        for idx, (rule_str, kw) in enumerate(rule_list):
            kw = dict(kw)
            if kw.pop("__domain__", False):
                if host_matching:
                    kw["host"] = "<dom>.example.com"
                else:
                    kw["subdomain"] = "<dom>"
            elif host_matching:
                pick = (int(ep[-1]) + idx) % 3
                kw["host"] = [cfg["server_name"], "other.example.org", "third.example.net"][pick]
            rules.append(Rule(rule_str, endpoint=ep, **kw))
    wrap = cfg["wrap"]
    half = len(rules) // 2
    if wrap in ("submount", "both"):
        rules = [Submount("/pre fix", rules[:half])] + rules[half:]
    if wrap in ("subdomain", "both") and not host_matching and half:
        rules = rules[:-1] + [Subdomain("kb", [rules[-1]])]
    return Map(
        rules,
        host_matching=host_matching,
        sort_parameters=cfg["sort_parameters"],
        default_subdomain=cfg["default_subdomain"],
        strict_slashes=cfg["strict_slashes"],
        merge_slashes=cfg["merge_slashes"],
        redirect_defaults=cfg["redirect_defaults"],
    )


def describe_exc(e):
    out = [type(e).__name__]
    for attr in ("new_url", "valid_methods", "code"):
        if hasattr(e, attr):
            out.append((attr, repr(getattr(e, attr))))
    if type(e).__name__ == "BuildError":
        out.append(("suggested", repr(getattr(e, "suggested", None))))
        out.append(("str", str(e)))
    elif type(e).__name__ in ("ValueError", "TypeError", "KeyError", "LookupError"):
        out.append(("str", str(e)))
    return tuple(out)


def match_back(m, cfg, adapter, url, method):
    """Match a built URL the way a server would deliver it (percent-decoded)."""
    parts = urlsplit(url)
    server_name = cfg["server_name"]
    script = (cfg["script_name"] or "/").rstrip("/")
    path = parts.path
    if script and path.startswith(script):
        path = path[len(script):]
    path = unquote(path)
    ad = adapter
    if parts.netloc:
        host = parts.netloc
        try:
            if cfg["host_matching"]:
                ad = m.bind(host, cfg["script_name"], url_scheme=cfg["url_scheme"] or "http")
            elif host == server_name:
                ad = m.bind(server_name, cfg["script_name"], subdomain="", url_scheme=cfg["url_scheme"] or "http")
            elif host.endswith("." + server_name):
                ad = m.bind(
                    server_name,
                    cfg["script_name"],
                    subdomain=host[: -len(server_name) - 1],
                    url_scheme=cfg["url_scheme"] or "http",
                )
        except Exception as e:  # noqa: B902
            return ("bind-exc", describe_exc(e))
    out = []
    for websocket in (False, True):
        try:
            rv = ad.match(path, method=method, query_args=parts.query, websocket=websocket)
            out.append(("ok", repr(rv)))
        except Exception as e:  # noqa: B902
            out.append(("exc", describe_exc(e)))
    try:
        rule, args = ad.match(path, method=method, return_rule=True)
        out.append(("rule", rule.rule, repr(sorted(args.items(), key=repr))))
        # converse: rebuild from the match result
        try:
            out.append(("rebuild", ad.build(rule.endpoint, args, method=method)))
        except Exception as e:  # noqa: B902
            out.append(("rebuild-exc", describe_exc(e)))
    except Exception as e:  # noqa: B902
        out.append(("rule-exc", describe_exc(e)))
    return tuple(out)


def run_scenarios(scenarios, extra_probe=None):
    results = []
    for cfg in scenarios:
        try:
            m = make_map(cfg)
            adapter = m.bind(
                cfg["server_name"],
                cfg["script_name"],
                subdomain=None if cfg["host_matching"] else cfg["bind_subdomain"],
                url_scheme=cfg["url_scheme"] or "http",
                default_method=cfg["default_method"],
            )
            if cfg["url_scheme"] == "":
                adapter.url_scheme = ""
        except Exception as e:  # noqa: B902
            results.append(("map-exc", describe_exc(e)))
            continue
        if extra_probe is not None:
            results.append(("probe", extra_probe(m, adapter, cfg)))
        for b in cfg["builds"]:
            values = b["values"]
            if b["as_multi"]:
                md = MultiDict()
                for k, v in values.items():
                    if isinstance(v, (list, tuple)):
                        md.setlist(k, list(v))
                    else:
                        md.add(k, v)
                values = md
            try:
                url = adapter.build(
                    b["endpoint"],
                    values,
                    method=b["method"],
                    force_external=b["force_external"],
                    append_unknown=b["append_unknown"],
                    url_scheme=b["url_scheme"],
                )
            except Exception as e:  # noqa: B902
                results.append(("build-exc", describe_exc(e)))
                continue
            results.append(("built", url, match_back(m, cfg, adapter, url, b["match_method"])))
    return results


@contextlib.contextmanager
def patched(pairs):
    """Temporarily install ORIGINAL implementations: pairs of (owner, name, obj)."""
    saved = []
    for owner, name, obj in pairs:
        saved.append((owner, name, owner.__dict__[name]))
        setattr(owner, name, obj)
    try:
        yield
    finally:
        for owner, name, obj in saved:
            setattr(owner, name, obj)


def compare(label, new, old):
    if len(new) != len(old):
        print(f"FAIL {label}: result count {len(new)} != {len(old)}")
        return False
    for i, (a, b) in enumerate(zip(new, old)):
        if a != b:
            print(f"FAIL {label}: first difference at #{i}\n  new={a!r}\n  old={b!r}")
            return False
    return True


def summarize(results):
    from collections import Counter

    c = Counter(r[0] for r in results)
    ok_match = sum(1 for r in results if r[0] == "built" and r[2] and r[2][0][0] == "ok")
    return dict(c), ok_match


# ---- direct stub-level comparison of _partial_build ------------------------
def stub_level(n):
    from werkzeug.routing.map import MapAdapter

    new_fn = MapAdapter.__dict__["_partial_build"]
    rng = random.Random(4242)
    fails = 0

    class StubRule:
        def __init__(self, suitable, rv, websocket, log, name):
            self.suitable, self.rv, self.websocket = suitable, rv, websocket
            self.log, self.name = log, name

        def suitable_for(self, values, method=None):
            self.log.append(("suitable", self.name, method))
            return self.suitable(method)

        def build(self, values, append_unknown=True):
            self.log.append(("build", self.name, append_unknown))
            return self.rv

    class StubMap:
        pass

    class StubAdapter:
        def __init__(self, fn):
            self._fn = fn

        def _partial_build(self, *a):
            return self._fn(self, *a)

    for _ in range(n):
        hosts = ["example.com", "other.org", "", "x.example.com"]
        spec = []
        for i in range(rng.randint(0, 6)):
            mode = rng.choice(["all", "none", "GET", "POST"])
            rv = rng.choice([None, (rng.choice(hosts), f"/p{i}")])
            spec.append((mode, rv, rng.choice([True, False])))
        host_matching = rng.random() < 0.6
        method = rng.choice([None, "GET", "POST", "PUT"])
        default_method = rng.choice(["GET", "POST"])
        append_unknown = rng.random() < 0.5
        outs = []
        for fn in (new_fn, _orig_partial_build):
            log = []
            rules = [
                StubRule(
                    (lambda m, mode=mode: mode == "all" or (mode != "none" and m == mode)),
                    rv,
                    ws,
                    log,
                    i,
                )
                for i, (mode, rv, ws) in enumerate(spec)
            ]
            ad = StubAdapter(fn)
            ad.map = StubMap()
            ad.map._rules_by_endpoint = {"ep": rules}
            ad.map.host_matching = host_matching
            ad.server_name = "example.com"
            ad.default_method = default_method
            res = []
            for ep in ("ep", "nope"):
                try:
                    res.append(("ok", ad._partial_build(ep, {}, method, append_unknown)))
                except Exception as e:  # noqa: B902
                    res.append(("exc", type(e).__name__))
            outs.append((res, log))
        if outs[0] != outs[1]:
            fails += 1
            if fails < 3:
                print("stub mismatch", spec, host_matching, method, outs)
    return fails


def main():
    from werkzeug.routing.map import MapAdapter

    total = 0
    ok = True
    for seed, n_maps, n_builds in [(11, 200, 20), (12, 150, 30), (13, 60, 60)]:
        sc = gen_scenarios(seed, n_maps, n_builds)
        new = run_scenarios(sc)
        with patched([(MapAdapter, "_partial_build", _orig_partial_build)]):
            old = run_scenarios(sc)
        total += len(new)
        print(f"seed {seed}: {len(new)} results {summarize(new)}")
        ok = compare(f"seed {seed}", new, old) and ok
    n_stub = 20000
    fails = stub_level(n_stub)
    print(f"stub-level: {n_stub} cases, {fails} mismatches")
    ok = ok and fails == 0
    print(f"{total} end-to-end results + {n_stub} stub cases compared")
    print("PASS" if ok else "FAIL")
    return 0 if ok else 1


if __name__ == "__main__":
    sys.exit(main())
