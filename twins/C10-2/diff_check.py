"""Differential check for refactoring 2 (C10).

Compares werkzeug.formparser.MultiPartParser.parse (which now delegates the
accumulated field-size guard to the new helper _account_field_data) and
FormDataParser._parse_urlencoded from the worktree against the ORIGINAL
implementations pasted below, on generated multipart and urlencoded bodies with
random limits, buffer sizes, content lengths and short-reading streams. All results
(form items, file contents/headers, remaining stream) and raised exception types
must be identical.

Run: cd /tmp/wt3-C10 && PYTHONPATH=/tmp/wt3-C10/src /venv/bin/python /tmp/twin-C10/2/diff_check.py
"""

from __future__ import annotations

import io
import random
import sys
import typing as t
from urllib.parse import parse_qsl

from werkzeug.datastructures import FileStorage
from werkzeug.datastructures import MultiDict
from werkzeug.exceptions import RequestEntityTooLarge
from werkzeug.formparser import _chunk_iter
from werkzeug.formparser import FormDataParser
from werkzeug.formparser import MultiPartParser
from werkzeug.sansio.multipart import Data
from werkzeug.sansio.multipart import Epilogue
from werkzeug.sansio.multipart import Field
from werkzeug.sansio.multipart import File
from werkzeug.sansio.multipart import MultipartDecoder
from werkzeug.sansio.multipart import NeedData


class OrigMultiPartParser(MultiPartParser):
    # ---- ORIGINAL code, pasted verbatim from the unmodified tree ----
    def parse(
        self, stream: t.IO[bytes], boundary: bytes, content_length: int | None
    ) -> tuple[MultiDict[str, str], MultiDict[str, FileStorage]]:
        current_part: Field | File
        field_size: int | None = None
        container: t.IO[bytes] | list[bytes]
        _write: t.Callable[[bytes], t.Any]

        parser = MultipartDecoder(
            boundary,
            max_form_memory_size=self.max_form_memory_size,
            max_parts=self.max_form_parts,
        )

        fields = []
        files = []

        for data in _chunk_iter(stream.read, self.buffer_size):
            parser.receive_data(data)
            event = parser.next_event()
            while not isinstance(event, (Epilogue, NeedData)):
                if isinstance(event, Field):
                    current_part = event
                    field_size = 0
                    container = []
                    _write = container.append
                elif isinstance(event, File):
                    current_part = event
                    field_size = None
                    container = self.start_file_streaming(event, content_length)
                    _write = container.write
                elif isinstance(event, Data):
                    if self.max_form_memory_size is not None and field_size is not None:
                        # Ensure that accumulated data events do not exceed limit.
                        # Also checked within single event in MultipartDecoder.
                        field_size += len(event.data)

                        if field_size > self.max_form_memory_size:
                            raise RequestEntityTooLarge()

                    _write(event.data)
                    if not event.more_data:
                        if isinstance(current_part, Field):
                            value = b"".join(container).decode(
                                self.get_part_charset(current_part.headers), "replace"
                            )
                            fields.append((current_part.name, value))
                        else:
                            container = t.cast(t.IO[bytes], container)
                            container.seek(0)
                            files.append(
                                (
                                    current_part.name,
                                    FileStorage(
                                        container,
                                        current_part.filename,
                                        current_part.name,
                                        headers=current_part.headers,
                                    ),
                                )
                            )

                event = parser.next_event()

        return self.cls(fields), self.cls(files)

    # ---- end of ORIGINAL code ----


class OrigFormDataParser(FormDataParser):
    # _parse_multipart is unchanged by the refactoring; it is copied here only so
    # that it instantiates OrigMultiPartParser instead of the worktree class.
    def _parse_multipart(self, stream, mimetype, content_length, options):
        parser = OrigMultiPartParser(
            stream_factory=self.stream_factory,
            max_form_memory_size=self.max_form_memory_size,
            max_form_parts=self.max_form_parts,
            cls=self.cls,
        )
        boundary = options.get("boundary", "").encode("ascii")

        if not boundary:
            raise ValueError("Missing boundary")

        form, files = parser.parse(stream, boundary, content_length)
        return stream, form, files

    # ---- ORIGINAL code, pasted verbatim from the unmodified tree ----
    def _parse_urlencoded(
        self,
        stream: t.IO[bytes],
        mimetype: str,
        content_length: int | None,
        options: dict[str, str],
    ):
        if (
            self.max_form_memory_size is not None
            and content_length is not None
            and content_length > self.max_form_memory_size
        ):
            raise RequestEntityTooLarge()

        items = parse_qsl(
            stream.read().decode(),
            keep_blank_values=True,
            errors="werkzeug.url_quote",
        )
        return stream, self.cls(items), self.cls()

    # ---- end of ORIGINAL code ----


NLS = [b"\r\n", b"\r\n", b"\r\n", b"\n", b"\r"]
BOUNDARIES = [b"boundary", b"----WebKitFormBoundaryXyZ", b"b", b"a-b.c+d", b"x" * 40]


def rand_bytes(rng: random.Random, n: int) -> bytes:
    mode = rng.randrange(4)
    if mode == 0:
        return bytes(rng.randrange(256) for _ in range(n))
    if mode == 1:
        return bytes(rng.choice(b"ab \r\n-") for _ in range(n))
    if mode == 2:
        return (b"x" * n)
    return bytes(rng.choice(b"abcdefghij0123456789 ") for _ in range(n))


def gen_body(rng: random.Random) -> tuple[bytes, bytes]:
    boundary = rng.choice(BOUNDARIES)
    nl = rng.choice(NLS)
    out = bytearray()
    if rng.random() < 0.3:
        out += rand_bytes(rng, rng.randrange(0, 30))
        if rng.random() < 0.7:
            out += nl
    nparts = rng.choice([0, 1, 1, 2, 3, 4, 6, 10])
    for i in range(nparts):
        out += b"--" + boundary + (b" " if rng.random() < 0.1 else b"") + nl
        kind = rng.randrange(10)
        name = rng.choice(["a", "b", "field%d" % i, "na me", ""])
        if kind < 5:
            out += b'Content-Disposition: form-data; name="%s"' % name.encode() + nl
        elif kind < 8:
            out += (
                b'Content-Disposition: form-data; name="%s"; filename="%s"'
                % (name.encode(), rng.choice([b"f.txt", b"", b"x y.bin"]))
                + nl
            )
            if rng.random() < 0.6:
                out += b"Content-Type: text/plain; charset=utf-8" + nl
            if rng.random() < 0.2:
                out += b"Content-Length: %d" % rng.randrange(0, 50) + nl
        elif kind == 8:
            out += b"X-Other: 1" + nl  # missing content-disposition
        else:
            out += b"Content-Disposition: form-data" + nl  # no name
        if rng.random() < 0.15:
            out += b"X-Folded: a" + nl + b"\t continued" + nl
        out += nl
        size = rng.choice([0, 1, 5, 20, 60, 200, 700, 3000])
        out += rand_bytes(rng, size)
        out += nl
    out += b"--" + boundary + b"--" + (nl if rng.random() < 0.8 else b"")
    if rng.random() < 0.2:
        out += rand_bytes(rng, rng.randrange(0, 20))
    body = bytes(out)
    # mutations
    m = rng.random()
    if m < 0.12 and body:
        body = body[: rng.randrange(len(body))]
    elif m < 0.18 and body:
        i = rng.randrange(len(body))
        body = body[:i] + rand_bytes(rng, rng.randrange(1, 10)) + body[i:]
    elif m < 0.21:
        body = rand_bytes(rng, rng.randrange(0, 400))
    return boundary, body


def gen_chunks(rng: random.Random, body: bytes) -> list[bytes | None]:
    mode = rng.randrange(4)
    chunks: list[bytes | None] = []
    if mode == 0:
        chunks.append(body)
    else:
        size = rng.choice([1, 2, 3, 7, 16, 64, 100, 500, 4096])
        i = 0
        while i < len(body):
            n = size if mode == 1 else rng.randrange(1, size + 1)
            chunks.append(body[i : i + n])
            i += n
    if rng.random() < 0.05:
        chunks.insert(rng.randrange(len(chunks) + 1), b"")
    if rng.random() < 0.95:
        chunks.append(None)
    return chunks


def gen_limits(rng: random.Random, body: bytes) -> tuple[int | None, int | None]:
    mem = rng.choice(
        [None, None, 0, 1, 5, 20, 64, 100, 200, 500, 1000, len(body), len(body) + 1,
         max(0, len(body) - 1), 10**6]
    )
    parts = rng.choice([None, None, 0, 1, 2, 3, 4, 5, 6, 10, 1000])
    return mem, parts


class ShortReader(io.BytesIO):
    """A stream whose read(n) returns at most `cap` bytes."""

    def __init__(self, data: bytes, cap: int) -> None:
        super().__init__(data)
        self.cap = cap

    def read(self, n: int | None = -1) -> bytes:  # type: ignore[override]
        if n is None or n < 0:
            return super().read()
        return super().read(min(n, self.cap))


def make_stream(body: bytes, cap: int | None) -> io.BytesIO:
    return io.BytesIO(body) if cap is None else ShortReader(body, cap)


def result_repr(form, files) -> t.Any:
    return (
        type(form).__name__,
        list(form.items(multi=True)),
        [
            (k, v.filename, v.name, list(v.headers), type(v.stream).__name__,
             v.stream.read())
            for k, v in files.items(multi=True)
        ],
    )


def run_mpp(cls, body, boundary, mem, parts, bufsize, cap, content_length) -> t.Any:
    p = cls(max_form_memory_size=mem, max_form_parts=parts, buffer_size=bufsize)
    stream = make_stream(body, cap)
    try:
        form, files = p.parse(stream, boundary, content_length)
    except Exception as e:
        return ("exc", type(e), str(e), stream.tell())
    return ("ok", result_repr(form, files), stream.tell())


def run_fdp(cls, body, mimetype, options, mem, parts, content_length, silent, cap):
    p = cls(max_form_memory_size=mem, max_form_parts=parts, silent=silent)
    stream = make_stream(body, cap)
    try:
        s, form, files = p.parse(stream, mimetype, content_length, options)
    except Exception as e:
        return ("exc", type(e), str(e), stream.tell())
    return ("ok", s is stream, result_repr(form, files), stream.tell())


def gen_urlencoded(rng: random.Random) -> bytes:
    n = rng.choice([0, 1, 2, 5, 20, 200])
    pairs = []
    for _ in range(n):
        k = rng.choice(["a", "b", "key", "", "k%20x", "%zz", "\u00e9"])
        v = rng.choice(["", "1", "v" * rng.randrange(0, 300), "%E4%F6", "a+b", "%"])
        pairs.append(k + ("=" + v if rng.random() < 0.9 else ""))
    body = rng.choice(["&", "&", "&", ";"]).join(pairs).encode()
    if rng.random() < 0.05:
        body += bytes(rng.randrange(128, 256) for _ in range(3))  # invalid utf-8
    return body


def main() -> int:
    rng = random.Random(0xC10_2)
    outcomes: dict[str, int] = {}
    n = 0

    def tally(prefix: str, r: t.Any) -> None:
        key = prefix + ":" + (r[0] if r[0] == "ok" else r[1].__name__)
        outcomes[key] = outcomes.get(key, 0) + 1

    for i in range(5000):
        boundary, body = gen_body(rng)
        mem, parts = gen_limits(rng, body)
        bufsize = rng.choice([1, 2, 5, 16, 64, 100, 1024, 64 * 1024])
        cap = rng.choice([None, None, 1, 3, 10, 100])
        cl = rng.choice([None, len(body), 0, len(body) + 10])

        a = run_mpp(OrigMultiPartParser, body, boundary, mem, parts, bufsize, cap, cl)
        b = run_mpp(MultiPartParser, body, boundary, mem, parts, bufsize, cap, cl)
        if a != b:
            print("FAIL MultiPartParser.parse", i, boundary, body, mem, parts, bufsize)
            print(" orig:", a)
            print(" new :", b)
            return 1
        tally("mpp", a)
        n += 1

        # pure guard: success under limits == result without limits (new code)
        if b[0] == "ok" and (mem is not None or parts is not None):
            c = run_mpp(MultiPartParser, body, boundary, None, None, bufsize, cap, cl)
            if c != b:
                print("FAIL pure-guard", i, boundary, body, mem, parts)
                return 1

        silent = rng.random() < 0.5
        options = rng.choice(
            [{"boundary": boundary.decode()}] * 6 + [{}, None, {"boundary": ""}]
        )
        a = run_fdp(OrigFormDataParser, body, "multipart/form-data", options, mem,
                    parts, cl, silent, cap)
        b = run_fdp(FormDataParser, body, "multipart/form-data", options, mem,
                    parts, cl, silent, cap)
        if a != b:
            print("FAIL FormDataParser multipart", i, boundary, body, mem, parts)
            print(" orig:", a)
            print(" new :", b)
            return 1
        tally("fdp-multipart", a)
        n += 1

        ubody = gen_urlencoded(rng)
        umem = rng.choice(
            [None, None, 0, 1, 10, 100, len(ubody), len(ubody) + 1,
             max(0, len(ubody) - 1), 10**6]
        )
        ucl = rng.choice(
            [None, len(ubody), len(ubody), 0, len(ubody) + 1, max(0, len(ubody) - 1),
             10**7, -1]
        )
        mimetype = rng.choice(
            ["application/x-www-form-urlencoded"] * 8
            + ["application/x-url-encoded", "text/plain"]
        )
        a = run_fdp(OrigFormDataParser, ubody, mimetype, None, umem,
                    parts, ucl, silent, cap)
        b = run_fdp(FormDataParser, ubody, mimetype, None, umem, parts, ucl, silent,
                    cap)
        if a != b:
            print("FAIL FormDataParser urlencoded", i, ubody, umem, ucl, mimetype)
            print(" orig:", a)
            print(" new :", b)
            return 1
        tally("fdp-urlencoded", a)
        n += 1

    print("cases:", n, "outcomes:", dict(sorted(outcomes.items())))
    print("PASS")
    return 0


if __name__ == "__main__":
    sys.exit(main())
