"""Differential check: refactored SharedDataMiddleware.__call__ /
get_directory_loader vs. the original implementation (pasted below)."""
import itertools
import mimetypes
import os
import random
import shutil
import tempfile

import werkzeug.middleware.shared_data as sd
from werkzeug.middleware.shared_data import SharedDataMiddleware

# freeze the clock so Date / Expires headers are comparable
_real_http_date = sd.http_date
FROZEN = 1_700_000_000
sd.time = lambda: float(FROZEN)
sd.http_date = lambda ts=None: _real_http_date(FROZEN if ts is None else ts)

safe_join = sd.safe_join
get_path_info = sd.get_path_info
get_content_type = sd.get_content_type
is_resource_modified = sd.is_resource_modified
wrap_file = sd.wrap_file


class OrigSharedDataMiddleware(SharedDataMiddleware):
    """The two touched methods exactly as they were before the refactoring."""

    def get_directory_loader(self, directory):
        def loader(path):
            if path is not None:
                path = safe_join(directory, path)

                if path is None:
                    return None, None
            else:
                path = directory

            if os.path.isfile(path):
                return os.path.basename(path), self._opener(path)

            return None, None

        return loader

    def __call__(self, environ, start_response):
        path = get_path_info(environ)
        file_loader = None

        for search_path, loader in self.exports:
            if search_path == path:
                real_filename, file_loader = loader(None)

                if file_loader is not None:
                    break

            if not search_path.endswith("/"):
                search_path += "/"

            if path.startswith(search_path):
                real_filename, file_loader = loader(path[len(search_path) :])

                if file_loader is not None:
                    break

        if file_loader is None or not self.is_allowed(real_filename):  # type: ignore
            return self.app(environ, start_response)

        guessed_type = mimetypes.guess_type(real_filename)  # type: ignore
        mime_type = get_content_type(guessed_type[0] or self.fallback_mimetype, "utf-8")
        f, mtime, file_size = file_loader()

        headers = [("Date", sd.http_date())]

        if self.cache:
            timeout = self.cache_timeout
            etag = self.generate_etag(mtime, file_size, real_filename)  # type: ignore
            headers += [
                ("Etag", f'"{etag}"'),
                ("Cache-Control", f"max-age={timeout}, public"),
            ]

            if not is_resource_modified(environ, etag, last_modified=mtime):
                f.close()
                start_response("304 Not Modified", headers)
                return []

            headers.append(("Expires", sd.http_date(sd.time() + timeout)))
        else:
            headers.append(("Cache-Control", "public"))

        headers.extend(
            (
                ("Content-Type", mime_type),
                ("Content-Length", str(file_size)),
                ("Last-Modified", sd.http_date(mtime)),
            )
        )
        start_response("200 OK", headers)
        return wrap_file(environ, f)


def fallback_app(environ, start_response):
    start_response("404 NOT FOUND", [("Content-Type", "text/plain")])
    return [b"fallback:" + environ.get("PATH_INFO", "").encode("latin1", "replace")]


def call(app, path, extra=None):
    environ = {
        "REQUEST_METHOD": "GET",
        "PATH_INFO": path,
        "SERVER_NAME": "localhost",
        "SERVER_PORT": "80",
        "wsgi.url_scheme": "http",
    }
    environ.update(extra or {})
    out = {}

    def start_response(status, headers, exc_info=None):
        out["status"] = status
        out["headers"] = list(headers)

    try:
        rv = app(environ, start_response)
        try:
            body = b"".join(rv)
        finally:
            if hasattr(rv, "close"):
                rv.close()
        return ("ok", out.get("status"), out.get("headers"), body)
    except BaseException as e:  # noqa: B036
        return ("exc", type(e).__name__)


def call_loader(loader, path):
    try:
        name, opener = loader(path)
        if opener is None:
            return ("ok", name, None)
        f, mtime, size = opener()
        try:
            data = f.read()
        finally:
            f.close()
        return ("ok", name, (data, mtime, size))
    except BaseException as e:  # noqa: B036
        return ("exc", type(e).__name__)


SEGS = ["", ".", "..", "a.txt", "index.html", "sub", "b.css", ".hidden", "sp ace.txt",
        "secret.txt", "static", "\\", "..\\", "\x00", "a.txt\x00", "%2e%2e", "...", "nope",
        "sub2", "c.js", "shared", "style.css", "\xe9.txt"]
PREFIXES = ["", "/", "/static", "/static/", "/staticx", "/static/sub2", "/assets", "/assets/",
            "/file.txt", "/file.txt/", "/pkg", "/pkg/", "/single", "//", "/static//"]


def gen_tail(rng):
    n = rng.randint(0, 5)
    return "".join(
        rng.choice(SEGS) + rng.choice(["/", "/", "", "//"]) for _ in range(n)
    )


def main():
    rng = random.Random(1403)
    tmp = tempfile.mkdtemp(prefix="c14-3-")
    try:
        root = os.path.join(tmp, "static")
        os.makedirs(os.path.join(root, "sub"))
        files = {
            "secret.txt": b"TOP SECRET",  # outside the root
            "static/index.html": b"<html>",
            "static/a.txt": b"aaa",
            "static/sp ace.txt": b"space",
            "static/\xe9.txt".encode("latin1").decode("latin1"): b"e-acute",
            "static/sub/b.css": b"body{}",
            "static/sub/c.js": b"js",
            "static/sub/.hidden": b"hidden",
        }
        for rel, data in files.items():
            with open(os.path.join(tmp, rel), "wb") as fh:
                fh.write(data)
        for rel in files:  # deterministic mtimes
            os.utime(os.path.join(tmp, rel), (FROZEN - 1000, FROZEN - 1000))

        export_sets = [
            {
                "/static": root,
                "/static/sub2": os.path.join(root, "sub"),
                "/assets/": root,
                "/file.txt": os.path.join(root, "a.txt"),
                "/pkg": ("werkzeug", "debug/shared"),
            },
            [("/", root)],
            [("", root), ("/single", os.path.join(root, "sub"))],
            [("/static", os.path.join(root, "sub")), ("/static", root)],
            [("/static", root + "/"), ("/pkg/", ("werkzeug", "debug"))],
            [],
        ]
        kwargs_sets = [{}, {"cache": False}, {"disallow": "*.css"},
                       {"fallback_mimetype": "text/x-foo", "cache_timeout": 5}]

        paths = set()
        for p in PREFIXES:
            paths.add(p)
            for a in SEGS:
                paths.add(p + "/" + a)
                paths.add(p + a)
            for a, b in itertools.product(SEGS, repeat=2):
                paths.add(p + "/" + a + "/" + b)
        for _ in range(6000):
            paths.add(rng.choice(PREFIXES) + rng.choice(["/", "", "//"]) + gen_tail(rng))
        paths = sorted(paths)

        bad = 0
        total = 0
        for exports, kw in itertools.product(export_sets, kwargs_sets):
            old = OrigSharedDataMiddleware(fallback_app, exports, **kw)
            new = SharedDataMiddleware(fallback_app, exports, **kw)
            sample = paths if not kw else rng.sample(paths, 1500)
            for p in sample:
                r1, r2 = call(old, p), call(new, p)
                total += 1
                if r1 != r2:
                    bad += 1
                    if bad < 10:
                        print("MISMATCH", exports, kw, repr(p), r1, r2)
                # conditional request exercising the 304 branch
                if r1[0] == "ok" and r1[1] == "200 OK" and kw.get("cache", True):
                    etag = dict(r1[2]).get("Etag")
                    extra = {"HTTP_IF_NONE_MATCH": etag}
                    c1, c2 = call(old, p, extra), call(new, p, extra)
                    total += 1
                    if c1 != c2:
                        bad += 1
                        print("MISMATCH 304", repr(p), c1, c2)

        # the directory loader on its own, including None and odd types
        old = OrigSharedDataMiddleware(fallback_app, {})
        new = SharedDataMiddleware(fallback_app, {})
        loader_paths = [None, b"a.txt", 3] + [p.lstrip("/") for p in paths] + paths[:2000]
        for directory in (root, root + "/", os.path.join(root, "a.txt"), "", tmp + "/missing"):
            lo, ln = old.get_directory_loader(directory), new.get_directory_loader(directory)
            for p in loader_paths:
                r1, r2 = call_loader(lo, p), call_loader(ln, p)
                total += 1
                if r1 != r2:
                    bad += 1
                    if bad < 10:
                        print("MISMATCH loader", directory, repr(p), r1, r2)
                if r2[0] == "ok" and r2[2] and r2[2][0] == b"TOP SECRET":
                    bad += 1
                    print("ESCAPE", directory, repr(p))

        print(f"{total} comparisons")
        print("PASS" if not bad else f"FAIL ({bad})")
    finally:
        shutil.rmtree(tmp, ignore_errors=True)


if __name__ == "__main__":
    main()
