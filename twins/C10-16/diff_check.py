"""Differential check for refactoring 1 (MultipartDecoder.receive_data / next_event).

Run: cd /tmp/wt13-C10 && PYTHONPATH=/tmp/wt13-C10/src /venv/bin/python /tmp/twin8-C10/1/diff_check.py
"""

from __future__ import annotations

import random
import typing as t

from werkzeug.exceptions import RequestEntityTooLarge
from werkzeug.http import parse_options_header
from werkzeug.sansio import multipart as mp
from werkzeug.sansio.multipart import BLANK_LINE_RE
from werkzeug.sansio.multipart import Data
from werkzeug.sansio.multipart import Epilogue
from werkzeug.sansio.multipart import Event
from werkzeug.sansio.multipart import Field
from werkzeug.sansio.multipart import File
from werkzeug.sansio.multipart import MultipartDecoder
from werkzeug.sansio.multipart import NEED_DATA
from werkzeug.sansio.multipart import NeedData
from werkzeug.sansio.multipart import Preamble
from werkzeug.sansio.multipart import SEARCH_EXTRA_LENGTH
from werkzeug.sansio.multipart import State


class OrigDecoder(MultipartDecoder):
    # ORIGINAL implementations, pasted from the unmodified tree.

    def receive_data(self, data: bytes | None) -> None:
        if data is None:
            self.complete = True
        elif (
            self.max_form_memory_size is not None
            and len(self.buffer) + len(data) > self.max_form_memory_size
        ):
            # Ensure that data within single event does not exceed limit.
            # Also checked across accumulated events in MultiPartParser.
            raise RequestEntityTooLarge()
        else:
            self.buffer.extend(data)

    def next_event(self) -> Event:
        event: Event = NEED_DATA

        if self.state == State.PREAMBLE:
            match = self.preamble_re.search(self.buffer, self._search_position)
            if match is not None:
                if match.group(1).startswith(b"--"):
                    self.state = State.EPILOGUE
                else:
                    self.state = State.PART
                data = bytes(self.buffer[: match.start()])
                del self.buffer[: match.end()]
                event = Preamble(data=data)
                self._search_position = 0
            else:
                # Update the search start position to be equal to the
                # current buffer length (already searched) minus a
                # safe buffer for part of the search target.
                self._search_position = max(
                    0, len(self.buffer) - len(self.boundary) - SEARCH_EXTRA_LENGTH
                )

        elif self.state == State.PART:
            match = BLANK_LINE_RE.search(self.buffer, self._search_position)
            if match is not None:
                headers = self._parse_headers(self.buffer[: match.start()])
                # The final header ends with a single CRLF, however a
                # blank line indicates the start of the
                # body. Therefore the end is after the first CRLF.
                headers_end = (match.start() + match.end()) // 2
                del self.buffer[:headers_end]

                if "content-disposition" not in headers:
                    raise ValueError("Missing Content-Disposition header")

                disposition, extra = parse_options_header(
                    headers["content-disposition"]
                )
                name = t.cast(str, extra.get("name"))
                filename = extra.get("filename")
                if filename is not None:
                    event = File(
                        filename=filename,
                        headers=headers,
                        name=name,
                    )
                else:
                    event = Field(
                        headers=headers,
                        name=name,
                    )
                self.state = State.DATA_START
                self._search_position = 0
                self._parts_decoded += 1

                if self.max_parts is not None and self._parts_decoded > self.max_parts:
                    raise RequestEntityTooLarge()
            else:
                # Update the search start position to be equal to the
                # current buffer length (already searched) minus a
                # safe buffer for part of the search target.
                self._search_position = max(0, len(self.buffer) - SEARCH_EXTRA_LENGTH)

        elif self.state == State.DATA_START:
            data, del_index, more_data = self._parse_data(self.buffer, start=True)
            del self.buffer[:del_index]
            event = Data(data=data, more_data=more_data)
            if more_data:
                self.state = State.DATA

        elif self.state == State.DATA:
            data, del_index, more_data = self._parse_data(self.buffer, start=False)
            del self.buffer[:del_index]
            if data or not more_data:
                event = Data(data=data, more_data=more_data)

        elif self.state == State.EPILOGUE and self.complete:
            event = Epilogue(data=bytes(self.buffer))
            del self.buffer[:]
            self.state = State.COMPLETE

        if self.complete and isinstance(event, NeedData):
            raise ValueError(f"Invalid form-data cannot parse beyond {self.state}")

        return event


assert OrigDecoder.receive_data is not MultipartDecoder.receive_data
assert OrigDecoder.next_event is not MultipartDecoder.next_event

NLS = [b"\r\n", b"\r\n", b"\r\n", b"\n", b"\r"]
BOUNDARIES = [b"boundary", b"b", b"----WebKitFormBoundaryXyZ123", b"a.b+c(d)", b"--x--"]


def rand_bytes(rng: random.Random, n: int) -> bytes:
    alphabet = b"abcXYZ 0123-\r\n\t=:;\"\xe4\xff"
    return bytes(rng.choice(alphabet) for _ in range(n))


def gen_body(rng: random.Random, boundary: bytes) -> bytes:
    nl = rng.choice(NLS)
    out = bytearray()
    if rng.random() < 0.3:
        out += rand_bytes(rng, rng.randrange(0, 40))
        if rng.random() < 0.7:
            out += nl
    nparts = rng.choice([0, 0, 1, 1, 2, 3, 5, 8, 15])
    for i in range(nparts):
        out += b"--" + boundary
        if rng.random() < 0.15:
            out += b" \t"
        out += nl
        kind = rng.random()
        if kind < 0.08:
            out += b"Content-Type: text/plain" + nl  # missing disposition
        else:
            out += b'Content-Disposition: form-data; name="f%d"' % i
            if kind < 0.4:
                out += b'; filename="n%d.txt"' % i
            out += nl
            if rng.random() < 0.4:
                out += b"Content-Type: text/plain;" + nl + b" charset=utf-8" + nl
        if rng.random() < 0.05:
            pass  # truncated headers: no blank line
        else:
            out += nl
        size = rng.choice([0, 1, 3, 10, 30, 80, 200, 600])
        out += rand_bytes(rng, size)
        out += nl
    r = rng.random()
    if r < 0.8:
        out += b"--" + boundary + b"--"
        if rng.random() < 0.7:
            out += nl
        if rng.random() < 0.2:
            out += rand_bytes(rng, rng.randrange(0, 20))
    elif r < 0.9:
        out += b"--" + boundary[:-1]
    if rng.random() < 0.05 and len(out) > 3:
        cut = rng.randrange(1, len(out))
        out = out[:cut]
    return bytes(out)


def chunks(rng: random.Random, body: bytes) -> list[bytes | None]:
    mode = rng.random()
    out: list[bytes | None] = []
    if mode < 0.2:
        out.append(body)
    else:
        size = rng.choice([1, 2, 3, 7, 16, 33, 64, 200])
        pos = 0
        while pos < len(body):
            n = size if mode < 0.6 else rng.randrange(1, size + 1)
            out.append(body[pos : pos + n])
            pos += n
    if rng.random() < 0.05:
        out.insert(rng.randrange(0, len(out) + 1), b"")
    if rng.random() < 0.95:
        out.append(None)
    if rng.random() < 0.05:
        out.append(rng.choice([None, b"tail"]))
    return out


def snapshot(dec: MultipartDecoder) -> tuple[t.Any, ...]:
    return (
        bytes(dec.buffer),
        dec.complete,
        dec.state,
        dec._search_position,
        dec._parts_decoded,
    )


def ev_repr(ev: Event) -> tuple[t.Any, ...]:
    if isinstance(ev, (Field, File)):
        d = dict(ev.__dict__)
        d["headers"] = list(d["headers"])
        return (type(ev).__name__, sorted(d.items()))
    if isinstance(ev, NeedData):
        return ("NeedData", ev is NEED_DATA)
    return (type(ev).__name__, sorted(ev.__dict__.items()))


def drive(
    cls: type[MultipartDecoder],
    boundary: bytes,
    mem: int | None,
    parts: int | None,
    feed: list[bytes | None],
    continue_after_error: bool,
) -> list[t.Any]:
    dec = cls(boundary, mem, max_parts=parts)
    trace: list[t.Any] = []
    for chunk in feed:
        try:
            r = dec.receive_data(chunk)
            trace.append(("recv", r))
        except Exception as e:
            trace.append(("recv-exc", type(e), str(e)))
            trace.append(snapshot(dec))
            if not continue_after_error:
                return trace
            continue
        trace.append(snapshot(dec))
        for _ in range(10000):
            try:
                ev = dec.next_event()
            except Exception as e:
                trace.append(("next-exc", type(e), str(e)))
                trace.append(snapshot(dec))
                if not continue_after_error:
                    return trace
                break
            trace.append(ev_repr(ev))
            trace.append(snapshot(dec))
            if isinstance(ev, (NeedData, Epilogue)):
                break
        else:
            raise AssertionError("runaway")
    return trace


def main() -> None:
    rng = random.Random(20261003)
    n = 0
    counts = {"recv-exc": 0, "next-exc": 0, "ok": 0}
    for i in range(6000):
        boundary = rng.choice(BOUNDARIES)
        body = gen_body(rng, boundary)
        feed = chunks(rng, body)
        mem = rng.choice([None, None, 0, 1, 5, 20, 64, 100, 300, 1000, len(body), len(body) - 1, 10**6])
        if mem is not None and mem < 0:
            mem = 0
        parts = rng.choice([None, None, 0, 1, 2, 3, 5, 8, 14, 15, 16, 1000])
        cont = rng.random() < 0.3
        a = drive(OrigDecoder, boundary, mem, parts, feed, cont)
        b = drive(MultipartDecoder, boundary, mem, parts, feed, cont)
        if a != b:
            print("FAIL at case", i, boundary, mem, parts, feed)
            for x, y in zip(a, b):
                if x != y:
                    print(" orig:", x)
                    print(" new :", y)
                    break
            raise SystemExit(1)
        kinds = {x[0] for x in a if isinstance(x, tuple) and x and isinstance(x[0], str)}
        if "recv-exc" in kinds:
            counts["recv-exc"] += 1
        elif "next-exc" in kinds:
            counts["next-exc"] += 1
        else:
            counts["ok"] += 1
        n += 1
    print("cases:", n, counts)
    assert counts["recv-exc"] > 200 and counts["next-exc"] > 200 and counts["ok"] > 200
    print("PASS")


if __name__ == "__main__":
    main()
