"""Differential check for refactoring 3 (DebuggedApplication.__call__ dispatch,
extracted into _dispatch_command).

Run: cd /tmp/wt6-C20 && PYTHONPATH=/tmp/wt6-C20/src /venv/bin/python /tmp/twin4-C20/3/diff_check.py
"""

from __future__ import annotations

import random
import re
import time
import typing as t
from urllib.parse import quote

import werkzeug.debug as dbg
from werkzeug.debug import DebuggedApplication
from werkzeug.debug import PIN_TIME
from werkzeug.debug import _ConsoleFrame
from werkzeug.debug import hash_pin
from werkzeug.test import EnvironBuilder
from werkzeug.wrappers import Request


# ---------------------------------------------------------------- ORIGINAL
class OrigApp(DebuggedApplication):
    def __call__(self, environ, start_response):
        """Dispatch the requests."""
        request = Request(environ)
        response = self.debug_application
        if request.args.get("__debugger__") == "yes":
            cmd = request.args.get("cmd")
            arg = request.args.get("f")
            secret = request.args.get("s")
            frame = self.frames.get(request.args.get("frm", type=int))  # type: ignore
            if cmd == "resource" and arg:
                response = self.get_resource(request, arg)  # type: ignore
            elif cmd == "pinauth" and secret == self.secret:
                response = self.pin_auth(request)  # type: ignore
            elif cmd == "printpin" and secret == self.secret:
                response = self.log_pin_request(request)  # type: ignore
            elif (
                self.evalex
                and cmd is not None
                and frame is not None
                and self.secret == secret
                and self.check_pin_trust(environ)
            ):
                response = self.execute_command(request, cmd, frame)  # type: ignore
        elif (
            self.evalex
            and self.console_path is not None
            and request.path == self.console_path
        ):
            response = self.display_console(request)  # type: ignore
        return response(environ, start_response)


assert DebuggedApplication.__call__ is not OrigApp.__call__
assert hasattr(DebuggedApplication, "_dispatch_command"), "refactoring 3 not applied"

# ---------------------------------------------------------------- call tracing
CALLS: list[t.Any] = []
TRACED = ["get_resource", "pin_auth", "log_pin_request", "execute_command",
          "display_console", "check_pin_trust", "check_host_trust", "debug_application"]


def _trace(name: str) -> None:
    orig = getattr(DebuggedApplication, name)

    def wrapper(self, *a, **kw):
        # record name + the identity relation of any environ argument to the
        # request environ (the refactoring passes request.environ)
        extra: t.Any = None
        if name == "execute_command":
            extra = (a[1], type(a[2]).__name__)
        elif name == "get_resource":
            extra = a[1]
        CALLS.append((name, extra))
        rv = orig(self, *a, **kw)
        if name in ("check_pin_trust", "check_host_trust"):
            CALLS.append((name + "->", repr(rv)))
        return rv

    setattr(DebuggedApplication, name, wrapper)


for _n in TRACED:
    _trace(_n)

# ---------------------------------------------------------------- fake clock
T0 = 1_800_000_000.75


class Clock:
    now = T0
    sleeps: list[float] = []


def fake_sleep(d: float) -> None:
    Clock.sleeps.append(d)
    Clock.now += d


time.time = lambda: Clock.now  # type: ignore[assignment]
time.sleep = fake_sleep  # type: ignore[assignment]
assert dbg.time.sleep is fake_sleep

# ---------------------------------------------------------------- generators
rnd = random.Random(2020_3)
SECRET = "s3cr3ts3cr3ts3cr3t00"
COOKIE = "__wzdabcdef0123456789"
PIN = "123-456-789"


def inner_app(environ, start_response):
    start_response("200 OK", [("Content-Type", "text/plain")])
    return [b"inner:" + environ.get("PATH_INFO", "").encode()]


def make(cls, cfg):
    app = cls(
        inner_app,
        evalex=cfg["evalex"],
        pin_security=True,
        pin_logging=False,
        console_path=cfg["console_path"],
    )
    app._pin = cfg["pin"]
    app._pin_cookie = COOKIE
    app.secret = cfg["secret"]
    app._failed_pin_auth.value = cfg["fails"]
    if cfg["frames"]:
        app.frames[0] = _ConsoleFrame({"seed": 41})
        app.frames[7] = _ConsoleFrame({"seed": 7})
    return app


HOSTS = ["localhost", "127.0.0.1", "localhost:5000", "a.localhost", "evil.com",
         "notlocalhost", "127.0.0.10", "localhost.evil.com", "", None, "[::1]",
         "xlocalhost", "a.localhost.evil.com", "127.0.0.1.evil.com"]
DEBUGGER = ["yes", "yes", "yes", "yes", "no", "YES", "", None, "yes "]
CMDS = ["resource", "resource", "resource", "pinauth", "printpin", "1+1", "seed", "x = 5", "x", "", None,
        "PINAUTH", "resource ", "import os", "1/0", "print('hi')"]
FS = ["style.css", "debugger.js", "missing.bin", "", None, "../__init__.py", "console.png"]
FRMS = ["0", "7", "1", "abc", "", None, "-1", "0.0", " 0", "00", "7 "]


def gen_cookie(cfg) -> str | None:
    k = rnd.random()
    pin = cfg["pin"]
    good = hash_pin(pin) if pin is not None else "deadbeefdead"
    now = int(T0)
    if k < 0.45:
        return f"{now - rnd.randint(0, 100)}|{good}"
    if k < 0.55:
        return f"{now - PIN_TIME - rnd.randint(0, 3)}|{good}"
    if k < 0.65:
        return f"{now}|{good}x"
    if k < 0.72:
        return rnd.choice(["nopipe", "", "abc|" + good, "|" + good])
    return None


def gen_request(cfg) -> dict[str, t.Any]:
    k = rnd.random()
    if k < 0.15:
        path = cfg["console_path"] or "/console"
    elif k < 0.20:
        path = "/console"
    elif k < 0.25:
        path = (cfg["console_path"] or "/console") + "/"
    else:
        path = rnd.choice(["/", "/other", "/x/y"])
    dbgflag = rnd.choice(DEBUGGER) if rnd.random() < 0.85 else None
    sk = rnd.random()
    if sk < 0.75:
        secret: str | None = cfg["secret"]
    else:
        secret = rnd.choice(["", "wrong", None, cfg["secret"][:-1], cfg["secret"] + "0", cfg["secret"].upper()])
    return {
        "path": path,
        "debugger": dbgflag,
        "cmd": rnd.choice(CMDS),
        "f": rnd.choice(FS) if rnd.random() < 0.5 else None,
        "s": secret,
        "frm": rnd.choice(FRMS) if rnd.random() < 0.8 else "0",
        "pin": rnd.choice([PIN, "123456789", "000", "", None, cfg["pin"]]),
        "host": rnd.choice(HOSTS) if rnd.random() < 0.35 else rnd.choice(HOSTS[:4]),
        "cookie": gen_cookie(cfg),
        "dup": rnd.random() < 0.05,
    }


def build_environ(r) -> dict[str, t.Any]:
    args: list[str] = []
    for key, field in (("__debugger__", "debugger"), ("cmd", "cmd"), ("f", "f"),
                       ("s", "s"), ("frm", "frm"), ("pin", "pin")):
        if r[field] is not None:
            args.append(f"{key}={quote(r[field])}")
    if r["dup"]:
        # duplicate keys: MultiDict.get must keep returning the first value
        args += ["cmd=pinauth", "s=wrong", "__debugger__=no", "frm=7"]
    env = EnvironBuilder(path=r["path"], query_string="&".join(args)).get_environ()
    env.pop("HTTP_HOST", None)
    if r["host"] is not None:
        env["HTTP_HOST"] = r["host"]
    if r["cookie"] is not None:
        env["HTTP_COOKIE"] = f"{COOKIE}={r['cookie']}"
    return env


def run_one(app, r) -> t.Any:
    env = build_environ(r)
    del CALLS[:]
    n_sleeps = len(Clock.sleeps)
    try:
        sh: list[t.Any] = []

        def start_response(status, headers, exc_info=None):
            sh.append((status, sorted(headers)))

        rv = app(env, start_response)
        body = b"".join(rv)
        # eval tracebacks embed id()s of traceback objects (memory addresses)
        body = re.sub(rb"frame-\d+", b"frame-ID", body)
        body = re.sub(rb"0x[0-9a-fA-F]{6,}", b"0xADDR", body)
        if hasattr(rv, "close"):
            rv.close()
        out: t.Any = ("ok", sh, body)
    except BaseException as e:  # noqa: BLE001
        out = ("exc", type(e), str(e))
    ns = {
        k: sorted((n, repr(v)) for n, v in f.console._ipy.locals.items() if n in ("x", "seed"))
        for k, f in app.frames.items()
        if isinstance(f, _ConsoleFrame)
    }
    return (out, list(CALLS), app._failed_pin_auth.value, tuple(Clock.sleeps[n_sleeps:]), sorted(app.frames), ns)


def main() -> None:
    n = 0
    mismatches = []
    stats = {"eval": 0, "console": 0, "pinauth": 0, "printpin": 0, "resource": 0,
             "inner": 0, "sec400": 0, "pin_refused_eval": 0}
    for scen in range(2500):
        cfg = {
            "evalex": rnd.random() < 0.8,
            "console_path": rnd.choice(["/console", "/console", "/dbg", None]),
            "pin": rnd.choice([PIN, PIN, PIN, None, "000000000"]),
            "secret": rnd.choice([SECRET, SECRET, "", "abc"]),
            "fails": rnd.choice([0, 0, 5, 10, 11, 255]),
            "frames": rnd.random() < 0.8,
        }
        steps = [gen_request(cfg) for _ in range(rnd.randint(3, 9))]
        logs = []
        for cls in (OrigApp, DebuggedApplication):
            Clock.now = T0
            Clock.sleeps = []
            app = make(cls, cfg)
            logs.append([run_one(app, r) for r in steps])
        for r, a, b in zip(steps, logs[0], logs[1]):
            n += 1
            names = [c[0] for c in a[1]]
            if "execute_command" in names:
                stats["eval"] += 1
            if "display_console" in names:
                stats["console"] += 1
            if "pin_auth" in names:
                stats["pinauth"] += 1
            if "log_pin_request" in names:
                stats["printpin"] += 1
            if "get_resource" in names:
                stats["resource"] += 1
            if "debug_application" in names:
                stats["inner"] += 1
            if a[0][0] == "ok" and a[0][1] and a[0][1][0][0].startswith("400"):
                stats["sec400"] += 1
            if ("check_pin_trust->", "False") in a[1] or ("check_pin_trust->", "None") in a[1]:
                if "execute_command" not in names and "pin_auth" not in names and "display_console" not in names:
                    stats["pin_refused_eval"] += 1
            if a != b:
                mismatches.append((cfg, r, a, b))

    print(f"requests={n} stats={stats} mismatches={len(mismatches)}")
    for m in mismatches[:5]:
        print("MISMATCH", m)
    assert all(v > 50 for v in stats.values()), "generator does not cover all dispatch outcomes"
    print("PASS" if not mismatches else "FAIL")


if __name__ == "__main__":
    main()
