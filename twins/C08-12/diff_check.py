"""Differential check for refactoring 3.

CombinedMultiDict.get / getlist / _keys_impl / __contains__ and
ImmutableDictMixin.__hash__ / ImmutableListMixin.__hash__.

Run: cd /tmp/wt10-C08 && PYTHONPATH=/tmp/wt10-C08/src /venv/bin/python /tmp/twin6-C08/3/diff_check.py

The ``Orig*`` subclasses carry verbatim copies of the ORIGINAL implementations
of the touched methods; everything else is inherited from the worktree.  Random
inputs are fed to both and return values / exception types are compared.
"""

from __future__ import annotations

import copy
import pickle
import random

from werkzeug.datastructures import CombinedMultiDict
from werkzeug.datastructures import ImmutableDict
from werkzeug.datastructures import ImmutableList
from werkzeug.datastructures import ImmutableMultiDict
from werkzeug.datastructures import ImmutableTypeConversionDict
from werkzeug.datastructures import MultiDict


# ---- verbatim copies of the unmodified implementations ----
class OrigCombinedMultiDict(CombinedMultiDict):
    def get(self, key, default=None, type=None):
        for d in self.dicts:
            if key in d:
                if type is not None:
                    try:
                        return type(d[key])
                    except (ValueError, TypeError):
                        continue
                return d[key]
        return default

    def getlist(self, key, type=None):
        rv = []
        for d in self.dicts:
            rv.extend(d.getlist(key, type))  # type: ignore[arg-type]
        return rv

    def _keys_impl(self):
        return set(k for d in self.dicts for k in d)

    def __contains__(self, key):
        for d in self.dicts:
            if key in d:
                return True
        return False


def _orig_dict_hash(self):
    if self._hash_cache is not None:
        return self._hash_cache
    rv = self._hash_cache = hash(frozenset(self._iter_hashitems()))
    return rv


def _orig_list_hash(self):
    if self._hash_cache is not None:
        return self._hash_cache
    rv = self._hash_cache = hash(tuple(self))  # type: ignore[arg-type]
    return rv


class OrigImmutableDict(ImmutableDict):
    __hash__ = _orig_dict_hash


class OrigImmutableTypeConversionDict(ImmutableTypeConversionDict):
    __hash__ = _orig_dict_hash


class OrigImmutableMultiDict(ImmutableMultiDict):
    __hash__ = _orig_dict_hash


class OrigImmutableList(ImmutableList):
    __hash__ = _orig_list_hash


# Same-named plain subclasses of the refactored classes so that reprs match.
class NewImmutableDict(ImmutableDict):
    pass


class NewImmutableTypeConversionDict(ImmutableTypeConversionDict):
    pass


class NewImmutableMultiDict(ImmutableMultiDict):
    pass


class NewImmutableList(ImmutableList):
    pass


KEYS = ["a", "b", "c", "A", "", 1, 1.0, True, None, ("t", 1), "missing", "x"]
UNHASHABLE = [[1], {"a": 1}]
VALUES = ["1", "2", "x", "", "3.5", 1, 2.5, None, "nan", " 7 ", b"8", ("t",), [1, 2]]


def raise_key(v):
    raise KeyError(v)


def raise_type(v):
    raise TypeError(v)


def picky(v):
    if v in ("1", 1, "x"):
        raise ValueError(v)
    return ("ok", v)


TYPES = [None, None, int, float, str, raise_key, raise_type, picky, len, bool]


def rkey(r):
    if r.random() < 0.04:
        return r.choice(UNHASHABLE)
    return r.choice(KEYS)


def rmd(r):
    pairs = [(r.choice(KEYS), r.choice(VALUES)) for _ in range(r.randint(0, 6))]
    kind = r.randrange(6)
    if kind == 0:
        return ImmutableMultiDict(pairs)
    if kind == 1:
        # a nested combined dict
        return CombinedMultiDict([MultiDict(pairs[:3]), MultiDict(pairs[3:])])
    md = MultiDict(pairs)
    if kind == 2 and pairs:
        # an empty value list is a legal internal state (setlist(key, []))
        md.setlist(r.choice(pairs)[0], [])
    return md


def run(f):
    try:
        return ("ok", f())
    except BaseException as e:  # noqa: BLE001
        return ("exc", type(e).__name__, repr(e.args))


def norm(x):
    if x[0] == "exc":
        return x
    v = x[1]
    if isinstance(v, (set, frozenset)):
        return ("ok", "set", sorted(map(repr, v)))
    return ("ok", type(v).__name__, repr(v))


def check_combined(r):
    dicts = [rmd(r) for _ in range(r.randint(0, 4))]
    new = CombinedMultiDict(dicts)
    old = OrigCombinedMultiDict(dicts)
    n = 0
    for _ in range(8):
        key = rkey(r)
        typ = r.choice(TYPES)
        default = r.choice([None, "dflt", 0])
        probes = [
            ("get", lambda c: c.get(key, default, typ)),
            ("get_kw", lambda c: c.get(key, type=typ)),
            ("get_plain", lambda c: c.get(key)),
            ("getlist", lambda c: c.getlist(key, typ)),
            ("getlist_plain", lambda c: c.getlist(key)),
            ("contains", lambda c: key in c),
            ("getitem", lambda c: c[key]),
            ("keys_impl", lambda c: c._keys_impl()),
            ("keys", lambda c: c.keys()),
            ("iter", lambda c: set(iter(c))),
            ("len", lambda c: len(c)),
            ("items", lambda c: list(c.items())),
            ("items_multi", lambda c: list(c.items(multi=True))),
            ("lists", lambda c: list(c.lists())),
            ("values", lambda c: list(c.values())),
            ("listvalues", lambda c: list(c.listvalues())),
            ("to_dict", lambda c: (c.to_dict(), c.to_dict(flat=False))),
            ("copy", lambda c: c.copy()),
            ("bool", lambda c: bool(c)),
            ("has_key_like", lambda c: [k in c for k in KEYS]),
        ]
        for name, p in probes:
            a = norm(run(lambda: p(new)))
            b = norm(run(lambda: p(old)))
            n += 1
            if a != b:
                print("FAIL combined", name, key, typ, dicts, a, b)
                return -1
        # the type of the result of a membership test must be a real bool
        a = run(lambda: new.__contains__(key))
        b = run(lambda: old.__contains__(key))
        if a[0] == "ok" and (type(a[1]) is not bool or type(b[1]) is not bool):
            print("FAIL contains type", a, b)
            return -1
        # mutate a wrapped dict: the combined view must follow in both
        if dicts and isinstance(dicts[0], MultiDict) and type(dicts[0]) is MultiDict:
            dicts[0].add(r.choice(KEYS), r.choice(VALUES))
    # pickling / deep copies
    for f in (lambda c: pickle.loads(pickle.dumps(c)).dicts, lambda c: copy.deepcopy(c).dicts, lambda c: copy.copy(c)):
        a = norm(run(lambda: f(new)))
        b = norm(run(lambda: f(old)))
        n += 1
        if a != b:
            print("FAIL combined copy", a, b)
            return -1
    # mutators still rejected, object unchanged
    for m in (
        lambda c: c.add("a", 1),
        lambda c: c.pop("a"),
        lambda c: c.setdefault("a", 1),
        lambda c: c.update({"a": 1}),
        lambda c: c.__setitem__("a", 1),
        lambda c: c.__delitem__("a"),
        lambda c: c.clear(),
        lambda c: c.popitem(),
        lambda c: c.setlist("a", [1]),
        lambda c: c.poplist("a"),
    ):
        a = run(lambda: m(new))
        b = run(lambda: m(old))
        n += 1
        # the message embeds the class name, so compare only the type
        if a[:2] != b[:2] or a[0] != "exc" or a[1] != "TypeError":
            print("FAIL combined mutator", a, b)
            return -1
    # ... and both still show the same contents afterwards
    if norm(run(lambda: list(new.items(multi=True)))) != norm(run(lambda: list(old.items(multi=True)))):
        print("FAIL combined changed by mutator")
        return -1
    return n


def hash_probe(obj):
    """Everything observable about hashing of one object."""
    out = []
    out.append(("cache_before", obj.__dict__.get("_hash_cache", "unset")))
    h1 = run(lambda: hash(obj))
    out.append(("hash", h1))
    out.append(("cache_after", obj.__dict__.get("_hash_cache", "unset")))
    out.append(("hash_again", run(lambda: hash(obj))))
    out.append(("cache_after2", obj.__dict__.get("_hash_cache", "unset")))
    return out


def check_hash(r):
    n = 0
    hashable_vals = ["1", "2", "x", "", 1, 2.5, None, ("t",)]
    vals = hashable_vals if r.random() < 0.8 else VALUES
    pairs = [(r.choice(KEYS), r.choice(vals)) for _ in range(r.randint(0, 6))]
    seq = [r.choice(vals) for _ in range(r.randint(0, 6))]
    cases = [
        (NewImmutableDict, OrigImmutableDict, ImmutableDict, dict(pairs)),
        (NewImmutableTypeConversionDict, OrigImmutableTypeConversionDict, ImmutableTypeConversionDict, dict(pairs)),
        (NewImmutableMultiDict, OrigImmutableMultiDict, ImmutableMultiDict, list(pairs)),
        (NewImmutableList, OrigImmutableList, ImmutableList, list(seq)),
    ]
    for new_cls, old_cls, base_cls, arg in cases:
        new, old, base = new_cls(arg), old_cls(arg), base_cls(arg)
        a, b, c = hash_probe(new), hash_probe(old), hash_probe(base)
        n += 1
        if not (a == b == c):
            print("FAIL hash", base_cls.__name__, arg, a, b, c)
            return -1
        # hash agrees with a fresh equal object, a pickled copy and a deep copy
        for f in (
            lambda o: hash(type(o)(arg)),
            lambda o: hash(pickle.loads(pickle.dumps(o))),
            lambda o: hash(copy.deepcopy(o)),
            lambda o: hash(copy.copy(o)),
            lambda o: pickle.loads(pickle.dumps(o)) == o,
            lambda o: copy.deepcopy(o) == o,
            lambda o: len({o, type(o)(arg)}),
        ):
            x, y, z = run(lambda: f(new)), run(lambda: f(old)), run(lambda: f(base))
            n += 1
            if not (x == y == z):
                print("FAIL hash consistency", base_cls.__name__, arg, x, y, z)
                return -1
        # a pre-seeded cache is returned as is (including 0, which is falsy)
        for seeded in (0, 12345, -7):
            new2, old2 = new_cls(arg), old_cls(arg)
            object.__setattr__(new2, "_hash_cache", seeded)
            object.__setattr__(old2, "_hash_cache", seeded)
            x, y = run(lambda: hash(new2)), run(lambda: hash(old2))
            n += 1
            if x != y or x != ("ok", seeded):
                print("FAIL seeded", x, y)
                return -1
    return n


def main():
    r = random.Random(0xC0803)
    total = 0
    for _ in range(1500):
        n = check_combined(r)
        if n < 0:
            return 1
        total += n
    for _ in range(1500):
        n = check_hash(r)
        if n < 0:
            return 1
        total += n
    print(f"PASS ({total} comparisons)")
    return 0


if __name__ == "__main__":
    raise SystemExit(main())
