"""Differential check for LimitedStream refactorings (readinto / readall / exhaust /
on_exhausted / on_disconnect).

Run: cd /tmp/wt10-C09 && PYTHONPATH=/tmp/wt10-C09/src /venv/bin/python <this file>
"""
from __future__ import annotations

import io
import random
import typing as t

from werkzeug.exceptions import ClientDisconnected
from werkzeug.exceptions import RequestEntityTooLarge
from werkzeug.wsgi import LimitedStream as NewLimitedStream


# ---- ORIGINAL implementation (copied from the unmodified tree) ----
class OrigLimitedStream(io.RawIOBase):
    def __init__(self, stream: t.IO[bytes], limit: int, is_max: bool = False) -> None:
        self._stream = stream
        self._pos = 0
        self.limit = limit
        self._limit_is_max = is_max

    @property
    def is_exhausted(self) -> bool:
        return self._pos >= self.limit

    def on_exhausted(self) -> None:
        if self._limit_is_max:
            raise RequestEntityTooLarge()

    def on_disconnect(self, error: Exception | None = None) -> None:
        if not self._limit_is_max or error is not None:
            raise ClientDisconnected()

    def exhaust(self) -> bytes:
        if not self.is_exhausted:
            return self.readall()

        return b""

    def readinto(self, b: bytearray) -> int | None:  # type: ignore[override]
        size = len(b)
        remaining = self.limit - self._pos

        if remaining <= 0:
            self.on_exhausted()
            return 0

        if hasattr(self._stream, "readinto"):
            if size <= remaining:
                try:
                    out_size: int | None = self._stream.readinto(b)
                except (OSError, ValueError) as e:
                    self.on_disconnect(error=e)
                    return 0
            else:
                temp_b = bytearray(remaining)

                try:
                    out_size = self._stream.readinto(temp_b)
                except (OSError, ValueError) as e:
                    self.on_disconnect(error=e)
                    return 0

                if out_size:
                    b[:out_size] = temp_b[:out_size]
        else:
            try:
                data = self._stream.read(min(size, remaining))
            except (OSError, ValueError) as e:
                self.on_disconnect(error=e)
                return 0

            out_size = len(data)
            b[:out_size] = data

        if not out_size:
            self.on_disconnect()
            return 0

        self._pos += out_size
        return out_size

    def readall(self) -> bytes:
        if self.is_exhausted:
            self.on_exhausted()
            return b""

        out = bytearray()

        while not self.is_exhausted:
            data = self.read(1024 * 64)

            if not data:
                break

            out.extend(data)

        return bytes(out)

    def tell(self) -> int:
        return self._pos

    def readable(self) -> bool:
        return True


# ---- underlying streams ----
class Boom(Exception):
    pass


ERRORS = {
    "os": OSError,
    "conn": ConnectionResetError,
    "value": ValueError,
    "uni": UnicodeError,  # ValueError subclass
    "timeout": TimeoutError,  # OSError subclass
    "boom": Boom,
    "runtime": RuntimeError,
    "kbd": KeyboardInterrupt,
}


class Base:
    """Fragmenting source. Records every call made to it."""

    def __init__(self, data, chunks, fail_at, fail_exc, none_at):
        self.data = data
        self.pos = 0
        self.chunks = chunks
        self.calls = 0
        self.fail_at = fail_at
        self.fail_exc = fail_exc
        self.none_at = none_at
        self.log = []

    def _next(self, want):
        i = self.calls
        self.calls += 1
        if i == self.fail_at:
            self.log.append(("fail", want))
            raise ERRORS[self.fail_exc]()
        if i == self.none_at:
            self.log.append(("none", want))
            return None
        c = self.chunks[i % len(self.chunks)]
        n = max(0, min(want, c, len(self.data) - self.pos))
        out = self.data[self.pos : self.pos + n]
        self.pos += n
        self.log.append((want, n))
        return out


class ReadOnly(Base):
    """Only has read(), as WSGI requires."""

    def read(self, size=-1):
        if size is None or size < 0:
            size = len(self.data)
        out = self._next(size)
        return b"" if out is None else out


class WithReadinto(Base):
    def readinto(self, b):
        out = self._next(len(b))
        if out is None:
            return None
        b[: len(out)] = out
        return len(out)

    def read(self, size=-1):  # pragma: no cover - must never be used
        self.log.append(("read-called", size))
        raise AssertionError


class Greedy(Base):
    """Misbehaving source whose read() may return more than asked."""

    def read(self, size=-1):
        i = self.calls
        self.calls += 1
        n = size + (i % 3)
        out = self.data[self.pos : self.pos + n]
        self.pos += len(out)
        self.log.append((size, len(out)))
        return out


def make_raw(spec):
    kind, data, chunks, fail_at, fail_exc, none_at = spec
    if kind == "bytesio":
        return io.BytesIO(data)
    if kind == "buffered":
        return io.BufferedReader(io.BytesIO(data), 8)
    cls = {"read": ReadOnly, "readinto": WithReadinto, "greedy": Greedy}[kind]
    return cls(data, chunks, fail_at, fail_exc, none_at)


def raw_state(raw):
    if isinstance(raw, Base):
        return (raw.pos, raw.calls, tuple(raw.log))
    return (raw.tell(),)


# ---- subclasses overriding the hooks (the documented extension points) ----
def make_cls(base, variant):
    if variant == "plain":
        return base

    class Sub(base):  # type: ignore[misc, valid-type]
        events: list

        def on_exhausted(self):
            self.events.append("exhausted")
            if variant == "quiet":
                return None
            if variant == "custom":
                raise Boom()
            return super().on_exhausted()

        def on_disconnect(self, error=None):
            self.events.append(("disconnect", type(error)))
            if variant == "quiet":
                return None
            if variant == "custom":
                raise Boom()
            return super().on_disconnect(error=error)

    return Sub


# ---- operations ----
def apply(ls, wrapper, op):
    name, arg = op
    target = wrapper if wrapper is not None else ls
    if name == "read":
        return target.read(arg)
    if name == "readall":
        return ls.readall() if wrapper is None else target.read()
    if name == "readline":
        return target.readline(arg)
    if name == "readlines":
        return target.readlines(arg)
    if name == "readinto":
        buf = bytearray(b"\xff" * arg)
        n = target.readinto(buf)
        return (n, bytes(buf))
    if name == "readinto_mv":
        buf = bytearray(b"\xee" * (arg + 4))
        n = target.readinto(memoryview(buf)[2 : 2 + arg])
        return (n, bytes(buf))
    if name == "iter":
        out = []
        for i, line in enumerate(target):
            out.append(line)
            if i >= arg:
                break
        return out
    if name == "next":
        return next(target, "stop")
    if name == "exhaust":
        return ls.exhaust()
    if name == "is_exhausted":
        return ls.is_exhausted
    if name == "tell":
        return ls.tell()
    if name == "hook_exhausted":
        return ls.on_exhausted()
    if name == "hook_disconnect":
        return ls.on_disconnect(*arg)
    raise AssertionError(name)


def run(base, case):
    raw_spec, limit, is_max, variant, wrap, ops = case
    raw = make_raw(raw_spec)
    cls = make_cls(base, variant)
    ls = cls(raw, limit, is_max) if is_max != "default" else cls(raw, limit)
    ls.events = []
    wrapper = io.BufferedReader(ls, wrap) if wrap else None
    trace = []
    for op in ops:
        try:
            r = ("ok", apply(ls, wrapper, op))
        except BaseException as e:  # noqa: B036
            r = ("exc", type(e).__name__, isinstance(e, (ClientDisconnected, RequestEntityTooLarge)))
        trace.append((op, r, ls._pos, raw_state(raw), tuple(ls.events)))
    return trace


def gen_case(rng):
    body_len = rng.choice([0, 1, 2, 5, 9, 16, 17, 40, 200])
    alphabet = b"ab\n\r\x00c"
    data = bytes(rng.choice(alphabet) for _ in range(body_len))
    kind = rng.choice(["bytesio", "buffered", "read", "read", "readinto", "readinto", "greedy"])
    chunks = [rng.choice([0, 1, 1, 2, 3, 7, 64, 10**6]) for _ in range(rng.randint(1, 4))]
    if rng.random() < 0.7:
        chunks = [c or 1 for c in chunks]  # zero-byte reads only sometimes
    fail_at = rng.choice([None, None, None, 0, 1, 2, 3, 5])
    fail_exc = rng.choice(list(ERRORS))
    none_at = rng.choice([None, None, None, 0, 1, 2, 4]) if kind == "readinto" else None
    raw_spec = (kind, data, chunks, fail_at, fail_exc, none_at)

    limit = rng.choice(
        [0, 1, 2, body_len, body_len, max(0, body_len - 1), body_len + 1, body_len + 10,
         body_len // 2, -1, 10**9]
    )
    if kind == "readinto" and limit > 10**6:
        limit = body_len + 1000
    is_max = rng.choice([False, True, "default", 0, 1, None, "yes"])
    variant = rng.choice(["plain", "plain", "plain", "quiet", "custom", "passthrough"])
    wrap = rng.choice([0, 0, 0, 1, 3, 8, 8192])

    ops = []
    for _ in range(rng.randint(1, 8)):
        name = rng.choice(
            ["read", "read", "read", "readall", "readline", "readlines", "readinto",
             "readinto_mv", "iter", "next", "exhaust", "exhaust", "is_exhausted", "tell",
             "hook_exhausted", "hook_disconnect"]
        )
        if name == "read":
            arg = rng.choice([-1, None, 0, 1, 2, 3, 5, 16, 100, 70000])
        elif name in ("readline", "readlines"):
            arg = rng.choice([-1, -1, 0, 1, 3, 50])
        elif name in ("readinto", "readinto_mv"):
            arg = rng.choice([0, 1, 2, 4, 9, 33, 500])
        elif name == "iter":
            arg = rng.choice([0, 2, 1000])
        elif name == "hook_disconnect":
            arg = rng.choice([(), (None,), (OSError(),), (ValueError(),), (Boom(),)])
        else:
            arg = None
        ops.append((name, arg))
    return (raw_spec, limit, is_max, variant, wrap, ops)


def strip_exc_instances(trace):
    # hook_disconnect args contain exception instances (shared between both runs, so
    # comparable as is); nothing to strip, kept for clarity.
    return trace


def main(n_cases=20000, seed=20909):
    rng = random.Random(seed)
    bad = 0
    stats = {"exc": 0, "ok": 0}
    for i in range(n_cases):
        case = gen_case(rng)
        a = run(OrigLimitedStream, case)
        b = run(NewLimitedStream, case)
        for step in a:
            stats[step[1][0]] += 1
        if a != b:
            bad += 1
            if bad <= 5:
                print("MISMATCH in case", i, case)
                for x, y in zip(a, b):
                    if x != y:
                        print("  orig:", x)
                        print("  new: ", y)
                        break
    print(f"{n_cases} cases ({stats['ok']} ok steps, {stats['exc']} raising steps), {bad} mismatches")
    print("PASS" if bad == 0 else "FAIL")


if __name__ == "__main__":
    main()
