"""Differential check for C18 refactoring 2 (LocalStack.push / pop / top).

Runs the same randomly generated scenarios (several interleaved contexts,
threads and asyncio tasks operating on Local / LocalStack / LocalProxy)
against the refactored ``werkzeug.local`` from the worktree and against a copy
of the ORIGINAL ``werkzeug/local.py`` pasted below, and compares every
returned value and raised exception type/message.

Run: cd /tmp/wt15-C18 && PYTHONPATH=/tmp/wt15-C18/src /venv/bin/python /tmp/twin10-C18/2/diff_check.py
"""
import asyncio
import contextvars
import copy
import random
import re
import sys
import threading
import types

ORIG_SOURCE = r'''
from __future__ import annotations

import copy
import math
import operator
import typing as t
from contextvars import ContextVar
from functools import partial
from functools import update_wrapper
from operator import attrgetter

from .wsgi import ClosingIterator

if t.TYPE_CHECKING:
    from _typeshed.wsgi import StartResponse
    from _typeshed.wsgi import WSGIApplication
    from _typeshed.wsgi import WSGIEnvironment

T = t.TypeVar("T")
F = t.TypeVar("F", bound=t.Callable[..., t.Any])


def release_local(local: Local | LocalStack[t.Any]) -> None:
    """Release the data for the current context in a :class:`Local` or
    :class:`LocalStack` without using a :class:`LocalManager`.

    This should not be needed for modern use cases, and may be removed
    in the future.

    .. versionadded:: 0.6.1
    """
    local.__release_local__()


class Local:
    """Create a namespace of context-local data. This wraps a
    :class:`ContextVar` containing a :class:`dict` value.

    This may incur a performance penalty compared to using individual
    context vars, as it has to copy data to avoid mutating the dict
    between nested contexts.

    :param context_var: The :class:`~contextvars.ContextVar` to use as
        storage for this local. If not given, one will be created.
        Context vars not created at the global scope may interfere with
        garbage collection.

    .. versionchanged:: 2.0
        Uses ``ContextVar`` instead of a custom storage implementation.
    """

    __slots__ = ("__storage",)

    def __init__(self, context_var: ContextVar[dict[str, t.Any]] | None = None) -> None:
        if context_var is None:
            # A ContextVar not created at global scope interferes with
            # Python's garbage collection. However, a local only makes
            # sense defined at the global scope as well, in which case
            # the GC issue doesn't seem relevant.
            context_var = ContextVar(f"werkzeug.Local<{id(self)}>.storage")

        object.__setattr__(self, "_Local__storage", context_var)

    def __iter__(self) -> t.Iterator[tuple[str, t.Any]]:
        return iter(self.__storage.get({}).items())

    def __call__(
        self, name: str, *, unbound_message: str | None = None
    ) -> LocalProxy[t.Any]:
        """Create a :class:`LocalProxy` that access an attribute on this
        local namespace.

        :param name: Proxy this attribute.
        :param unbound_message: The error message that the proxy will
            show if the attribute isn't set.
        """
        return LocalProxy(self, name, unbound_message=unbound_message)

    def __release_local__(self) -> None:
        self.__storage.set({})

    def __getattr__(self, name: str) -> t.Any:
        values = self.__storage.get({})

        if name in values:
            return values[name]

        raise AttributeError(name)

    def __setattr__(self, name: str, value: t.Any) -> None:
        values = self.__storage.get({}).copy()
        values[name] = value
        self.__storage.set(values)

    def __delattr__(self, name: str) -> None:
        values = self.__storage.get({})

        if name in values:
            values = values.copy()
            del values[name]
            self.__storage.set(values)
        else:
            raise AttributeError(name)


class LocalStack(t.Generic[T]):
    """Create a stack of context-local data. This wraps a
    :class:`ContextVar` containing a :class:`list` value.

    This may incur a performance penalty compared to using individual
    context vars, as it has to copy data to avoid mutating the list
    between nested contexts.

    :param context_var: The :class:`~contextvars.ContextVar` to use as
        storage for this local. If not given, one will be created.
        Context vars not created at the global scope may interfere with
        garbage collection.

    .. versionchanged:: 2.0
        Uses ``ContextVar`` instead of a custom storage implementation.

    .. versionadded:: 0.6.1
    """

    __slots__ = ("_storage",)

    def __init__(self, context_var: ContextVar[list[T]] | None = None) -> None:
        if context_var is None:
            # A ContextVar not created at global scope interferes with
            # Python's garbage collection. However, a local only makes
            # sense defined at the global scope as well, in which case
            # the GC issue doesn't seem relevant.
            context_var = ContextVar(f"werkzeug.LocalStack<{id(self)}>.storage")

        self._storage = context_var

    def __release_local__(self) -> None:
        self._storage.set([])

    def push(self, obj: T) -> list[T]:
        """Add a new item to the top of the stack."""
        stack = self._storage.get([]).copy()
        stack.append(obj)
        self._storage.set(stack)
        return stack

    def pop(self) -> T | None:
        """Remove the top item from the stack and return it. If the
        stack is empty, return ``None``.
        """
        stack = self._storage.get([])

        if len(stack) == 0:
            return None

        rv = stack[-1]
        self._storage.set(stack[:-1])
        return rv

    @property
    def top(self) -> T | None:
        """The topmost item on the stack.  If the stack is empty,
        `None` is returned.
        """
        stack = self._storage.get([])

        if len(stack) == 0:
            return None

        return stack[-1]

    def __call__(
        self, name: str | None = None, *, unbound_message: str | None = None
    ) -> LocalProxy[t.Any]:
        """Create a :class:`LocalProxy` that accesses the top of this
        local stack.

        :param name: If given, the proxy access this attribute of the
            top item, rather than the item itself.
        :param unbound_message: The error message that the proxy will
            show if the stack is empty.
        """
        return LocalProxy(self, name, unbound_message=unbound_message)


class LocalManager:
    """Manage releasing the data for the current context in one or more
    :class:`Local` and :class:`LocalStack` objects.

    This should not be needed for modern use cases, and may be removed
    in the future.

    :param locals: A local or list of locals to manage.

    .. versionchanged:: 2.1
        The ``ident_func`` was removed.

    .. versionchanged:: 0.7
        The ``ident_func`` parameter was added.

    .. versionchanged:: 0.6.1
        The :func:`release_local` function can be used instead of a
        manager.
    """

    __slots__ = ("locals",)

    def __init__(
        self,
        locals: None
        | (Local | LocalStack[t.Any] | t.Iterable[Local | LocalStack[t.Any]]) = None,
    ) -> None:
        if locals is None:
            self.locals = []
        elif isinstance(locals, Local):
            self.locals = [locals]
        else:
            self.locals = list(locals)  # type: ignore[arg-type]

    def cleanup(self) -> None:
        """Release the data in the locals for this context. Call this at
        the end of each request or use :meth:`make_middleware`.
        """
        for local in self.locals:
            release_local(local)

    def make_middleware(self, app: WSGIApplication) -> WSGIApplication:
        """Wrap a WSGI application so that local data is released
        automatically after the response has been sent for a request.
        """

        def application(
            environ: WSGIEnvironment, start_response: StartResponse
        ) -> t.Iterable[bytes]:
            return ClosingIterator(app(environ, start_response), self.cleanup)

        return application

    def middleware(self, func: WSGIApplication) -> WSGIApplication:
        """Like :meth:`make_middleware` but used as a decorator on the
        WSGI application function.

        .. code-block:: python

            @manager.middleware
            def application(environ, start_response):
                ...
        """
        return update_wrapper(self.make_middleware(func), func)

    def __repr__(self) -> str:
        return f"<{type(self).__name__} storages: {len(self.locals)}>"


class _ProxyLookup:
    """Descriptor that handles proxied attribute lookup for
    :class:`LocalProxy`.

    :param f: The built-in function this attribute is accessed through.
        Instead of looking up the special method, the function call
        is redone on the object.
    :param fallback: Return this function if the proxy is unbound
        instead of raising a :exc:`RuntimeError`.
    :param is_attr: This proxied name is an attribute, not a function.
        Call the fallback immediately to get the value.
    :param class_value: Value to return when accessed from the
        ``LocalProxy`` class directly. Used for ``__doc__`` so building
        docs still works.
    """

    __slots__ = ("bind_f", "fallback", "is_attr", "class_value", "name")

    def __init__(
        self,
        f: t.Callable[..., t.Any] | None = None,
        fallback: t.Callable[[LocalProxy[t.Any]], t.Any] | None = None,
        class_value: t.Any | None = None,
        is_attr: bool = False,
    ) -> None:
        bind_f: t.Callable[[LocalProxy[t.Any], t.Any], t.Callable[..., t.Any]] | None

        if hasattr(f, "__get__"):
            # A Python function, can be turned into a bound method.

            def bind_f(
                instance: LocalProxy[t.Any], obj: t.Any
            ) -> t.Callable[..., t.Any]:
                return f.__get__(obj, type(obj))  # type: ignore

        elif f is not None:
            # A C function, use partial to bind the first argument.

            def bind_f(
                instance: LocalProxy[t.Any], obj: t.Any
            ) -> t.Callable[..., t.Any]:
                return partial(f, obj)

        else:
            # Use getattr, which will produce a bound method.
            bind_f = None

        self.bind_f = bind_f
        self.fallback = fallback
        self.class_value = class_value
        self.is_attr = is_attr

    def __set_name__(self, owner: LocalProxy[t.Any], name: str) -> None:
        self.name = name

    def __get__(self, instance: LocalProxy[t.Any], owner: type | None = None) -> t.Any:
        if instance is None:
            if self.class_value is not None:
                return self.class_value

            return self

        try:
            obj = instance._get_current_object()
        except RuntimeError:
            if self.fallback is None:
                raise

            fallback = self.fallback.__get__(instance, owner)

            if self.is_attr:
                # __class__ and __doc__ are attributes, not methods.
                # Call the fallback to get the value.
                return fallback()

            return fallback

        if self.bind_f is not None:
            return self.bind_f(instance, obj)

        return getattr(obj, self.name)

    def __repr__(self) -> str:
        return f"proxy {self.name}"

    def __call__(
        self, instance: LocalProxy[t.Any], *args: t.Any, **kwargs: t.Any
    ) -> t.Any:
        """Support calling unbound methods from the class. For example,
        this happens with ``copy.copy``, which does
        ``type(x).__copy__(x)``. ``type(x)`` can't be proxied, so it
        returns the proxy type and descriptor.
        """
        return self.__get__(instance, type(instance))(*args, **kwargs)


class _ProxyIOp(_ProxyLookup):
    """Look up an augmented assignment method on a proxied object. The
    method is wrapped to return the proxy instead of the object.
    """

    __slots__ = ()

    def __init__(
        self,
        f: t.Callable[..., t.Any] | None = None,
        fallback: t.Callable[[LocalProxy[t.Any]], t.Any] | None = None,
    ) -> None:
        super().__init__(f, fallback)

        def bind_f(instance: LocalProxy[t.Any], obj: t.Any) -> t.Callable[..., t.Any]:
            def i_op(self: t.Any, other: t.Any) -> LocalProxy[t.Any]:
                f(self, other)  # type: ignore
                return instance

            return i_op.__get__(obj, type(obj))  # type: ignore

        self.bind_f = bind_f


def _l_to_r_op(op: F) -> F:
    """Swap the argument order to turn an l-op into an r-op."""

    def r_op(obj: t.Any, other: t.Any) -> t.Any:
        return op(other, obj)

    return t.cast(F, r_op)


def _identity(o: T) -> T:
    return o


class LocalProxy(t.Generic[T]):
    """A proxy to the object bound to a context-local object. All
    operations on the proxy are forwarded to the bound object. If no
    object is bound, a ``RuntimeError`` is raised.

    :param local: The context-local object that provides the proxied
        object.
    :param name: Proxy this attribute from the proxied object.
    :param unbound_message: The error message to show if the
        context-local object is unbound.

    Proxy a :class:`~contextvars.ContextVar` to make it easier to
    access. Pass a name to proxy that attribute.

    .. code-block:: python

        _request_var = ContextVar("request")
        request = LocalProxy(_request_var)
        session = LocalProxy(_request_var, "session")

    Proxy an attribute on a :class:`Local` namespace by calling the
    local with the attribute name:

    .. code-block:: python

        data = Local()
        user = data("user")

    Proxy the top item on a :class:`LocalStack` by calling the local.
    Pass a name to proxy that attribute.

    .. code-block::

        app_stack = LocalStack()
        current_app = app_stack()
        g = app_stack("g")

    Pass a function to proxy the return value from that function. This
    was previously used to access attributes of local objects before
    that was supported directly.

    .. code-block:: python

        session = LocalProxy(lambda: request.session)

    ``__repr__`` and ``__class__`` are proxied, so ``repr(x)`` and
    ``isinstance(x, cls)`` will look like the proxied object. Use
    ``issubclass(type(x), LocalProxy)`` to check if an object is a
    proxy.

    .. code-block:: python

        repr(user)  # <User admin>
        isinstance(user, User)  # True
        issubclass(type(user), LocalProxy)  # True

    .. versionchanged:: 2.2.2
        ``__wrapped__`` is set when wrapping an object, not only when
        wrapping a function, to prevent doctest from failing.

    .. versionchanged:: 2.2
        Can proxy a ``ContextVar`` or ``LocalStack`` directly.

    .. versionchanged:: 2.2
        The ``name`` parameter can be used with any proxied object, not
        only ``Local``.

    .. versionchanged:: 2.2
        Added the ``unbound_message`` parameter.

    .. versionchanged:: 2.0
        Updated proxied attributes and methods to reflect the current
        data model.

    .. versionchanged:: 0.6.1
        The class can be instantiated with a callable.
    """

    __slots__ = ("__wrapped", "_get_current_object")

    _get_current_object: t.Callable[[], T]
    """Return the current object this proxy is bound to. If the proxy is
    unbound, this raises a ``RuntimeError``.

    This should be used if you need to pass the object to something that
    doesn't understand the proxy. It can also be useful for performance
    if you are accessing the object multiple times in a function, rather
    than going through the proxy multiple times.
    """

    def __init__(
        self,
        local: ContextVar[T] | Local | LocalStack[T] | t.Callable[[], T],
        name: str | None = None,
        *,
        unbound_message: str | None = None,
    ) -> None:
        if name is None:
            get_name = _identity
        else:
            get_name = attrgetter(name)  # type: ignore[assignment]

        if unbound_message is None:
            unbound_message = "object is not bound"

        if isinstance(local, Local):
            if name is None:
                raise TypeError("'name' is required when proxying a 'Local' object.")

            def _get_current_object() -> T:
                try:
                    return get_name(local)  # type: ignore[return-value]
                except AttributeError:
                    raise RuntimeError(unbound_message) from None

        elif isinstance(local, LocalStack):

            def _get_current_object() -> T:
                obj = local.top

                if obj is None:
                    raise RuntimeError(unbound_message)

                return get_name(obj)

        elif isinstance(local, ContextVar):

            def _get_current_object() -> T:
                try:
                    obj = local.get()
                except LookupError:
                    raise RuntimeError(unbound_message) from None

                return get_name(obj)

        elif callable(local):

            def _get_current_object() -> T:
                return get_name(local())

        else:
            raise TypeError(f"Don't know how to proxy '{type(local)}'.")

        object.__setattr__(self, "_LocalProxy__wrapped", local)
        object.__setattr__(self, "_get_current_object", _get_current_object)

    __doc__ = _ProxyLookup(  # type: ignore[assignment]
        class_value=__doc__, fallback=lambda self: type(self).__doc__, is_attr=True
    )
    __wrapped__ = _ProxyLookup(
        fallback=lambda self: self._LocalProxy__wrapped,  # type: ignore[attr-defined]
        is_attr=True,
    )
    # __del__ should only delete the proxy
    __repr__ = _ProxyLookup(  # type: ignore[assignment]
        repr, fallback=lambda self: f"<{type(self).__name__} unbound>"
    )
    __str__ = _ProxyLookup(str)  # type: ignore[assignment]
    __bytes__ = _ProxyLookup(bytes)
    __format__ = _ProxyLookup()  # type: ignore[assignment]
    __lt__ = _ProxyLookup(operator.lt)
    __le__ = _ProxyLookup(operator.le)
    __eq__ = _ProxyLookup(operator.eq)  # type: ignore[assignment]
    __ne__ = _ProxyLookup(operator.ne)  # type: ignore[assignment]
    __gt__ = _ProxyLookup(operator.gt)
    __ge__ = _ProxyLookup(operator.ge)
    __hash__ = _ProxyLookup(hash)  # type: ignore[assignment]
    __bool__ = _ProxyLookup(bool, fallback=lambda self: False)
    __getattr__ = _ProxyLookup(getattr)
    # __getattribute__ triggered through __getattr__
    __setattr__ = _ProxyLookup(setattr)  # type: ignore[assignment]
    __delattr__ = _ProxyLookup(delattr)  # type: ignore[assignment]
    __dir__ = _ProxyLookup(dir, fallback=lambda self: [])  # type: ignore[assignment]
    # __get__ (proxying descriptor not supported)
    # __set__ (descriptor)
    # __delete__ (descriptor)
    # __set_name__ (descriptor)
    # __objclass__ (descriptor)
    # __slots__ used by proxy itself
    # __dict__ (__getattr__)
    # __weakref__ (__getattr__)
    # __init_subclass__ (proxying metaclass not supported)
    # __prepare__ (metaclass)
    __class__ = _ProxyLookup(fallback=lambda self: type(self), is_attr=True)  # type: ignore[assignment]
    __instancecheck__ = _ProxyLookup(lambda self, other: isinstance(other, self))
    __subclasscheck__ = _ProxyLookup(lambda self, other: issubclass(other, self))
    # __class_getitem__ triggered through __getitem__
    __call__ = _ProxyLookup(lambda self, *args, **kwargs: self(*args, **kwargs))
    __len__ = _ProxyLookup(len)
    __length_hint__ = _ProxyLookup(operator.length_hint)
    __getitem__ = _ProxyLookup(operator.getitem)
    __setitem__ = _ProxyLookup(operator.setitem)
    __delitem__ = _ProxyLookup(operator.delitem)
    # __missing__ triggered through __getitem__
    __iter__ = _ProxyLookup(iter)
    __next__ = _ProxyLookup(next)
    __reversed__ = _ProxyLookup(reversed)
    __contains__ = _ProxyLookup(operator.contains)
    __add__ = _ProxyLookup(operator.add)
    __sub__ = _ProxyLookup(operator.sub)
    __mul__ = _ProxyLookup(operator.mul)
    __matmul__ = _ProxyLookup(operator.matmul)
    __truediv__ = _ProxyLookup(operator.truediv)
    __floordiv__ = _ProxyLookup(operator.floordiv)
    __mod__ = _ProxyLookup(operator.mod)
    __divmod__ = _ProxyLookup(divmod)
    __pow__ = _ProxyLookup(pow)
    __lshift__ = _ProxyLookup(operator.lshift)
    __rshift__ = _ProxyLookup(operator.rshift)
    __and__ = _ProxyLookup(operator.and_)
    __xor__ = _ProxyLookup(operator.xor)
    __or__ = _ProxyLookup(operator.or_)
    __radd__ = _ProxyLookup(_l_to_r_op(operator.add))
    __rsub__ = _ProxyLookup(_l_to_r_op(operator.sub))
    __rmul__ = _ProxyLookup(_l_to_r_op(operator.mul))
    __rmatmul__ = _ProxyLookup(_l_to_r_op(operator.matmul))
    __rtruediv__ = _ProxyLookup(_l_to_r_op(operator.truediv))
    __rfloordiv__ = _ProxyLookup(_l_to_r_op(operator.floordiv))
    __rmod__ = _ProxyLookup(_l_to_r_op(operator.mod))
    __rdivmod__ = _ProxyLookup(_l_to_r_op(divmod))
    __rpow__ = _ProxyLookup(_l_to_r_op(pow))
    __rlshift__ = _ProxyLookup(_l_to_r_op(operator.lshift))
    __rrshift__ = _ProxyLookup(_l_to_r_op(operator.rshift))
    __rand__ = _ProxyLookup(_l_to_r_op(operator.and_))
    __rxor__ = _ProxyLookup(_l_to_r_op(operator.xor))
    __ror__ = _ProxyLookup(_l_to_r_op(operator.or_))
    __iadd__ = _ProxyIOp(operator.iadd)
    __isub__ = _ProxyIOp(operator.isub)
    __imul__ = _ProxyIOp(operator.imul)
    __imatmul__ = _ProxyIOp(operator.imatmul)
    __itruediv__ = _ProxyIOp(operator.itruediv)
    __ifloordiv__ = _ProxyIOp(operator.ifloordiv)
    __imod__ = _ProxyIOp(operator.imod)
    __ipow__ = _ProxyIOp(operator.ipow)
    __ilshift__ = _ProxyIOp(operator.ilshift)
    __irshift__ = _ProxyIOp(operator.irshift)
    __iand__ = _ProxyIOp(operator.iand)
    __ixor__ = _ProxyIOp(operator.ixor)
    __ior__ = _ProxyIOp(operator.ior)
    __neg__ = _ProxyLookup(operator.neg)
    __pos__ = _ProxyLookup(operator.pos)
    __abs__ = _ProxyLookup(abs)
    __invert__ = _ProxyLookup(operator.invert)
    __complex__ = _ProxyLookup(complex)
    __int__ = _ProxyLookup(int)
    __float__ = _ProxyLookup(float)
    __index__ = _ProxyLookup(operator.index)
    __round__ = _ProxyLookup(round)
    __trunc__ = _ProxyLookup(math.trunc)
    __floor__ = _ProxyLookup(math.floor)
    __ceil__ = _ProxyLookup(math.ceil)
    __enter__ = _ProxyLookup()
    __exit__ = _ProxyLookup()
    __await__ = _ProxyLookup()
    __aiter__ = _ProxyLookup()
    __anext__ = _ProxyLookup()
    __aenter__ = _ProxyLookup()
    __aexit__ = _ProxyLookup()
    __copy__ = _ProxyLookup(copy.copy)
    __deepcopy__ = _ProxyLookup(copy.deepcopy)
    # __getnewargs_ex__ (pickle through proxy not supported)
    # __getnewargs__ (pickle)
    # __getstate__ (pickle)
    # __setstate__ (pickle)
    # __reduce__ (pickle)
    # __reduce_ex__ (pickle)
'''


FAMILIES = [("stack", 700), ("local", 100), ("proxy", 250)]
N_THREADED = 15
N_TASKS = 15


def load_orig():
    import werkzeug  # noqa: F401  (package needed for the relative import)

    mod = types.ModuleType("werkzeug._orig_local")
    mod.__package__ = "werkzeug"
    sys.modules[mod.__name__] = mod
    exec(compile(ORIG_SOURCE, "<orig local.py>", "exec"), mod.__dict__)
    return mod


class Thing:
    """Object with attributes / operators to bind behind proxies."""

    def __init__(self, n):
        self.n = n
        self.items = [n, n + 1]
        self.session = {"k": n}

    def __repr__(self):
        return f"<Thing {self.n}>"

    def __call__(self, *a, **kw):
        return ("called", self.n, a, sorted(kw))

    def __len__(self):
        return self.n % 5

    def __iadd__(self, other):
        self.n += other
        return self

    def __eq__(self, other):
        return isinstance(other, Thing) and other.n == self.n

    def __hash__(self):
        return hash(self.n)


def scrub(text):
    """Remove memory addresses and the module name of the pasted copy."""
    text = re.sub(r"0x[0-9a-f]+", "0x?", text)
    return text.replace("werkzeug._orig_local", "werkzeug.local")


def norm(v, M):
    """Value -> comparable description that does not depend on ids."""
    if isinstance(v, (M.Local, M.LocalStack)):
        return ("<local>", type(v).__name__)
    if isinstance(v, contextvars.ContextVar):
        return ("<cvar>", v.name.split("<")[0])
    if type(v) is M.LocalProxy:
        return ("<proxy>",)
    if isinstance(v, (M._ProxyLookup,)):
        return ("<lookup>", type(v).__name__, repr(v))
    if isinstance(v, types.FunctionType) or isinstance(v, types.MethodType):
        return ("<func>", getattr(v, "__name__", "?"))
    if isinstance(v, (list, tuple)):
        return (type(v).__name__, [norm(x, M) for x in v])
    if isinstance(v, dict):
        return ("dict", [(norm(k, M), norm(x, M)) for k, x in v.items()])
    if isinstance(v, type):
        return ("<type>", v.__name__)
    return (type(v).__name__, scrub(repr(v)))


def attempt(trace, M, fn):
    try:
        trace.append(("ok", norm(fn(), M)))
    except BaseException as e:  # noqa: B036
        trace.append(("exc", type(e).__name__, scrub(str(e)), type(e.__cause__).__name__,
                      e.__suppress_context__))


NAMES = ["a", "b", "c", "user", "n", "items", "_storage", "top", "__storage"]


def rand_value(rng):
    k = rng.randrange(8)
    if k == 0:
        return None
    if k == 1:
        return rng.randrange(-3, 50)
    if k == 2:
        return rng.choice(["", "x", "hello"])
    if k == 3:
        return [rng.randrange(5) for _ in range(rng.randrange(3))]
    if k == 4:
        return {"k": rng.randrange(5)}
    if k == 5:
        return 0
    return Thing(rng.randrange(20))


# ---------------------------------------------------------------- ops
def local_op(rng, M, env, trace):
    loc = env["local"]
    name = rng.choice(NAMES)
    k = rng.randrange(12)
    if k <= 3:
        v = rand_value(rng)
        attempt(trace, M, lambda: setattr(loc, name, v))
    elif k <= 5:
        attempt(trace, M, lambda: getattr(loc, name))
    elif k <= 7:
        attempt(trace, M, lambda: delattr(loc, name))
    elif k == 8:
        attempt(trace, M, lambda: sorted((n, norm(v, M)) for n, v in loc))
    elif k == 9:
        attempt(trace, M, lambda: M.release_local(loc))
    elif k == 10:
        # odd names passed straight to the dunder methods
        bad = rng.choice([[], 3, None, ("t",), {}])
        which = rng.randrange(3)
        if which == 0:
            attempt(trace, M, lambda: M.Local.__setattr__(loc, bad, 1))
        elif which == 1:
            attempt(trace, M, lambda: M.Local.__getattr__(loc, bad))
        else:
            attempt(trace, M, lambda: M.Local.__delattr__(loc, bad))
    else:
        attempt(trace, M, lambda: env["manager"].cleanup())
    # identity of the stored dict must behave the same (copy-on-write)
    cv = env["local_var"]
    before = cv.get(None)
    trace.append(("dict", norm(before, M)))


def stack_op(rng, M, env, trace):
    st = env["stack"]
    k = rng.randrange(10)
    if k <= 3:
        v = rand_value(rng)

        def push():
            prev = st._storage.get(None)
            rv = st.push(v)
            cur = st._storage.get()
            return (rv, rv is cur, rv is prev, prev)

        attempt(trace, M, push)
    elif k <= 6:

        def pop():
            prev = st._storage.get(None)
            prev_copy = None if prev is None else list(prev)
            rv = st.pop()
            cur = st._storage.get(None)
            return (rv, cur, cur is prev, prev == prev_copy)

        attempt(trace, M, pop)
    elif k == 7:
        attempt(trace, M, lambda: st.top)
    elif k == 8:
        attempt(trace, M, lambda: M.release_local(st))
    else:
        attempt(trace, M, lambda: env["manager"].cleanup())
    trace.append(("list", norm(st._storage.get(None), M)))


PROXY_OPS = [
    lambda p: repr(p),
    lambda p: bool(p),
    lambda p: str(p),
    lambda p: len(p),
    lambda p: p[0],
    lambda p: p["k"],
    lambda p: p + 1,
    lambda p: 1 + p,
    lambda p: p == 0,
    lambda p: p != Thing(3),
    lambda p: hash(p) == hash(p._get_current_object()),
    lambda p: dir(p) == [],
    lambda p: p.__class__,
    lambda p: isinstance(p, Thing),
    lambda p: p.__doc__ is None or p.__doc__[:20],
    lambda p: p.__wrapped__,
    lambda p: p._get_current_object(),
    lambda p: p.n,
    lambda p: p.items,
    lambda p: p.missing_attr,
    lambda p: setattr(p, "n", 7),
    lambda p: delattr(p, "zzz"),
    lambda p: copy.copy(p),
    lambda p: copy.deepcopy(p),
    lambda p: p(1, x=2),
    lambda p: list(iter(p)),
    lambda p: 0 in p,
    lambda p: int(p),
    lambda p: abs(p),
    lambda p: format(p, ""),
    lambda p: p.__enter__,
    lambda p: type(p).__repr__(p),
    lambda p: type(p).__bool__(p),
    lambda p: type(p).__len__(p),
]


def iadd(p):
    q = p
    q += 2
    return (q is p, type(q).__name__)


PROXY_OPS.append(iadd)


def proxy_op(rng, M, env, trace):
    k = rng.randrange(10)
    if k == 0:
        # (re)bind something so that proxies are sometimes bound
        v = rand_value(rng)
        which = rng.randrange(4)
        if which == 0:
            attempt(trace, M, lambda: setattr(env["local"], rng.choice(["user", "a"]), v))
        elif which == 1:
            attempt(trace, M, lambda: len(env["stack"].push(v)))
        elif which == 2:
            attempt(trace, M, lambda: env["cvar"].set(v) and None)
        else:
            env["box"][0] = v
            trace.append(("box",))
        return
    if k == 1:
        which = rng.randrange(4)
        if which == 0:
            attempt(trace, M, lambda: delattr(env["local"], rng.choice(["user", "a"])))
        elif which == 1:
            attempt(trace, M, lambda: env["stack"].pop())
        elif which == 2:
            attempt(trace, M, lambda: env["manager"].cleanup())
        else:
            attempt(trace, M, lambda: getattr(M.LocalProxy, rng.choice(
                ["__doc__", "__repr__", "__class__", "__wrapped__", "__iadd__", "__bool__"])))
        return
    p = rng.choice(env["proxies"])
    op = rng.choice(PROXY_OPS)
    attempt(trace, M, lambda: op(p))


def make_env(M, rng):
    local_var = contextvars.ContextVar("lv")
    loc = M.Local(local_var)
    stack = M.LocalStack()
    cvar = contextvars.ContextVar("cv")
    box = [None]

    def factory():
        if box[0] is None:
            raise RuntimeError("factory unbound")
        if box[0] == 0:
            raise LookupError("factory lookup")
        if box[0] == "":
            raise AttributeError("factory attr")
        return box[0]

    env = {
        "local": loc,
        "local_var": local_var,
        "stack": stack,
        "cvar": cvar,
        "box": box,
        "manager": M.LocalManager([loc, stack]),
    }
    msg = rng.choice([None, "custom unbound", ""])
    env["proxies"] = [
        loc("user"),
        loc("a", unbound_message=msg),
        M.LocalProxy(loc, "user.n"),
        stack(),
        stack("n", unbound_message=msg),
        M.LocalProxy(stack, "session"),
        M.LocalProxy(cvar),
        M.LocalProxy(cvar, "n", unbound_message=msg),
        M.LocalProxy(cvar, "items", unbound_message=msg),
        M.LocalProxy(factory),
        M.LocalProxy(factory, "n", unbound_message=msg),
    ]
    return env


def ctor_checks(M, trace):
    loc = M.Local()
    st = M.LocalStack()
    cv = contextvars.ContextVar("c")
    for args, kw in [
        ((loc,), {}),
        ((loc, None), {}),
        ((loc, 3), {}),
        ((st, 3), {}),
        ((cv, b"x"), {}),
        ((42,), {}),
        ((42, "x"), {}),
        ((None,), {}),
        (("str",), {"unbound_message": "m"}),
        ((len, 3), {}),
        ((loc, "a.b"), {"unbound_message": 5}),
        ((M.LocalManager(),), {}),
        ((M.LocalManager(loc),), {}),
    ]:
        attempt(trace, M, lambda: M.LocalProxy(*args, **kw))
    p = M.LocalProxy(loc, "a.b", unbound_message=5)
    attempt(trace, M, lambda: p._get_current_object())
    attempt(trace, M, lambda: repr(p))
    d = M._ProxyLookup(class_value=0)
    d.name = "x"
    attempt(trace, M, lambda: d.__get__(None, M.LocalProxy))
    d2 = M._ProxyLookup(class_value="cv")
    attempt(trace, M, lambda: d2.__get__(None))
    attempt(trace, M, lambda: repr(M.LocalManager([loc, st])))


def scenario(M, seed, family):
    """Deterministic interleaving of ops over several contexts."""
    rng = random.Random(seed)
    env = make_env(M, rng)
    op = {"local": local_op, "stack": stack_op, "proxy": proxy_op}[family]
    trace = []
    ctxs = [contextvars.copy_context()]
    for _ in range(rng.randrange(10, 40)):
        r = rng.random()
        if r < 0.12 and len(ctxs) < 6:
            # child context: snapshot of a random existing one
            parent = rng.choice(ctxs)
            ctxs.append(parent.run(contextvars.copy_context))
            trace.append(("fork", len(ctxs)))
            continue
        i = rng.randrange(len(ctxs))
        trace.append(("ctx", i))
        ctxs[i].run(op, rng, M, env, trace)
    # final state seen from each context
    for c in ctxs:
        trace.append(("final", norm(c.get(env["local_var"], None), M),
                      norm(c.get(env["stack"]._storage, None), M),
                      norm(c.get(env["cvar"], None), M)))
    return trace


def threaded(M, seed):
    """Real threads, strictly alternated with a turn variable."""
    rng = random.Random(seed)
    env = make_env(M, rng)
    n = 3
    traces = [[] for _ in range(n)]
    seeds = [rng.randrange(10**6) for _ in range(n)]
    cond = threading.Condition()
    turn = [0]
    steps = 12

    def worker(i):
        r = random.Random(seeds[i])
        for _ in range(steps):
            with cond:
                cond.wait_for(lambda: turn[0] % n == i)
                fam = r.choice([local_op, stack_op, proxy_op])
                fam(r, M, env, traces[i])
                turn[0] += 1
                cond.notify_all()

    env["local"].a = "main"
    env["stack"].push("main")
    ts = [threading.Thread(target=worker, args=(i,)) for i in range(n)]
    for th in ts:
        th.start()
    for th in ts:
        th.join()
    main = []
    attempt(main, M, lambda: env["local"].a)
    attempt(main, M, lambda: env["stack"].top)
    attempt(main, M, lambda: sorted(n for n, _ in env["local"]))
    return traces + [main]


def tasks(M, seed):
    rng = random.Random(seed)
    env = make_env(M, rng)
    traces = [[] for _ in range(3)]
    seeds = [rng.randrange(10**6) for _ in range(3)]

    async def worker(i):
        r = random.Random(seeds[i])
        for _ in range(10):
            r.choice([local_op, stack_op, proxy_op])(r, M, env, traces[i])
            await asyncio.sleep(0)

    async def main():
        env["local"].a = "parent"
        env["stack"].push(Thing(1))
        env["cvar"].set(Thing(2))
        await asyncio.gather(*(worker(i) for i in range(3)))
        out = []
        attempt(out, M, lambda: sorted((n, norm(v, M)) for n, v in env["local"]))
        attempt(out, M, lambda: env["stack"]._storage.get())
        return out

    return traces + [asyncio.run(main())]


def main():
    import werkzeug.local as new

    orig = load_orig()
    assert orig.Local is not new.Local
    n = 0
    mism = 0

    def cmp(label, a, b):
        nonlocal n, mism
        n += len(a)
        if a != b:
            mism += 1
            if mism <= 5:
                for x, y in zip(a, b):
                    if x != y:
                        print("MISMATCH", label, "\n  orig:", x, "\n  new: ", y)
                        break
                else:
                    print("MISMATCH (length)", label, len(a), len(b))

    t0, t1 = [], []
    ctor_checks(orig, t0)
    ctor_checks(new, t1)
    cmp("ctor", t0, t1)
    for family, count in FAMILIES:
        for seed in range(count):
            cmp((family, seed), scenario(orig, seed, family), scenario(new, seed, family))
    for seed in range(N_THREADED):
        cmp(("threads", seed), threaded(orig, seed), threaded(new, seed))
    for seed in range(N_TASKS):
        cmp(("tasks", seed), tasks(orig, seed), tasks(new, seed))
    print("compared trace entries:", n)
    print("PASS" if mism == 0 and n > 3000 else f"FAIL ({mism} mismatching scenarios)")
    return 0 if mism == 0 else 1


if __name__ == "__main__":
    sys.exit(main())

