"""Differential check for property C09 (request body stream limits).

Compares the worktree's ``werkzeug.wsgi.LimitedStream``,
``werkzeug.wsgi.get_input_stream`` and ``werkzeug.sansio.utils.get_content_length``
against verbatim copies of the ORIGINAL implementations pasted below, over a few
thousand generated scenarios (body/limit/fragmentation/error patterns x read call
sequences, with and without a buffering wrapper, with default and overridden hooks).

Run:  cd /tmp/wt3-C09 && PYTHONPATH=/tmp/wt3-C09/src /venv/bin/python diff_check.py
Prints PASS only if every output, raised exception type, final position, number of
bytes consumed from the underlying stream and hook-call trace is identical.
"""

from __future__ import annotations

import io
import random
import sys
import typing as t

from werkzeug import wsgi as new_wsgi
from werkzeug._internal import _plain_int
from werkzeug.exceptions import ClientDisconnected
from werkzeug.exceptions import RequestEntityTooLarge
from werkzeug.sansio import utils as new_sansio

# --------------------------------------------------------------------------------------
# ORIGINAL implementations (verbatim from the unmodified tree, docstrings dropped)
# --------------------------------------------------------------------------------------


def orig_sansio_get_content_length(
    http_content_length: str | None = None,
    http_transfer_encoding: str | None = None,
) -> int | None:
    if http_transfer_encoding == "chunked" or http_content_length is None:
        return None

    try:
        return max(0, _plain_int(http_content_length))
    except ValueError:
        return 0


def orig_get_content_length(environ) -> int | None:
    return orig_sansio_get_content_length(
        http_content_length=environ.get("CONTENT_LENGTH"),
        http_transfer_encoding=environ.get("HTTP_TRANSFER_ENCODING"),
    )


class OrigLimitedStream(io.RawIOBase):
    def __init__(self, stream: t.IO[bytes], limit: int, is_max: bool = False) -> None:
        self._stream = stream
        self._pos = 0
        self.limit = limit
        self._limit_is_max = is_max

    @property
    def is_exhausted(self) -> bool:
        return self._pos >= self.limit

    def on_exhausted(self) -> None:
        if self._limit_is_max:
            raise RequestEntityTooLarge()

    def on_disconnect(self, error: Exception | None = None) -> None:
        if not self._limit_is_max or error is not None:
            raise ClientDisconnected()

    def exhaust(self) -> bytes:
        if not self.is_exhausted:
            return self.readall()

        return b""

    def readinto(self, b: bytearray) -> int | None:  # type: ignore[override]
        size = len(b)
        remaining = self.limit - self._pos

        if remaining <= 0:
            self.on_exhausted()
            return 0

        if hasattr(self._stream, "readinto"):
            # Use stream.readinto if it's available.
            if size <= remaining:
                # The size fits in the remaining limit, use the buffer directly.
                try:
                    out_size: int | None = self._stream.readinto(b)
                except (OSError, ValueError) as e:
                    self.on_disconnect(error=e)
                    return 0
            else:
                # Use a temp buffer with the remaining limit as the size.
                temp_b = bytearray(remaining)

                try:
                    out_size = self._stream.readinto(temp_b)
                except (OSError, ValueError) as e:
                    self.on_disconnect(error=e)
                    return 0

                if out_size:
                    b[:out_size] = temp_b[:out_size]
        else:
            # WSGI requires that stream.read is available.
            try:
                data = self._stream.read(min(size, remaining))
            except (OSError, ValueError) as e:
                self.on_disconnect(error=e)
                return 0

            out_size = len(data)
            b[:out_size] = data

        if not out_size:
            # Read zero bytes from the stream.
            self.on_disconnect()
            return 0

        self._pos += out_size
        return out_size

    def readall(self) -> bytes:
        if self.is_exhausted:
            self.on_exhausted()
            return b""

        out = bytearray()

        # The parent implementation uses "while True", which results in an extra read.
        while not self.is_exhausted:
            data = self.read(1024 * 64)

            # Stream may return empty before a max limit is reached.
            if not data:
                break

            out.extend(data)

        return bytes(out)

    def tell(self) -> int:
        return self._pos

    def readable(self) -> bool:
        return True


def orig_get_input_stream(
    environ,
    safe_fallback: bool = True,
    max_content_length: int | None = None,
) -> t.IO[bytes]:
    stream = t.cast(t.IO[bytes], environ["wsgi.input"])
    content_length = orig_get_content_length(environ)

    if content_length is not None and max_content_length is not None:
        if content_length > max_content_length:
            raise RequestEntityTooLarge()

    if "wsgi.input_terminated" in environ:
        if max_content_length is not None:
            return t.cast(
                t.IO[bytes], OrigLimitedStream(stream, max_content_length, is_max=True)
            )

        return stream

    if content_length is None:
        return io.BytesIO() if safe_fallback else stream

    return t.cast(t.IO[bytes], OrigLimitedStream(stream, content_length))


# --------------------------------------------------------------------------------------
# Underlying stream models
# --------------------------------------------------------------------------------------


class FragStream:
    """A ``read``-only input that fragments reads deterministically (seeded), may
    raise an error at a chosen byte offset, and counts how much was consumed."""

    def __init__(self, body: bytes, seed: int, max_frag: int, err_at, err_type):
        self.body = body
        self.pos = 0
        self.rng = random.Random(seed)
        self.max_frag = max_frag
        self.err_at = err_at
        self.err_type = err_type
        self.calls: list = []

    def _take(self, n: int) -> bytes:
        if self.err_at is not None and self.pos >= self.err_at:
            raise self.err_type("boom")

        if n is None or n < 0:
            n = len(self.body) - self.pos

        if self.max_frag and n > 0:
            n = min(n, self.rng.randint(1, self.max_frag))

        out = self.body[self.pos : self.pos + n]
        self.pos += len(out)
        return out

    def read(self, n: int = -1) -> bytes:
        self.calls.append(("read", n))
        return self._take(n)


class FragStreamInto(FragStream):
    """Same, but also offers ``readinto`` (and records the buffer sizes passed)."""

    def readinto(self, b) -> int:
        self.calls.append(("readinto", len(b)))
        data = self._take(len(b))
        b[: len(data)] = data
        return len(data)


class NoneIntoStream(FragStreamInto):
    """``readinto`` returns ``None`` (non-blocking, no data) every other call."""

    def readinto(self, b):
        if self.rng.random() < 0.3:
            self.calls.append(("readinto-none", len(b)))
            return None
        return super().readinto(b)


def make_raw(kind: int, body: bytes, seed: int, max_frag: int, err_at, err_type):
    if kind == 0:
        return FragStream(body, seed, max_frag, err_at, err_type)
    if kind == 1:
        return FragStreamInto(body, seed, max_frag, err_at, err_type)
    if kind == 2:
        return NoneIntoStream(body, seed, max_frag, err_at, err_type)
    # a real BytesIO: has both read and readinto, never fragments
    return io.BytesIO(body)


def raw_consumed(raw) -> int:
    return raw.tell() if isinstance(raw, io.BytesIO) else raw.pos


def raw_calls(raw):
    return None if isinstance(raw, io.BytesIO) else list(raw.calls)


# --------------------------------------------------------------------------------------
# Hook-overriding subclasses (hooks that return instead of raising, record call shape)
# --------------------------------------------------------------------------------------


def make_quiet(base):
    class Quiet(base):  # type: ignore[misc, valid-type]
        def __init__(self, *a, **kw):
            super().__init__(*a, **kw)
            self.trace: list = []

        def on_exhausted(self, *a, **kw):
            self.trace.append(("exhausted", a, tuple(sorted(kw))))

        def on_disconnect(self, *a, **kw):
            self.trace.append(
                (
                    "disconnect",
                    tuple(type(x).__name__ for x in a),
                    tuple((k, type(v).__name__) for k, v in sorted(kw.items())),
                )
            )

    return Quiet


def make_noerrparam(base):
    class NoErrParam(base):  # type: ignore[misc, valid-type]
        """Old-style override: on_disconnect without the ``error`` parameter."""

        def on_disconnect(self):  # type: ignore[override]
            raise EOFError("old style")

    return NoErrParam


def make_exhausted_override(base):
    class AlwaysFresh(base):  # type: ignore[misc, valid-type]
        """Overrides the is_exhausted property; readall/exhaust must keep using it."""

        polls = 0

        @property
        def is_exhausted(self):
            self.polls += 1
            return self.polls > 3 or self._pos >= self.limit

    return AlwaysFresh


VARIANTS = [lambda c: c, make_quiet, make_noerrparam, make_exhausted_override]

# --------------------------------------------------------------------------------------
# Read-call programs
# --------------------------------------------------------------------------------------


def gen_ops(rng: random.Random) -> list:
    ops = []
    for _ in range(rng.randint(1, 7)):
        k = rng.randrange(12)
        if k == 0:
            ops.append(("read", rng.choice([0, 1, 2, 3, 5, 8, 13, 100, 70000])))
        elif k == 1:
            ops.append(("read", rng.choice([-1, None])))
        elif k == 2:
            ops.append(("read_noarg",))
        elif k == 3:
            ops.append(("readline", rng.choice([-1, None, 0, 1, 4, 50])))
        elif k == 4:
            ops.append(("readlines", rng.choice([-1, None, 0, 3, 40])))
        elif k == 5:
            ops.append(("readinto", rng.choice([0, 1, 2, 4, 7, 16, 64, 200])))
        elif k == 6:
            ops.append(("readinto_mv", rng.choice([1, 3, 9, 33])))
        elif k == 7:
            ops.append(("iter", rng.choice([1, 2, 100])))
        elif k == 8:
            ops.append(("exhaust",))
        elif k == 9:
            ops.append(("readall",))
        elif k == 10:
            ops.append(("tell",))
        else:
            ops.append(("is_exhausted",))
    return ops


def run_op(s, op):
    name = op[0]
    if name == "read":
        return s.read(op[1])
    if name == "read_noarg":
        return s.read()
    if name == "readline":
        return s.readline(op[1]) if op[1] is not None else s.readline()
    if name == "readlines":
        return s.readlines(op[1]) if op[1] is not None else s.readlines()
    if name == "readinto":
        buf = bytearray(b"\xee" * op[1])
        n = s.readinto(buf)
        return (n, bytes(buf))
    if name == "readinto_mv":
        buf = bytearray(b"\xdd" * (op[1] + 4))
        n = s.readinto(memoryview(buf)[2 : 2 + op[1]])
        return (n, bytes(buf))
    if name == "iter":
        out = []
        it = iter(s)
        for _ in range(op[1]):
            try:
                out.append(next(it))
            except StopIteration:
                out.append("STOP")
                break
        return out
    if name == "exhaust":
        return s.exhaust() if hasattr(s, "exhaust") else "n/a"
    if name == "readall":
        return s.readall() if hasattr(s, "readall") else "n/a"
    if name == "tell":
        try:
            return s.tell()
        except Exception as e:  # plain FragStream has no tell
            return type(e).__name__
    if name == "is_exhausted":
        return getattr(s, "is_exhausted", "n/a")
    raise AssertionError(name)


def run_program(s, ops) -> list:
    log = []
    for op in ops:
        try:
            log.append(("ok", run_op(s, op)))
        except BaseException as e:  # noqa: B036 - record every exception type
            log.append(("exc", type(e).__name__, type(e).__mro__[1].__name__))
    return log


def snapshot(limited, raw):
    return (
        getattr(limited, "_pos", None),
        getattr(limited, "trace", None),
        getattr(limited, "polls", None),
        raw_consumed(raw),
        raw_calls(raw),
    )


# --------------------------------------------------------------------------------------
# Checks
# --------------------------------------------------------------------------------------

failures: list = []
counts = {"limited": 0, "get_input_stream": 0, "content_length": 0}


def fail(kind, detail):
    failures.append((kind, detail))
    if len(failures) <= 5:
        print("MISMATCH", kind, detail, file=sys.stderr)


def gen_body(rng: random.Random) -> bytes:
    n = rng.choice([0, 1, 2, 5, 9, 17, 40, 100, 300])
    alphabet = b"ab\n\r\x00z"
    return bytes(rng.choice(alphabet) for _ in range(n))


def check_limited(n_cases: int, seed: int) -> None:
    rng = random.Random(seed)
    for i in range(n_cases):
        body = gen_body(rng)
        limit = rng.choice(
            [0, 1, 2, 5, len(body), max(0, len(body) - 3), len(body) + 4, 70, 500, -2]
        )
        is_max = rng.random() < 0.4
        kind = rng.randrange(4)
        max_frag = rng.choice([0, 0, 1, 2, 3, 7, 50])
        err_at = rng.choice([None, None, None, 0, 1, 4, 20])
        err_type = rng.choice([OSError, ValueError, ConnectionResetError, KeyError])
        sseed = rng.randrange(1 << 30)
        variant = rng.choice(VARIANTS)
        buffered = rng.random() < 0.3
        buf_size = rng.choice([1, 2, 5, 16, 8192])
        ops = gen_ops(rng)
        results = []

        for cls in (OrigLimitedStream, new_wsgi.LimitedStream):
            raw = make_raw(kind, body, sseed, max_frag, err_at, err_type)
            limited = variant(cls)(raw, limit, is_max)
            s = io.BufferedReader(limited, buf_size) if buffered else limited
            log = run_program(s, ops)
            results.append((log, snapshot(limited, raw)))

        counts["limited"] += 1
        if results[0] != results[1]:
            fail(
                "LimitedStream",
                dict(
                    case=i,
                    body=body,
                    limit=limit,
                    is_max=is_max,
                    kind=kind,
                    frag=max_frag,
                    err_at=err_at,
                    err=err_type.__name__,
                    buffered=buffered,
                    ops=ops,
                    orig=results[0],
                    new=results[1],
                ),
            )


CL_VALUES = [
    None, "", "0", "1", "5", "10", "17", "100", "-3", "-0", "abc", "+5", " 7", "7 ",
    "1_0", "١٢", "1.5", "0x10", "999999999999999999999", "--1", "5,5",
    "\t12\n",
]  # fmt: skip
TE_VALUES = [None, "chunked", "gzip", "Chunked", "chunked ", "", "gzip, chunked"]


def check_content_length() -> None:
    for cl in CL_VALUES + [str(n) for n in range(-20, 200)]:
        for te in TE_VALUES:
            for mode in range(4):
                outs = []
                for f in (
                    orig_sansio_get_content_length,
                    new_sansio.get_content_length,
                ):
                    try:
                        if mode == 0:
                            outs.append(("ok", f(cl, te)))
                        elif mode == 1:
                            outs.append(
                                (
                                    "ok",
                                    f(
                                        http_content_length=cl,
                                        http_transfer_encoding=te,
                                    ),
                                )
                            )
                        elif mode == 2:
                            outs.append(("ok", f(cl)))
                        else:
                            outs.append(("ok", f(http_transfer_encoding=te)))
                    except BaseException as e:  # noqa: B036
                        outs.append(("exc", type(e).__name__))
                counts["content_length"] += 1
                if outs[0] != outs[1] or (
                    outs[0][0] == "ok" and type(outs[0][1]) is not type(outs[1][1])
                ):
                    fail("get_content_length", dict(cl=cl, te=te, mode=mode, outs=outs))

    # non-str junk: both must raise the same thing
    for cl in [5, 5.0, b"5", ["5"], object()]:
        outs = []
        for f in (orig_sansio_get_content_length, new_sansio.get_content_length):
            try:
                outs.append(("ok", f(cl, None)))  # type: ignore[arg-type]
            except BaseException as e:  # noqa: B036
                outs.append(("exc", type(e).__name__))
        counts["content_length"] += 1
        if outs[0] != outs[1]:
            fail("get_content_length-junk", dict(cl=repr(cl), outs=outs))


def describe(result, raw, limited_cls):
    if result is raw:
        return ("raw",)
    if type(result) is io.BytesIO:
        return ("bytesio", result.getvalue(), result.tell())
    if type(result) is limited_cls:
        return (
            "limited",
            result.limit,
            result._limit_is_max,
            result._stream is raw,
            result._pos,
        )
    return ("other", type(result).__name__)


def check_get_input_stream(n_cases: int, seed: int) -> None:
    rng = random.Random(seed)
    for i in range(n_cases):
        body = gen_body(rng)
        environ_spec: dict = {}
        if rng.random() < 0.95:
            environ_spec["wsgi.input"] = True
        if rng.random() < 0.75:
            cl = rng.choice(
                CL_VALUES[1:] + [str(len(body)), str(len(body) + 3), str(len(body))]
            )
            environ_spec["CONTENT_LENGTH"] = cl
        if rng.random() < 0.3:
            environ_spec["HTTP_TRANSFER_ENCODING"] = rng.choice(TE_VALUES[1:])
        if rng.random() < 0.4:
            environ_spec["wsgi.input_terminated"] = rng.choice([True, False, None, 0])
        max_cl = rng.choice([None, None, 0, 3, 10, len(body), 1000])
        safe_fallback = rng.choice([True, False])
        call_style = rng.randrange(3)
        kind = rng.randrange(4)
        max_frag = rng.choice([0, 1, 3, 50])
        err_at = rng.choice([None, None, None, 0, 4])
        sseed = rng.randrange(1 << 30)
        buffered = rng.random() < 0.3
        ops = gen_ops(rng)
        results = []

        for f, cls in (
            (orig_get_input_stream, OrigLimitedStream),
            (new_wsgi.get_input_stream, new_wsgi.LimitedStream),
        ):
            raw = make_raw(kind, body, sseed, max_frag, err_at, OSError)
            environ = dict(environ_spec)
            if "wsgi.input" in environ:
                environ["wsgi.input"] = raw
            before = dict(environ)
            try:
                if call_style == 0:
                    res = f(environ, safe_fallback, max_cl)
                elif call_style == 1:
                    res = f(
                        environ,
                        safe_fallback=safe_fallback,
                        max_content_length=max_cl,
                    )
                else:
                    res = f(environ, max_content_length=max_cl)
            except BaseException as e:  # noqa: B036
                results.append(("exc", type(e).__name__, raw_consumed(raw)))
                continue

            desc = describe(res, raw, cls)
            unchanged = environ == before
            s = res
            if buffered and isinstance(res, io.RawIOBase):
                s = io.BufferedReader(res, 4)
            log = run_program(s, ops)
            results.append(
                (desc, unchanged, log, snapshot(res, raw), raw_consumed(raw))
            )

        counts["get_input_stream"] += 1
        if results[0] != results[1]:
            fail(
                "get_input_stream",
                dict(
                    case=i,
                    environ=environ_spec,
                    body=body,
                    max_cl=max_cl,
                    safe_fallback=safe_fallback,
                    ops=ops,
                    orig=results[0],
                    new=results[1],
                ),
            )


def main() -> int:
    assert new_wsgi.__file__.startswith("/tmp/wt3-C09/"), new_wsgi.__file__
    check_content_length()
    check_limited(12000, seed=90901)
    check_get_input_stream(6000, seed=90902)
    print("cases:", counts)
    if failures:
        print(f"FAIL ({len(failures)} mismatches)")
        return 1
    print("PASS")
    return 0


if __name__ == "__main__":
    sys.exit(main())
