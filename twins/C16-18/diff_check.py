"""Differential check for refactoring 3 (C16).

* auth.WWWAuthenticate.__setitem__ / __delitem__ / __setattr__ were
  restructured (nested if -> elif, early return, flipped membership test).
* _internal._DictAccessorProperty.__get__ / __set__ were restructured (early
  return, single assignment).

The ORIGINAL ``WWWAuthenticate`` class and the ORIGINAL
``_DictAccessorProperty`` class are pasted below.

Part A: raw ``WWWAuthenticate`` objects (with a recording on_update) - original
  vs worktree - under random mutation sequences.
Part B: ``Response.www_authenticate`` - a Response subclass using the original
  class vs the worktree Response - comparing header lists after every step.
Part C: ``_DictAccessorProperty`` descriptors with random load/dump functions
  on dict and Headers storages.
Part D: every ``header_property`` of ``sansio.Response`` cloned onto the
  original descriptor class; random typed assignments / raw header writes.
"""

from __future__ import annotations

import collections.abc as cabc
import random
import sys
import typing as t
from datetime import datetime
from datetime import timedelta
from datetime import timezone

from werkzeug._internal import _DictAccessorProperty as NewAccessor
from werkzeug.datastructures import Headers
from werkzeug.datastructures import WWWAuthenticate as NewWWWAuthenticate
from werkzeug.datastructures.structures import CallbackDict
from werkzeug.http import COEP
from werkzeug.http import COOP
from werkzeug.http import dump_header
from werkzeug.http import parse_dict_header
from werkzeug.http import quote_header_value
from werkzeug.sansio.response import Response
from werkzeug.utils import header_property


# --------------------------------------------------------------------------
# ORIGINAL implementations (pasted from the unmodified tree)
# --------------------------------------------------------------------------
class WWWAuthenticate:
    def __init__(
        self,
        auth_type: str,
        values: dict[str, str | None] | None = None,
        token: str | None = None,
    ):
        self._type = auth_type.lower()
        self._parameters: dict[str, str | None] = CallbackDict(
            values, lambda _: self._trigger_on_update()
        )
        self._token = token
        self._on_update: cabc.Callable[[WWWAuthenticate], None] | None = None

    def _trigger_on_update(self) -> None:
        if self._on_update is not None:
            self._on_update(self)

    @property
    def type(self) -> str:
        return self._type

    @type.setter
    def type(self, value: str) -> None:
        self._type = value.lower()
        self._trigger_on_update()

    @property
    def parameters(self) -> dict[str, str | None]:
        return self._parameters

    @parameters.setter
    def parameters(self, value: dict[str, str]) -> None:
        self._parameters = CallbackDict(value, lambda _: self._trigger_on_update())
        self._trigger_on_update()

    @property
    def token(self) -> str | None:
        return self._token

    @token.setter
    def token(self, value: str | None) -> None:
        self._token = value
        self._trigger_on_update()

    def __getitem__(self, key: str) -> str | None:
        return self.parameters.get(key)

    def __setitem__(self, key: str, value: str | None) -> None:
        if value is None:
            if key in self.parameters:
                del self.parameters[key]
        else:
            self.parameters[key] = value

        self._trigger_on_update()

    def __delitem__(self, key: str) -> None:
        if key in self.parameters:
            del self.parameters[key]
            self._trigger_on_update()

    def __getattr__(self, name: str) -> str | None:
        return self[name]

    def __setattr__(self, name: str, value: str | None) -> None:
        if name in {
            "type",
            "parameters",
            "token",
            "_type",
            "_parameters",
            "_token",
            "_on_update",
        }:
            super().__setattr__(name, value)
        else:
            self[name] = value

    def __delattr__(self, name: str) -> None:
        del self[name]

    def __contains__(self, key: str) -> bool:
        return key in self.parameters

    def __eq__(self, other: object) -> bool:
        if not isinstance(other, WWWAuthenticate):
            return NotImplemented

        return (
            other.type == self.type
            and other.token == self.token
            and other.parameters == self.parameters
        )

    def get(self, key: str, default: str | None = None) -> str | None:
        return self.parameters.get(key, default)

    @classmethod
    def from_header(cls, value: str | None):
        if not value:
            return None

        scheme, _, rest = value.partition(" ")
        scheme = scheme.lower()
        rest = rest.strip()

        if "=" in rest.rstrip("="):
            # = that is not trailing, this is parameters.
            return cls(scheme, parse_dict_header(rest), None)

        # No = or only trailing =, this is a token.
        return cls(scheme, None, rest)

    def to_header(self) -> str:
        if self.token is not None:
            return f"{self.type.title()} {self.token}"

        if self.type == "digest":
            items = []

            for key, value in self.parameters.items():
                if key in {"realm", "domain", "nonce", "opaque", "qop"}:
                    value = quote_header_value(value, allow_token=False)
                else:
                    value = quote_header_value(value)

                items.append(f"{key}={value}")

            return f"Digest {', '.join(items)}"

        return f"{self.type.title()} {dump_header(self.parameters)}"

    def __str__(self) -> str:
        return self.to_header()

    def __repr__(self) -> str:
        return f"<{type(self).__name__} {self.to_header()}>"


OrigWWWAuthenticate = WWWAuthenticate

_TAccessorValue = t.TypeVar("_TAccessorValue")


class _DictAccessorProperty(t.Generic[_TAccessorValue]):
    """Baseclass for `environ_property` and `header_property`."""

    read_only = False

    def __init__(
        self,
        name: str,
        default: _TAccessorValue | None = None,
        load_func: t.Callable[[str], _TAccessorValue] | None = None,
        dump_func: t.Callable[[_TAccessorValue], str] | None = None,
        read_only: bool | None = None,
        doc: str | None = None,
    ) -> None:
        self.name = name
        self.default = default
        self.load_func = load_func
        self.dump_func = dump_func
        if read_only is not None:
            self.read_only = read_only
        self.__doc__ = doc

    def lookup(self, instance: t.Any) -> t.MutableMapping[str, t.Any]:
        raise NotImplementedError

    def __get__(self, instance, owner):
        if instance is None:
            return self

        storage = self.lookup(instance)

        if self.name not in storage:
            return self.default  # type: ignore

        value = storage[self.name]

        if self.load_func is not None:
            try:
                return self.load_func(value)
            except (ValueError, TypeError):
                return self.default  # type: ignore

        return value  # type: ignore

    def __set__(self, instance: t.Any, value: _TAccessorValue) -> None:
        if self.read_only:
            raise AttributeError("read only property")

        if self.dump_func is not None:
            self.lookup(instance)[self.name] = self.dump_func(value)
        else:
            self.lookup(instance)[self.name] = value

    def __delete__(self, instance: t.Any) -> None:
        if self.read_only:
            raise AttributeError("read only property")

        self.lookup(instance).pop(self.name, None)

    def __repr__(self) -> str:
        return f"<{type(self).__name__} {self.name}>"


OrigAccessor = _DictAccessorProperty


class orig_header_property(OrigAccessor):  # noqa: N801
    def lookup(self, obj):
        return obj.headers


class OrigResponse(Response):
    """Response whose www_authenticate uses the ORIGINAL WWWAuthenticate and
    whose header_property descriptors use the ORIGINAL accessor class."""

    @property
    def www_authenticate(self):
        value = OrigWWWAuthenticate.from_header(self.headers.get("WWW-Authenticate"))

        if value is None:
            value = OrigWWWAuthenticate("basic")

        def on_update(value) -> None:
            self.www_authenticate = value

        value._on_update = on_update
        return value

    @www_authenticate.setter
    def www_authenticate(self, value) -> None:
        if not value:  # None or empty list
            del self.www_authenticate
        elif isinstance(value, list):
            self.headers.set("WWW-Authenticate", value[0].to_header())

            for item in value[1:]:
                self.headers.add("WWW-Authenticate", item.to_header())
        else:
            self.headers.set("WWW-Authenticate", value.to_header())

            def on_update(value) -> None:
                self.www_authenticate = value

            value._on_update = on_update

    @www_authenticate.deleter
    def www_authenticate(self) -> None:
        if "WWW-Authenticate" in self.headers:
            del self.headers["WWW-Authenticate"]


HEADER_PROPS = []
for _cls in Response.__mro__:
    for _attr, _obj in vars(_cls).items():
        if isinstance(_obj, header_property) and _attr not in HEADER_PROPS:
            HEADER_PROPS.append(_attr)
            setattr(
                OrigResponse,
                _attr,
                orig_header_property(
                    _obj.name,
                    _obj.default,
                    _obj.load_func,
                    _obj.dump_func,
                    _obj.read_only,
                    _obj.__doc__,
                ),
            )
HEADER_PROPS.sort()


# --------------------------------------------------------------------------
# Part A / B : WWWAuthenticate
# --------------------------------------------------------------------------
PARAM_NAMES = ["realm", "nonce", "qop", "opaque", "domain", "x", "stale", "algorithm"]
OTHER_NAMES = ["_private", "Realm", "on_update", "to_header", "get", "__weird__", ""]
OWN_NAMES = ["type", "token", "_type", "_token"]
STR_VALUES = ["r", "a b", "", 'q"uote', "tok==", "ä", "k=v", "MiXeD"]
TYPES = ["basic", "Digest", "BEARER", "x-custom", ""]
BAD = [5, ["l"], b"b"]


def gen_auth(rnd):
    m = rnd.choice(
        ["setattr", "setattr", "setattr", "setattr_none", "setattr_own",
         "setattr_own", "setattr_params", "delattr", "delattr", "setitem", "setitem",
         "setitem_none", "delitem", "delitem", "getattr", "getitem", "contains",
         "params_setitem", "params_delitem", "params_pop", "params_clear",
         "params_update", "params_setdefault", "set__parameters", "set__on_update_none",
         "bad_key", "bad_value", "read"]
    )  # fmt: skip
    name = rnd.choice(PARAM_NAMES if rnd.random() < 0.8 else OTHER_NAMES)
    return (
        m,
        name,
        rnd.choice(STR_VALUES),
        rnd.choice(OWN_NAMES),
        rnd.choice(TYPES + STR_VALUES + [None]),
        {rnd.choice(PARAM_NAMES): rnd.choice(STR_VALUES) for _ in range(rnd.randint(0, 3))},
        rnd.choice(BAD),
    )


def snap_auth(a):
    return (a.type, a.token, list(a.parameters.items()), _safe_header(a))


def _safe_header(a):
    try:
        return a.to_header()
    except Exception as e:  # noqa: BLE001
        return ("exc", type(e).__name__)


def apply_auth(a, op):
    m, name, sval, own, ownval, mapping, bad = op
    try:
        rv = None
        if m == "setattr":
            setattr(a, name, sval)
        elif m == "setattr_none":
            setattr(a, name, None)
        elif m == "setattr_own":
            setattr(a, own, ownval)
        elif m == "setattr_params":
            a.parameters = mapping
        elif m == "delattr":
            delattr(a, name)
        elif m == "setitem":
            a[name] = sval
        elif m == "setitem_none":
            a[name] = None
        elif m == "delitem":
            del a[name]
        elif m == "getattr":
            rv = getattr(a, name)
            if callable(rv):
                rv = "<callable>"
        elif m == "getitem":
            rv = a[name]
        elif m == "contains":
            rv = name in a
        elif m == "params_setitem":
            a.parameters[name] = sval
        elif m == "params_delitem":
            del a.parameters[name]
        elif m == "params_pop":
            rv = a.parameters.pop(name, None)
        elif m == "params_clear":
            a.parameters.clear()
        elif m == "params_update":
            a.parameters.update(mapping)
        elif m == "params_setdefault":
            rv = a.parameters.setdefault(name, sval)
        elif m == "set__parameters":
            a._parameters = dict(mapping)
        elif m == "set__on_update_none":
            a._on_update = None
        elif m == "bad_key":
            if isinstance(bad, list):
                a[bad] = sval
            else:
                del a[bad]
        elif m == "bad_value":
            setattr(a, name, bad)
        return ("ok", repr(rv), snap_auth(a))
    except Exception as e:  # noqa: BLE001
        return ("exc", type(e).__name__, str(e))


def make_auth(cls, spec, log):
    kind, typ, values, token = spec
    if kind == "header":
        a = cls.from_header(values)
        if a is None:
            a = cls("basic")
    else:
        a = cls(typ, dict(values) if values is not None else None, token)

    def on_update(v):
        log.append(snap_auth(v))

    a._on_update = on_update
    return a


AUTH_SPECS = [
    ("ctor", "basic", None, None),
    ("ctor", "Basic", {"realm": "r"}, None),
    ("ctor", "digest", {"realm": "r", "nonce": "n", "qop": "auth", "x": "y z"}, None),
    ("ctor", "bearer", None, "tok"),
    ("ctor", "x", {"a": None}, None),
    ("header", None, 'Digest realm="a b", nonce=abc, stale=TRUE', None),
    ("header", None, "Bearer abc==", None),
    ("header", None, "Basic", None),
    ("header", None, 'Custom k="v", k2=v2', None),
]


def part_a():
    rnd = random.Random(316)
    steps = 0
    n_seq = 3000
    for seq in range(n_seq):
        spec = rnd.choice(AUTH_SPECS)
        log_new, log_old = [], []
        new = make_auth(NewWWWAuthenticate, spec, log_new)
        old = make_auth(OrigWWWAuthenticate, spec, log_old)
        for _ in range(rnd.randint(1, 12)):
            op = gen_auth(rnd)
            r_new = apply_auth(new, op)
            r_old = apply_auth(old, op)
            steps += 1
            if r_new != r_old or log_new != log_old or snap_auth(new) != snap_auth(old):
                print("FAIL part A, sequence", seq, "op", op)
                print(" new:", r_new, log_new[-3:])
                print(" old:", r_old, log_old[-3:])
                return False
        if vars(new).keys() != vars(old).keys():
            print("FAIL part A, instance dict differs", vars(new), vars(old))
            return False
    print(f"part A: {n_seq} sequences / {steps} steps identical")
    return True


RAW_AUTH = [
    "", "Basic", 'Basic realm="x"', 'Digest realm="r", nonce="n", qop="auth"',
    "Bearer tok", "Bearer tok==", 'X a=b, c="d e"', "nospace=1", "  ",
]  # fmt: skip


def gen_resp(rnd):
    r = rnd.random()
    if r < 0.15:
        return ("raw", rnd.choice(["set", "add", "del"]), rnd.choice(RAW_AUTH))
    if r < 0.3:
        return ("assign", rnd.choice(["none", "empty", "one", "list", "del"]),
                rnd.choice(AUTH_SPECS[:5]), rnd.choice(AUTH_SPECS[:5]))  # fmt: skip
    if r < 0.4:
        return ("held", gen_auth(rnd), gen_auth(rnd))
    return ("view", gen_auth(rnd))


def apply_resp(resp, cls, op, held):
    try:
        if op[0] == "raw":
            _, m, text = op
            if m == "set":
                resp.headers["WWW-Authenticate"] = text
            elif m == "add":
                resp.headers.add("WWW-Authenticate", text)
            else:
                del resp.headers["www-authenticate"]
            return ("ok",)
        if op[0] == "assign":
            _, m, s1, s2 = op
            if m == "none":
                resp.www_authenticate = None
            elif m == "empty":
                resp.www_authenticate = []
            elif m == "del":
                del resp.www_authenticate
            elif m == "one":
                held[:] = [cls(s1[1], dict(s1[2]) if s1[2] else None, s1[3])]
                resp.www_authenticate = held[0]
            else:
                items = [
                    cls(s[1], dict(s[2]) if s[2] else None, s[3]) for s in (s1, s2)
                ]
                resp.www_authenticate = items
            return ("ok",)
        if op[0] == "held":
            # mutate an object that was assigned earlier (keeps its callback)
            if not held:
                return ("skip",)
            return (apply_auth(held[0], op[1]), apply_auth(held[0], op[2]))
        return apply_auth(resp.www_authenticate, op[1])
    except Exception as e:  # noqa: BLE001
        return ("exc", type(e).__name__, str(e))


def part_b():
    rnd = random.Random(3160)
    steps = 0
    n_seq = 3000
    for seq in range(n_seq):
        new, old = Response(), OrigResponse()
        held_new, held_old = [], []
        for _ in range(rnd.randint(1, 12)):
            op = gen_resp(rnd)
            r_new = apply_resp(new, NewWWWAuthenticate, op, held_new)
            r_old = apply_resp(old, OrigWWWAuthenticate, op, held_old)
            steps += 1
            obs_new = (list(new.headers), snap_auth(new.www_authenticate))
            obs_old = (list(old.headers), snap_auth(old.www_authenticate))
            if r_new != r_old or obs_new != obs_old:
                print("FAIL part B, sequence", seq, "op", op)
                print(" new:", r_new, obs_new)
                print(" old:", r_old, obs_old)
                return False
    print(f"part B: {n_seq} sequences / {steps} steps identical")
    return True


# --------------------------------------------------------------------------
# Part C / D : _DictAccessorProperty
# --------------------------------------------------------------------------
class Holder:
    def __init__(self, storage):
        self.storage = storage
        self.headers = storage


def _raise(exc):
    def f(value):
        raise exc("boom")

    return f


def _picky(value):
    if value in ("", None):
        raise ValueError("empty")
    if value == "t":
        raise TypeError("t")
    if value == "k":
        raise KeyError("k")
    return f"<{value}>"


LOADS = [None, int, float, str, _picky, _raise(ValueError), _raise(TypeError),
         _raise(KeyError), _raise(AttributeError), lambda v: None, lambda v: v.upper()]  # fmt: skip
DUMPS = [None, str, repr, _picky, _raise(ValueError), _raise(TypeError),
         lambda v: None, lambda v: v.lower(), lambda v: 12]  # fmt: skip
DEFAULTS = [None, 0, "dflt", ()]
ACC_NAMES = ["X-Test", "x-test", "Content-Length", "k"]
ACC_VALUES = ["1", "1.5", "abc", "", "t", "k", None, 7, b"b", "A\nB", "ü", ["l"]]


def part_c():
    rnd = random.Random(31600)
    n = 0
    for _case in range(1500):
        name = rnd.choice(ACC_NAMES)
        args = (
            name,
            rnd.choice(DEFAULTS),
            rnd.choice(LOADS),
            rnd.choice(DUMPS),
            rnd.choice([None, None, None, True, False]),
            rnd.choice([None, "doc"]),
        )
        use_headers = rnd.random() < 0.5

        class NewProp(NewAccessor):
            def lookup(self, obj):
                return obj.storage

        class OldProp(OrigAccessor):
            def lookup(self, obj):
                return obj.storage

        class NewOwner(Holder):
            prop = NewProp(*args)

        class OldOwner(Holder):
            prop = OldProp(*args)

        new = NewOwner(Headers() if use_headers else {})
        old = OldOwner(Headers() if use_headers else {})
        if type(NewOwner.prop).__mro__[1] is not NewAccessor:
            return False
        if (NewOwner.prop.read_only, NewOwner.prop.__doc__) != (
            OldOwner.prop.read_only,
            OldOwner.prop.__doc__,
        ):
            print("FAIL part C: descriptor attributes differ")
            return False
        for _ in range(rnd.randint(2, 8)):
            m = rnd.choice(["set", "set", "get", "get", "del", "raw", "rawdel"])
            val = rnd.choice(ACC_VALUES)
            res = []
            for obj in (new, old):
                try:
                    if m == "set":
                        obj.prop = val
                        r = None
                    elif m == "get":
                        r = obj.prop
                    elif m == "del":
                        del obj.prop
                        r = None
                    elif m == "raw":
                        obj.storage[name] = val
                        r = None
                    else:
                        obj.storage.pop(name, None)
                        r = None
                    res.append(("ok", repr(r), type(r).__name__))
                except Exception as e:  # noqa: BLE001
                    res.append(("exc", type(e).__name__, str(e)))
                res.append(
                    list(obj.storage)
                    if use_headers
                    else [(k, repr(v)) for k, v in obj.storage.items()]
                )
            n += 1
            if res[:2] != res[2:]:
                print("FAIL part C:", args, m, val)
                print(" new:", res[:2])
                print(" old:", res[2:])
                return False
    print(f"part C: {n} descriptor operations identical")
    return True


def _typed_values(rnd):
    base = datetime(2024, 2, 29, 23, 59, 59, 999999)
    return [
        None, "", "text/html", "text/html; charset=utf-8", "abc", "0", "12", "-5",
        " 7 ", "1.5", 0, 12, -1, 1.5, True, timedelta(seconds=rnd.randint(0, 10**6)),
        timedelta(days=-1), timedelta(microseconds=1500000),
        base, base.replace(tzinfo=timezone.utc),
        base.replace(tzinfo=timezone(timedelta(hours=5, minutes=30))),
        base - timedelta(days=rnd.randint(0, 20000), microseconds=rnd.randint(0, 10**6)),
        datetime(1970, 1, 1), "Thu, 29 Feb 2024 23:59:59 GMT", "not a date",
        "Sun, 06 Nov 1994 08:49:37 GMT", ["GET", "post"], ("a", "B"), {"x", }, [],
        "a, b", "*", "same-origin", "require-corp", COOP.SAME_ORIGIN, COEP.REQUIRE_CORP,
        "unsafe-none", "bogus-policy", b"bytes", "http://ex.com/ü", "/p\nq",
    ]  # fmt: skip


def part_d():
    rnd = random.Random(316000)
    steps = 0
    n_seq = 2500
    for seq in range(n_seq):
        new, old = Response(), OrigResponse()
        for _ in range(rnd.randint(1, 10)):
            prop = rnd.choice(HEADER_PROPS)
            m = rnd.choice(["set", "set", "set", "del", "raw", "get"])
            val = rnd.choice(_typed_values(rnd))
            hname = getattr(Response, prop).name
            res = []
            for obj in (new, old):
                try:
                    if m == "set":
                        setattr(obj, prop, val)
                        r = getattr(obj, prop)
                    elif m == "del":
                        delattr(obj, prop)
                        r = getattr(obj, prop)
                    elif m == "raw":
                        obj.headers[hname] = val if isinstance(val, str) else repr(val)
                        r = getattr(obj, prop)
                    else:
                        r = getattr(obj, prop)
                    res.append(("ok", repr(r), type(r).__name__))
                except Exception as e:  # noqa: BLE001
                    res.append(("exc", type(e).__name__, str(e)))
                res.append(list(obj.headers))
                res.append([repr(getattr(obj, p)) for p in HEADER_PROPS])
            steps += 1
            if res[:3] != res[3:]:
                print("FAIL part D, sequence", seq, prop, m, repr(val))
                print(" new:", res[:2])
                print(" old:", res[3:5])
                return False
    print(
        f"part D: {n_seq} sequences / {steps} steps identical"
        f" ({len(HEADER_PROPS)} header properties)"
    )
    return True


def main():
    ok = part_a() and part_b() and part_c() and part_d()
    print("PASS" if ok else "FAIL")
    return 0 if ok else 1


if __name__ == "__main__":
    sys.exit(main())
