# ---- shared input generation / driving helpers (copied into each diff_check) ----
import random

BOUNDARIES = [b"boundary", b"----WebKitFormBoundary7MA4YWxk", b"a", b"XX", b"b.c+d", b"--x--", b"foo-bar_1"]
LBS = [b"\r\n", b"\n", b"\r"]


def rand_payload(rng, boundary, lb):
    frags = [
        b"\r", b"\n", b"\r\n", b"-", b"--", b"a", b"xyz", b" ", b"\t", b"\x00", b"\xff\xfe",
        b"--" + boundary, lb + b"--" + boundary, lb + b"--" + boundary[:-1],
        lb + b"--" + boundary[: max(1, len(boundary) // 2)], b"\n--", b"\r\n-", b"\r\n--",
        boundary, b"--" + boundary + b"--", b"--" + boundary + b"x" + lb,
        b"\n\n", b"\r\r", b"hello world", b"0123456789" * 3,
    ]
    n = rng.choice([0, 0, 1, 2, 3, 5, 8, 12, 20, 40])
    out = b"".join(rng.choice(frags) for _ in range(n))
    if rng.random() < 0.1:
        out += bytes(rng.randrange(256) for _ in range(rng.randrange(0, 300)))
    if rng.random() < 0.05:
        out += b"z" * rng.randrange(500, 3000)
    return out


def rand_headers(rng, lb, idx):
    lines = []
    r = rng.random()
    name = rng.choice(["a", "field%d" % idx, "fü", "file", ""])
    if r < 0.08:
        pass  # missing content-disposition
    elif r < 0.55:
        lines.append(b'Content-Disposition: form-data; name="%s"' % name.encode())
    else:
        fn = rng.choice(["x.txt", "", "a b.bin", "tést.png"])
        lines.append(
            b'Content-Disposition: form-data; name="%s"; filename="%s"'
            % (name.encode(), fn.encode())
        )
    if rng.random() < 0.4:
        lines.append(b"Content-Type: " + rng.choice([b"text/plain", b"text/plain; charset=latin-1", b"application/octet-stream", b"text/plain; charset=bogus"]))
    if rng.random() < 0.15:
        lines.append(b"X-Long: part1" + lb + rng.choice([b" ", b"\t"]) + b"part2")
    if rng.random() < 0.1:
        lines.append(b"Content-Length: " + rng.choice([b"5", b"abc", b"-1"]))
    if rng.random() < 0.03:
        lines.append(b"X-Bad: \xff\xfe")
    if rng.random() < 0.05:
        lines.append(b"NoColonHeader")
    rng.shuffle(lines)
    return lines


def rand_body(rng):
    boundary = rng.choice(BOUNDARIES)
    lb = rng.choice(LBS)
    mix = rng.random() < 0.2
    def L():
        return rng.choice(LBS) if mix else lb
    out = bytearray()
    if rng.random() < 0.3:
        out += rng.choice([b"preamble", b"\r\n", b"pre\r\n--nope", b"x" * 50, b"--", b"-" * 20])
        if rng.random() < 0.7:
            out += L()
    elif rng.random() < 0.3:
        out += L()
    nparts = rng.choice([0, 1, 1, 2, 2, 3, 4])
    for i in range(nparts):
        out += b"--" + boundary
        if rng.random() < 0.1:
            out += rng.choice([b" ", b"\t", b"  "])
        out += L()
        for h in rand_headers(rng, L(), i):
            out += h + L()
        # blank line
        if rng.random() < 0.95:
            out += L()
        out += rand_payload(rng, boundary, lb)
        out += L()
    r = rng.random()
    if r < 0.85:
        out += b"--" + boundary + b"--"
        if rng.random() < 0.2:
            out += b" \t"
        if rng.random() < 0.8:
            out += L()
        if rng.random() < 0.3:
            out += rng.choice([b"epilogue", b"\r\n\r\n", b"--" + boundary, b"x" * 30])
    elif r < 0.93:
        pass  # no terminator
    else:
        out += b"--" + boundary  # dangling
    body = bytes(out)
    r = rng.random()
    if r < 0.08 and body:
        body = body[: rng.randrange(len(body))]  # truncated
    elif r < 0.16 and body:
        b = bytearray(body)
        for _ in range(rng.randrange(1, 4)):
            b[rng.randrange(len(b))] = rng.choice(b"\r\n-a \x00")
        body = bytes(b)
    elif r < 0.2:
        body = bytes(rng.randrange(256) for _ in range(rng.randrange(0, 200)))
    return boundary, body


def rand_chunks(rng, body):
    mode = rng.random()
    if mode < 0.15:
        return [body] if body else []
    if mode < 0.4:
        k = rng.choice([1, 1, 2, 3, 5, 7, 16, 64])
        return [body[i : i + k] for i in range(0, len(body), k)]
    chunks = []
    i = 0
    while i < len(body):
        k = rng.choice([1, 1, 2, 3, 4, 9, 17, 33, 100, 1000])
        k = rng.randrange(1, k + 1)
        chunks.append(body[i : i + k])
        i += k
    return chunks

# ---- ORIGINAL implementation (pasted from the unmodified tree) ----
import typing as t

from werkzeug.exceptions import RequestEntityTooLarge
from werkzeug.http import parse_options_header
from werkzeug.sansio import multipart as M
from werkzeug.sansio.multipart import BLANK_LINE_RE
from werkzeug.sansio.multipart import Data
from werkzeug.sansio.multipart import Epilogue
from werkzeug.sansio.multipart import Event
from werkzeug.sansio.multipart import Field
from werkzeug.sansio.multipart import File
from werkzeug.sansio.multipart import MultipartDecoder
from werkzeug.sansio.multipart import NEED_DATA
from werkzeug.sansio.multipart import NeedData
from werkzeug.sansio.multipart import Preamble
from werkzeug.sansio.multipart import SEARCH_EXTRA_LENGTH
from werkzeug.sansio.multipart import State


class OrigDecoder(MultipartDecoder):
    def next_event(self) -> Event:
        event: Event = NEED_DATA

        if self.state == State.PREAMBLE:
            match = self.preamble_re.search(self.buffer, self._search_position)
            if match is not None:
                if match.group(1).startswith(b"--"):
                    self.state = State.EPILOGUE
                else:
                    self.state = State.PART
                data = bytes(self.buffer[: match.start()])
                del self.buffer[: match.end()]
                event = Preamble(data=data)
                self._search_position = 0
            else:
                # Update the search start position to be equal to the
                # current buffer length (already searched) minus a
                # safe buffer for part of the search target.
                self._search_position = max(
                    0, len(self.buffer) - len(self.boundary) - SEARCH_EXTRA_LENGTH
                )

        elif self.state == State.PART:
            match = BLANK_LINE_RE.search(self.buffer, self._search_position)
            if match is not None:
                headers = self._parse_headers(self.buffer[: match.start()])
                # The final header ends with a single CRLF, however a
                # blank line indicates the start of the
                # body. Therefore the end is after the first CRLF.
                headers_end = (match.start() + match.end()) // 2
                del self.buffer[:headers_end]

                if "content-disposition" not in headers:
                    raise ValueError("Missing Content-Disposition header")

                disposition, extra = parse_options_header(
                    headers["content-disposition"]
                )
                name = t.cast(str, extra.get("name"))
                filename = extra.get("filename")
                if filename is not None:
                    event = File(
                        filename=filename,
                        headers=headers,
                        name=name,
                    )
                else:
                    event = Field(
                        headers=headers,
                        name=name,
                    )
                self.state = State.DATA_START
                self._search_position = 0
                self._parts_decoded += 1

                if self.max_parts is not None and self._parts_decoded > self.max_parts:
                    raise RequestEntityTooLarge()
            else:
                # Update the search start position to be equal to the
                # current buffer length (already searched) minus a
                # safe buffer for part of the search target.
                self._search_position = max(0, len(self.buffer) - SEARCH_EXTRA_LENGTH)

        elif self.state == State.DATA_START:
            data, del_index, more_data = self._parse_data(self.buffer, start=True)
            del self.buffer[:del_index]
            event = Data(data=data, more_data=more_data)
            if more_data:
                self.state = State.DATA

        elif self.state == State.DATA:
            data, del_index, more_data = self._parse_data(self.buffer, start=False)
            del self.buffer[:del_index]
            if data or not more_data:
                event = Data(data=data, more_data=more_data)

        elif self.state == State.EPILOGUE and self.complete:
            event = Epilogue(data=bytes(self.buffer))
            del self.buffer[:]
            self.state = State.COMPLETE

        if self.complete and isinstance(event, NeedData):
            raise ValueError(f"Invalid form-data cannot parse beyond {self.state}")

        return event


def snapshot(d):
    return (d.state, bytes(d.buffer), d._search_position, d._parts_decoded, d.complete)


def describe(ev):
    out = [type(ev), repr(ev)]
    if isinstance(ev, (Field, File)):
        out.append(type(ev.headers))
        out.append(list(ev.headers))
        out.append((type(ev.name), ev.name, getattr(ev, "filename", None)))
    return tuple(out)


def drive(cls, boundary, chunks, mfms, max_parts, keep_going):
    """Feed chunks, draining events after each; record everything observable.

    With keep_going the decoder is driven on after an exception (its state
    after a failed call is observable too)."""
    d = cls(boundary, max_form_memory_size=mfms, max_parts=max_parts)
    log = []
    for chunk in list(chunks) + [None]:
        try:
            d.receive_data(chunk)
        except Exception as e:
            log.append(("recv-exc", type(e), str(e)))
            if not keep_going:
                break
        stop = False
        for _ in range(10000):
            try:
                ev = d.next_event()
            except Exception as e:
                log.append(("exc", type(e), str(e), snapshot(d)))
                stop = not keep_going
                break
            log.append((describe(ev), snapshot(d)))
            if isinstance(ev, (M.NeedData, M.Epilogue)):
                break
        else:
            raise AssertionError("runaway")
        if stop:
            break
    return log


def main():
    rng = random.Random(20240802)
    n = 0
    fails = 0
    for i in range(8000):
        boundary, body = rand_body(rng)
        mfms = rng.choice([None, None, None, 10, 50, 400])
        mp = rng.choice([None, None, 0, 1, 2])
        for _ in range(2):
            chunks = rand_chunks(rng, body)
            kg = rng.random() < 0.3
            a = drive(OrigDecoder, boundary, chunks, mfms, mp, kg)
            b = drive(MultipartDecoder, boundary, chunks, mfms, mp, kg)
            n += 1
            if a != b:
                fails += 1
                if fails < 5:
                    print("MISMATCH decoder", boundary, body, chunks, mfms, mp)
    print("cases:", n, "failures:", fails)
    print("PASS" if fails == 0 else "FAIL")


if __name__ == "__main__":
    main()
