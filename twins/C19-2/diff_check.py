"""Differential check for refactoring 2 (WSGIRequestHandler.make_environ).

Run: cd /tmp/wt3-C19 && PYTHONPATH=/tmp/wt3-C19/src /venv/bin/python /tmp/twin-C19/2/diff_check.py

Calls the refactored ``WSGIRequestHandler.make_environ`` from the worktree and a
pasted copy of the ORIGINAL function on identical, randomly generated handler
states (request target, header block, client address, TLS state) and compares
the produced environ (keys, insertion order, values, wrapping of wsgi.input),
side effects on the handler (client_address, server log) and raised exceptions.
Prints PASS only if everything is identical for every generated input.
"""

from __future__ import annotations

import http.client
import io
import random
import sys

from werkzeug import serving
from werkzeug.serving import DechunkedInput
from werkzeug.serving import WSGIRequestHandler
from werkzeug.serving import _wsgi_encoding_dance
from werkzeug.serving import ssl
from werkzeug.serving import unquote
from werkzeug.serving import urlsplit


# --------------------------------------------------------------------------
# ORIGINAL implementation (verbatim copy from the unmodified tree)
# --------------------------------------------------------------------------
def orig_make_environ(self):
    request_url = urlsplit(self.path)
    url_scheme = "http" if self.server.ssl_context is None else "https"

    if not self.client_address:
        self.client_address = ("<local>", 0)
    elif isinstance(self.client_address, str):
        self.client_address = (self.client_address, 0)

    # If there was no scheme but the path started with two slashes,
    # the first segment may have been incorrectly parsed as the
    # netloc, prepend it to the path again.
    if not request_url.scheme and request_url.netloc:
        path_info = f"/{request_url.netloc}{request_url.path}"
    else:
        path_info = request_url.path

    path_info = unquote(path_info)

    environ = {
        "wsgi.version": (1, 0),
        "wsgi.url_scheme": url_scheme,
        "wsgi.input": self.rfile,
        "wsgi.errors": sys.stderr,
        "wsgi.multithread": self.server.multithread,
        "wsgi.multiprocess": self.server.multiprocess,
        "wsgi.run_once": False,
        "werkzeug.socket": self.connection,
        "SERVER_SOFTWARE": self.server_version,
        "REQUEST_METHOD": self.command,
        "SCRIPT_NAME": "",
        "PATH_INFO": _wsgi_encoding_dance(path_info),
        "QUERY_STRING": _wsgi_encoding_dance(request_url.query),
        # Non-standard, added by mod_wsgi, uWSGI
        "REQUEST_URI": _wsgi_encoding_dance(self.path),
        # Non-standard, added by gunicorn
        "RAW_URI": _wsgi_encoding_dance(self.path),
        "REMOTE_ADDR": self.address_string(),
        "REMOTE_PORT": self.port_integer(),
        "SERVER_NAME": self.server.server_address[0],
        "SERVER_PORT": str(self.server.server_address[1]),
        "SERVER_PROTOCOL": self.request_version,
    }

    for key, value in self.headers.items():
        if "_" in key:
            continue

        key = key.upper().replace("-", "_")
        value = value.replace("\r\n", "")
        if key not in ("CONTENT_TYPE", "CONTENT_LENGTH"):
            key = f"HTTP_{key}"
            if key in environ:
                value = f"{environ[key]},{value}"
        environ[key] = value

    if environ.get("HTTP_TRANSFER_ENCODING", "").strip().lower() == "chunked":
        environ["wsgi.input_terminated"] = True
        environ["wsgi.input"] = DechunkedInput(environ["wsgi.input"])

    # Per RFC 2616, if the URL is absolute, use that as the host.
    # We're using "has a scheme" to indicate an absolute URL.
    if request_url.scheme and request_url.netloc:
        environ["HTTP_HOST"] = request_url.netloc

    try:
        # binary_form=False gives nicer information, but wouldn't be compatible with
        # what Nginx or Apache could return.
        peer_cert = self.connection.getpeercert(binary_form=True)
        if peer_cert is not None:
            # Nginx and Apache use PEM format.
            environ["SSL_CLIENT_CERT"] = ssl.DER_cert_to_PEM_cert(peer_cert)
    except ValueError:
        # SSL handshake hasn't finished.
        self.server.log("error", "Cannot fetch SSL peer certificate info")
    except AttributeError:
        # Not using TLS, the socket will not have getpeercert().
        pass

    return environ


# --------------------------------------------------------------------------
# fake collaborators
# --------------------------------------------------------------------------
class FakeServer:
    def __init__(self, ssl_context, multithread, multiprocess, server_address):
        self.ssl_context = ssl_context
        self.multithread = multithread
        self.multiprocess = multiprocess
        self.server_address = server_address
        self._server_version = "Werkzeug/test"
        self.logged: list = []

    def log(self, type, message, *args):
        self.logged.append((type, message, args))


class PlainConn:
    """Socket without TLS: no getpeercert attribute."""


class TLSConn:
    def __init__(self, mode, cert):
        self.mode = mode
        self.cert = cert
        self.calls = 0

    def getpeercert(self, binary_form=False):
        self.calls += 1
        assert binary_form is True
        if self.mode == "none":
            return None
        if self.mode == "handshake":
            raise ValueError("handshake not done")
        if self.mode == "attr":
            raise AttributeError("boom")
        if self.mode == "oserror":
            raise OSError("boom")
        return self.cert


# --------------------------------------------------------------------------
# input generators
# --------------------------------------------------------------------------
SEGS = [
    "a", "b", "index.html", "%20", "%2F", "%2f", "%C3%A9", "%E2%82%AC", "%ff", "%",
    "%zz", "%4", "é", "ü", "\xff", "€", "..", ".", "", "a b", "a+b", ";p=1", ":", "@",
    "a:b", "x_y", "~", "*", "\\", "%00", "%0d%0a", "a%3Fb", "a%23b", "[", "]", "[::1]",
]
HOSTS = [
    "example.com", "example.com:8080", "user@example.com", "user:pw@h:1", "[::1]",
    "[::1]:80", "localhost", "ex%61mple.com", "EXAMPLE.com", "xn--nxasmq6b", "a_b",
    "[bad", "bad]", "", "h\xe9.com",
]
QUERIES = ["", "a=1", "a=1&b=2", "q=%20x", "é=ü", "a=b?c", "x=%", "a=1#frag", "=", "&&", "a=[1]"]


def gen_path(rng: random.Random) -> str:
    form = rng.random()
    segs = "/".join(rng.choice(SEGS) for _ in range(rng.randint(0, 4)))
    query = rng.choice(QUERIES)
    q = ("?" + query) if (query or rng.random() < 0.2) else ""
    frag = rng.choice(["", "", "", "#f", "#"])
    if form < 0.45:
        return "/" + segs + q + frag
    if form < 0.60:
        # starts with two slashes: parsed as netloc by urlsplit
        return "//" + rng.choice(HOSTS) + "/" + segs + q + frag
    if form < 0.80:
        scheme = rng.choice(["http", "https", "HTTP", "ftp", "ws", "x-y", "1http", "a.b+c"])
        sep = rng.choice(["://", "://", "://", ":", ":/", ":///"])
        return scheme + sep + rng.choice(HOSTS) + rng.choice(["/", ""]) + segs + q + frag
    if form < 0.85:
        return rng.choice(["*", "", "?", "#", "/", "//", "///", "?a=1", "host:443", ":80", "a:b", "http:", "http://"])
    if form < 0.92:
        return segs + q + frag  # no leading slash
    chars = "/%?#:@[]\\ab01 éü\xff€_-.~;=&+"
    return "".join(rng.choice(chars) for _ in range(rng.randint(0, 14)))


HEADER_NAMES = [
    "Host", "host", "HOST", "Content-Type", "content-type", "CONTENT-TYPE", "Content-Length",
    "content-length", "Content_Type", "Content_Length", "Transfer-Encoding",
    "transfer-encoding", "Transfer_Encoding", "X-Forwarded-For", "x-forwarded-for",
    "X_Forwarded_For", "Accept", "Cookie", "cookie", "X-A", "X-a", "Http-Host", "Expect",
    "Content-Type-X", "X", "x-é", "Server-Software", "Wsgi.Input", "Request-Method",
    "Path-Info", "Script-Name", "Remote-Addr", "Content", "Type",
]
HEADER_VALUES = [
    "", "a", "text/plain", "text/html; charset=utf-8", "0", "10", "chunked", "Chunked",
    " chunked ", "CHUNKED", "chunked\t", "gzip, chunked", "chunked, gzip", "identity",
    "chunked,chunked", "example.com", "example.com:80", "a=b; c=d", "é", "\xff", "x,y",
    "100-continue", "v\r\n folded", "v\r\n\tfolded\r\n  twice", "  lead", "trail  ",
]


def gen_headers(rng: random.Random):
    lines = []
    for _ in range(rng.randint(0, 8)):
        name = rng.choice(HEADER_NAMES)
        value = rng.choice(HEADER_VALUES)
        sep = rng.choice([": ", ":", ":  ", ": \t"])
        lines.append(f"{name}{sep}{value}\r\n")
    raw = "".join(lines).encode("latin-1", "replace") + b"\r\n"
    return http.client.parse_headers(io.BytesIO(raw))


def gen_case(rng: random.Random) -> dict:
    ca = rng.random()
    if ca < 0.5:
        client_address = (rng.choice(["127.0.0.1", "::1", "fe80::1%eth0", ""]), rng.randrange(65536))
    elif ca < 0.65:
        client_address = rng.choice(["/tmp/sock", "unix", "x"])
    elif ca < 0.8:
        client_address = rng.choice(["", None, (), b""])
    elif ca < 0.9:
        client_address = ("::1", 1234, 0, 0)
    else:
        client_address = rng.choice([b"/tmp/sock", ["h", 1], ("h",)])

    conn_kind = rng.random()
    if conn_kind < 0.5:
        conn = ("plain", None)
    else:
        conn = (
            rng.choice(["none", "cert", "cert", "handshake", "attr", "oserror"]),
            bytes(rng.randrange(256) for _ in range(rng.randint(0, 80))),
        )
    return {
        "path": gen_path(rng),
        "headers_seed": rng.getrandbits(64),
        "client_address": client_address,
        "conn": conn,
        "ssl_context": rng.choice([None, None, "adhoc-ctx", 0, object]),
        "multithread": rng.choice([True, False]),
        "multiprocess": rng.choice([True, False]),
        "server_address": rng.choice(
            [("127.0.0.1", 5000), ("::", 80), ("localhost", 0), "unix:///tmp/s", ("h", 1, 0, 0)]
        ),
        "command": rng.choice(["GET", "POST", "HEAD", "PUT", "OPTIONS", "get", "FOO"]),
        "request_version": rng.choice(["HTTP/1.1", "HTTP/1.0", "HTTP/0.9", "HTTP/2.0"]),
        "pre_environ": rng.choice([None, None, None, {}, {"REMOTE_ADDR": "9.9.9.9"}]),
    }


def build_handler(case: dict, rfile):
    h = object.__new__(WSGIRequestHandler)
    h.path = case["path"]
    h.server = FakeServer(
        case["ssl_context"], case["multithread"], case["multiprocess"], case["server_address"]
    )
    ca = case["client_address"]
    h.client_address = list(ca) if isinstance(ca, list) else ca
    h.rfile = rfile
    kind, cert = case["conn"]
    h.connection = PlainConn() if kind == "plain" else TLSConn(kind, cert)
    h.command = case["command"]
    h.request_version = case["request_version"]
    h.requestline = f"{case['command']} {case['path']} {case['request_version']}"
    h.headers = gen_headers(random.Random(case["headers_seed"]))
    if case["pre_environ"] is not None:
        h.environ = dict(case["pre_environ"])
    return h


def normalise(environ: dict, handler, rfile) -> list:
    out = []
    for k, v in environ.items():  # insertion order is part of the comparison
        if k == "wsgi.input":
            if isinstance(v, DechunkedInput):
                v = ("DechunkedInput", v._rfile is rfile, v._len, v._done)
            else:
                v = ("raw", v is rfile)
        elif k == "werkzeug.socket":
            v = ("conn", v is handler.connection)
        elif k == "wsgi.errors":
            v = ("stderr", v is sys.stderr)
        out.append((k, type(v).__name__, v))
    return out


def run(fn, case: dict):
    rfile = io.BytesIO(b"5\r\nhello\r\n0\r\n\r\n")
    h = build_handler(case, rfile)
    try:
        env = fn(h)
        outcome = ("ok", normalise(env, h, rfile))
    except Exception as e:  # noqa: BLE001
        outcome = ("exc", type(e).__name__, str(e))
    conn_calls = getattr(h.connection, "calls", None)
    return (outcome, repr(h.client_address), h.server.logged, conn_calls, rfile.tell())


def main() -> int:
    assert serving.WSGIRequestHandler.make_environ is not orig_make_environ
    rng = random.Random(0xC19 + 2)
    n_cases = 30000
    mismatches = 0
    stats = {"ok": 0, "exc": 0, "chunked": 0, "absolute": 0, "netloc-path": 0, "dup": 0, "cert": 0}
    exc_kinds: dict = {}
    for i in range(n_cases):
        case = gen_case(rng)
        a = run(orig_make_environ, case)
        b = run(WSGIRequestHandler.make_environ, case)
        if a != b:
            mismatches += 1
            if mismatches <= 5:
                print("MISMATCH case", i, case)
                print("  orig:", a)
                print("  new :", b)
        if a[0][0] == "ok":
            stats["ok"] += 1
            d = {k: v for k, _, v in a[0][1]}
            if d["wsgi.input"][0] == "DechunkedInput":
                stats["chunked"] += 1
            if "SSL_CLIENT_CERT" in d:
                stats["cert"] += 1
            if any(isinstance(v, str) and "," in v and k.startswith("HTTP_") for k, v in d.items()):
                stats["dup"] += 1
            try:
                u = urlsplit(case["path"])
                if u.scheme and u.netloc:
                    stats["absolute"] += 1
                if not u.scheme and u.netloc:
                    stats["netloc-path"] += 1
            except ValueError:
                pass
        else:
            stats["exc"] += 1
            exc_kinds[a[0][1]] = exc_kinds.get(a[0][1], 0) + 1
    print(f"cases={n_cases} stats={stats} exceptions={exc_kinds}")
    if mismatches:
        print(f"FAIL: {mismatches} mismatching cases")
        return 1
    print("PASS")
    return 0


if __name__ == "__main__":
    sys.exit(main())
