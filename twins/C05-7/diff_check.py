"""Differential check for refactoring 1 (Headers.set loop restructuring).

Run: cd /tmp/wt9-C05 && PYTHONPATH=/tmp/wt9-C05/src /venv/bin/python /tmp/twin5-C05/1/diff_check.py
"""
import random

from werkzeug.datastructures import Headers
from werkzeug.datastructures.headers import _options_header_vkw
from werkzeug.datastructures.headers import _str_header_value


# ---- ORIGINAL implementation (verbatim from the unmodified tree) ----
def orig_set(self, key, value, /, **kwargs):
    if kwargs:
        value = _options_header_vkw(value, kwargs)

    value_str = _str_header_value(value)

    if not self._list:
        self._list.append((key, value_str))
        return

    iter_list = iter(self._list)
    ikey = key.lower()

    for idx, (old_key, _) in enumerate(iter_list):
        if old_key.lower() == ikey:
            # replace first occurrence
            self._list[idx] = (key, value_str)
            break
    else:
        # no existing occurrences
        self._list.append((key, value_str))
        return

    # remove remaining occurrences
    self._list[idx + 1 :] = [t for t in iter_list if t[0].lower() != ikey]


class OrigHeaders(Headers):
    set = orig_set


KEYS = [
    "Location",
    "location",
    "LOCATION",
    "Content-Length",
    "content-length",
    "Content-Type",
    "X-Foo",
    "x-foo",
    "X-Bar",
    "Set-Cookie",
    "set-cookie",
    "",
    "İ",  # lower() changes length
    "Straße",
]
ODD_KEYS = [b"x-foo", 5, None, ("a",)]
VALUES = [
    "a",
    "",
    "text/plain",
    "foo\nbar",
    "foo\rbar",
    "foo\r\nX-Injected: 1",
    "\n",
    0,
    12,
    3.5,
    None,
    b"bytes",
    b"by\ntes",
    "üñï",
    ["l", 1],
]
KWARGS = [{}, {}, {}, {"charset": "utf-8"}, {"file_name": "a b.txt"}, {"x": "a\nb"}]


def run(cls, init, raw_extra, ops):
    h = cls()
    out = []
    try:
        for k, v in init:
            h.add(k, v)
    except Exception as e:  # noqa: BLE001
        out.append(("init-exc", type(e).__name__, str(e)))
    # entries injected behind the API's back (odd keys / odd shapes)
    h._list.extend(raw_extra)
    for k, v, kw in ops:
        try:
            r = h.set(k, v, **kw)
            out.append(("ok", r, list(h._list)))
        except Exception as e:  # noqa: BLE001
            out.append(("exc", type(e).__name__, str(e), list(h._list)))
    out.append(h.to_wsgi_list() if all(isinstance(i, tuple) for i in h._list) else None)
    return out


def main():
    rnd = random.Random(50505)
    n = 0
    for i in range(12000):
        init = [
            (rnd.choice(KEYS), rnd.choice(VALUES)) for _ in range(rnd.randint(0, 8))
        ]
        raw_extra = []
        if rnd.random() < 0.15:
            for _ in range(rnd.randint(1, 3)):
                kind = rnd.random()
                if kind < 0.6:
                    raw_extra.append((rnd.choice(ODD_KEYS + KEYS), "v"))
                elif kind < 0.8:
                    raw_extra.append((rnd.choice(KEYS), "v", "extra"))
                else:
                    raw_extra.append((rnd.choice(KEYS),))
        ops = []
        for _ in range(rnd.randint(1, 5)):
            key = rnd.choice(KEYS) if rnd.random() < 0.93 else rnd.choice(ODD_KEYS)
            ops.append((key, rnd.choice(VALUES), rnd.choice(KWARGS)))
        a = run(OrigHeaders, init, raw_extra, ops)
        b = run(Headers, init, raw_extra, ops)
        if a != b:
            print("MISMATCH", init, raw_extra, ops)
            print(" orig:", a)
            print(" new :", b)
            raise SystemExit(1)
        n += 1

    # __setitem__ with str keys / setdefault / setlist route through set
    for i in range(3000):
        init = [
            (rnd.choice(KEYS), rnd.choice(["a", "b", 1])) for _ in range(rnd.randint(0, 6))
        ]
        res = []
        for cls in (OrigHeaders, Headers):
            h = cls(init)
            r = random.Random(i)
            log = []
            for _ in range(4):
                k = r.choice(KEYS)
                v = r.choice(VALUES)
                how = r.randint(0, 2)
                try:
                    if how == 0:
                        h[k] = v
                    elif how == 1:
                        log.append(h.setdefault(k, v))
                    else:
                        h.setlist(k, [v, "z"])
                except Exception as e:  # noqa: BLE001
                    log.append((type(e).__name__, str(e)))
                log.append(list(h._list))
            res.append(log)
        if res[0] != res[1]:
            print("MISMATCH (indirect)", init, res)
            raise SystemExit(1)
        n += 1
    print(f"PASS ({n} cases)")


if __name__ == "__main__":
    main()
