"""Differential check for refactoring 3 (C12):
MapAdapter.get_default_redirect and Rule.provides_defaults_for.

The ORIGINAL bodies are pasted below (orig_provides_defaults_for and
OrigAdapter.get_default_redirect, which calls the original predicate).  They
are compared with the worktree's refactored versions on generated maps:
  * provides_defaults_for on every ordered pair of rules,
  * get_default_redirect called directly (return value, raised exception type
    and the in-place mutation of ``values`` are compared),
  * MapAdapter.match end to end.
"""
from __future__ import annotations

import copy
import random
import sys
import typing as t

from werkzeug.exceptions import HTTPException
from werkzeug.routing import Map
from werkzeug.routing import Rule
from werkzeug.routing.exceptions import RequestRedirect
from werkzeug.routing.map import MapAdapter


# ---------------------------------------------------------------------------
# ORIGINAL implementation (verbatim from the unmodified tree)
# ---------------------------------------------------------------------------
def orig_provides_defaults_for(self, rule: Rule) -> bool:
    """Check if this rule has defaults for a given rule.

    :internal:
    """
    return bool(
        not self.build_only
        and self.defaults
        and self.endpoint == rule.endpoint
        and self != rule
        and self.arguments == rule.arguments
    )


class OrigAdapter(MapAdapter):
    def get_default_redirect(
        self,
        rule: Rule,
        method: str,
        values: t.MutableMapping[str, t.Any],
        query_args: t.Mapping[str, t.Any] | str,
    ) -> str | None:
        """A helper that returns the URL to redirect to if it finds one.
        This is used for default redirecting only.

        :internal:
        """
        assert self.map.redirect_defaults
        for r in self.map._rules_by_endpoint[rule.endpoint]:
            # every rule that comes after this one, including ourself
            # has a lower priority for the defaults.  We order the ones
            # with the highest priority up for building.
            if r is rule:
                break
            # (original: r.provides_defaults_for(rule))
            if orig_provides_defaults_for(r, rule) and r.suitable_for(values, method):
                values.update(r.defaults)  # type: ignore
                domain_part, path = r.build(values)  # type: ignore
                return self.make_redirect_url(path, query_args, domain_part=domain_part)
        return None


assert OrigAdapter.get_default_redirect is not MapAdapter.get_default_redirect


# ---------------------------------------------------------------------------
# generators
# ---------------------------------------------------------------------------
class OddEndpoint:
    """Endpoint whose == result is not a bool."""

    def __init__(self, tag):
        self.tag = tag

    def __eq__(self, other):
        same = isinstance(other, OddEndpoint) and other.tag == self.tag
        return [1] if same else []

    def __hash__(self):
        return hash(self.tag)

    def __repr__(self):
        return f"OddEndpoint({self.tag!r})"


ODD = [OddEndpoint("o1"), OddEndpoint("o1"), OddEndpoint("o2")]

TEMPLATES = [
    "/d", "/d/", "/d/<int:n>", "/d/<int:n>/", "/d/<int:n>/<x>", "/d/<x>",
    "/d/<x>/", "/q/<int:n>/<int:k>", "/q/<int:n>", "/q", "/q/", "/r/<x>/<int:n>/",
    "/r/<x>/", "/", "/<path:p>", "/<path:p>/n/<int:n>",
]


FAMILIES = [
    [("/d", {"n": 1}), ("/d/<int:n>", None)],
    [("/d/", {"n": 1}), ("/d/<int:n>/", None)],
    [("/q", {"n": 1, "k": 5}), ("/q/<int:n>", {"k": 5}), ("/q/<int:n>/<int:k>", None)],
    [("/r/<x>/", {"n": 1}), ("/r/<x>/<int:n>/", None)],
    [("/", {"p": "pp", "n": 2}), ("/<path:p>", {"n": 2}), ("/<path:p>/n/<int:n>", None)],
    [("/d/<x>", {"n": 2}), ("/d/<int:n>/<x>", None), ("/d", {"n": 1, "x": "dx"})],
]


def gen_family_specs(rnd):
    specs = []
    for fam in rnd.sample(FAMILIES, rnd.randint(1, 3)):
        ep = rnd.choice(["e1", "e2", 7, ODD[0], ODD[1]])
        fam = list(fam)
        if rnd.random() < 0.25:
            rnd.shuffle(fam)
        for tmpl, defaults in fam:
            kw: dict[str, t.Any] = {"endpoint": ep}
            if defaults is not None:
                kw["defaults"] = dict(defaults)
                if rnd.random() < 0.1:
                    kw["defaults"] = {}
            if rnd.random() < 0.1:
                kw["build_only"] = True
            if rnd.random() < 0.25:
                kw["methods"] = rnd.choice([["GET"], ["POST"], ["GET", "POST"]])
            if rnd.random() < 0.1:
                kw["subdomain"] = "sub"
            if rnd.random() < 0.08:
                kw["endpoint"] = rnd.choice(["e1", "e2", ODD[1], ODD[2]])
            specs.append((tmpl, kw))
    if rnd.random() < 0.2:
        specs.insert(rnd.randrange(len(specs) + 1), copy.copy(rnd.choice(specs)))
    return specs


def gen_specs(rnd):
    if rnd.random() < 0.65:
        return gen_family_specs(rnd)
    specs = []
    for _ in range(rnd.randint(2, 8)):
        tmpl = rnd.choice(TEMPLATES)
        ep = rnd.choice(["e1", "e1", "e1", "e2", 7, ODD[0], ODD[1], ODD[2]])
        kw: dict[str, t.Any] = {"endpoint": ep}
        r = rnd.random()
        if r < 0.55:
            d = {}
            for name, choices in (
                ("n", [1, 2, "1"]), ("k", [0, 5]), ("x", ["dx", "a/b"]), ("p", ["pp"])
            ):
                if f":{name}>" in tmpl or f"<{name}>" in tmpl:
                    continue
                if rnd.random() < 0.5:
                    d[name] = rnd.choice(choices)
            kw["defaults"] = d  # may be {}
        if rnd.random() < 0.12:
            kw["build_only"] = True
        if rnd.random() < 0.3:
            kw["methods"] = rnd.choice([["GET"], ["POST"], ["GET", "POST"]])
        if rnd.random() < 0.1:
            kw["subdomain"] = "sub"
        if rnd.random() < 0.1:
            kw["alias"] = True
        if rnd.random() < 0.1:
            kw["strict_slashes"] = False
        specs.append((tmpl, kw))
    if rnd.random() < 0.3:
        # exact duplicate -> rules compare equal (same _trace) but are not identical
        specs.insert(rnd.randrange(len(specs) + 1), copy.copy(rnd.choice(specs)))
    return specs


def norm(v):
    if isinstance(v, dict):
        return tuple((repr(k), norm(x)) for k, x in v.items())
    if isinstance(v, (list, tuple)):
        return tuple(norm(x) for x in v)
    return repr(v)


def call(fn, *a, **kw):
    try:
        return ("ok", fn(*a, **kw))
    except Exception as e:  # noqa: BLE001
        return ("EXC", type(e).__name__, str(e))


def gen_values(rnd, rule):
    vals = {}
    for arg in sorted(rule.arguments):
        if rnd.random() < 0.9:
            pool = {"n": [1, 1, 2, 3], "k": [5, 5, 0], "x": ["dx", "dx", "zz", "a/b"],
                    "p": ["pp", "pp", "zz"]}.get(arg, [1, "dx"])
            vals[arg] = rnd.choice(pool + ["1", 0])
    if rnd.random() < 0.2:
        vals["extra"] = "e"
    return vals


PATHS = [
    "/d", "/d/", "/d/1", "/d/1/", "/d/2", "/d/2/", "/d/1/dx", "/d/dx", "/d/zz/",
    "/q", "/q/", "/q/1", "/q/1/5", "/q/1/0", "/q/2/5", "/r/dx/1/", "/r/dx/1",
    "/r/zz/", "/r/dx/", "/", "/pp", "/pp/n/1", "/pp/n/2", "//d//1", "/d//1/",
]


def main():
    rnd = random.Random(0xC12)
    total = 0
    stats: dict[str, int] = {}

    def bump(k):
        stats[k] = stats.get(k, 0) + 1

    for _ in range(500):
        specs = gen_specs(rnd)
        try:
            m = Map([Rule(tmpl, **kw) for tmpl, kw in specs], redirect_defaults=True)
            m.update()
        except Exception:  # noqa: BLE001
            continue
        rules = list(m.iter_rules())

        # 1. the predicate, on every ordered pair
        for a in rules:
            for b in rules:
                x = call(a.provides_defaults_for, b)
                y = call(orig_provides_defaults_for, a, b)
                total += 1
                bump(f"pdf:{x[1]}" if x[0] == "ok" else "pdf:EXC")
                if x != y or type(x[1]) is not type(y[1]):
                    print("MISMATCH provides_defaults_for", specs, a, b, x, y)
                    print("FAIL")
                    return 1

        args = (
            m, "example.org", rnd.choice(["/", "/app"]), rnd.choice(["", "sub"]),
            rnd.choice(["http", "https"]), "/", "GET", rnd.choice([None, "q=1"]),
        )
        new, old = MapAdapter(*args), OrigAdapter(*args)

        # 2. get_default_redirect called directly
        for _ in range(12):
            rule = rnd.choice(rules)
            method = rnd.choice(["GET", "POST", "PUT"])
            values = gen_values(rnd, rule)
            qa = rnd.choice(["", "a=1", {"b": "c d"}, {}])
            v1, v2 = dict(values), dict(values)
            x = call(new.get_default_redirect, rule, method, v1, qa)
            y = call(old.get_default_redirect, rule, method, v2, qa)
            total += 1
            bump("gdr:" + ("EXC" if x[0] == "EXC" else "none" if x[1] is None else "url"))
            if x != y or norm(v1) != norm(v2):
                print("MISMATCH get_default_redirect", specs, rule, method, values,
                      qa, x, y, v1, v2)
                print("FAIL")
                return 1

        # 3. end to end
        for _ in range(12):
            path = rnd.choice(PATHS)
            method = rnd.choice(["GET", "POST"])
            qa = rnd.choice([None, "", "a=1", {"b": "c d"}])
            res = []
            for ad in (new, old):
                try:
                    rv = ad.match(path, method=method, query_args=qa)
                    res.append(("ok", repr(rv[0]), norm(rv[1])))
                except RequestRedirect as e:
                    res.append(("redirect", e.new_url, e.code))
                except HTTPException as e:
                    res.append(("http", type(e).__name__))
                except Exception as e:  # noqa: BLE001
                    res.append(("EXC", type(e).__name__, str(e)))
            total += 1
            bump("match:" + res[0][0])
            if res[0] != res[1]:
                print("MISMATCH match", specs, path, method, qa, res)
                print("FAIL")
                return 1

    print("cases:", total, stats)
    print("PASS")
    return 0


if __name__ == "__main__":
    sys.exit(main())
