#!/usr/bin/env python
"""Differential check for refactoring 3 (property C18).

Refactored: werkzeug.local._ProxyLookup.__get__ (nested if merged into two
guard clauses with a compound condition; unbound/fallback handling extracted
into the new private method _ProxyLookup._unbound_value, still called from
inside the ``except RuntimeError`` handler) and LocalProxy.__init__ (the two
independent prologue statements reordered; the parameter is no longer
rebound, the default message lives in a new local captured by the closures).

Run:  cd /tmp/wt9-C18 && PYTHONPATH=/tmp/wt9-C18/src /venv/bin/python /tmp/twin5-C18/3/diff_check.py
"""
import sys
import typing as t

sys.path.insert(0, "/tmp/wt9-C18/src")

T = t.TypeVar("T")


# ---- ORIGINAL implementation, pasted from the unmodified tree (only the
# signature type annotations were dropped) -------------------------------------
# (free names such as Local, LocalStack, ContextVar, attrgetter, _identity are
# resolved in the globals of the private module copy, see rebind())
# flake8: noqa: F821
class _ProxyLookup:
    def __get__(self, instance, owner=None):
        if instance is None:
            if self.class_value is not None:
                return self.class_value

            return self

        try:
            obj = instance._get_current_object()
        except RuntimeError:
            if self.fallback is None:
                raise

            fallback = self.fallback.__get__(instance, owner)

            if self.is_attr:
                # __class__ and __doc__ are attributes, not methods.
                # Call the fallback to get the value.
                return fallback()

            return fallback

        if self.bind_f is not None:
            return self.bind_f(instance, obj)

        return getattr(obj, self.name)


class LocalProxy:
    def __init__(
        self,
        local,
        name=None,
        *,
        unbound_message=None,
    ) -> None:
        if name is None:
            get_name = _identity
        else:
            get_name = attrgetter(name)  # type: ignore[assignment]

        if unbound_message is None:
            unbound_message = "object is not bound"

        if isinstance(local, Local):
            if name is None:
                raise TypeError("'name' is required when proxying a 'Local' object.")

            def _get_current_object() -> T:
                try:
                    return get_name(local)  # type: ignore[return-value]
                except AttributeError:
                    raise RuntimeError(unbound_message) from None

        elif isinstance(local, LocalStack):

            def _get_current_object() -> T:
                obj = local.top

                if obj is None:
                    raise RuntimeError(unbound_message)

                return get_name(obj)

        elif isinstance(local, ContextVar):

            def _get_current_object() -> T:
                try:
                    obj = local.get()
                except LookupError:
                    raise RuntimeError(unbound_message) from None

                return get_name(obj)

        elif callable(local):

            def _get_current_object() -> T:
                return get_name(local())

        else:
            raise TypeError(f"Don't know how to proxy '{type(local)}'.")

        object.__setattr__(self, "_LocalProxy__wrapped", local)
        object.__setattr__(self, "_get_current_object", _get_current_object)


ORIGINALS = {
    "_ProxyLookup": {"__get__": _ProxyLookup.__dict__["__get__"]},
    "LocalProxy": {"__init__": LocalProxy.__dict__["__init__"]},
}
del _ProxyLookup, LocalProxy

# --------------------------------------------------------------------------
# Generic differential harness (identical in the three diff_check.py files).
# Two "worlds" are built: NEW = werkzeug.local from the worktree, ORIG = a
# second, private copy of the same module file whose refactored functions
# have been replaced by the pasted ORIGINAL implementations above.  The same
# randomly generated programme (operations on a Local, a LocalStack, a
# LocalManager, a ContextVar and many LocalProxy objects, executed in several
# sibling / child execution contexts under a randomly chosen interleaving) is
# run on both worlds and the complete traces are compared.
# --------------------------------------------------------------------------
import asyncio
import contextvars
import copy as _copy
import importlib.util
import queue
import random
import re
import sys
import threading
import types

WT_LOCAL = "/tmp/wt9-C18/src/werkzeug/local.py"
_ADDR = re.compile(r" at 0x[0-9a-fA-F]+")


def load_private_copy(name):
    import werkzeug  # noqa: F401  (package must exist for the relative import)

    spec = importlib.util.spec_from_file_location(name, WT_LOCAL)
    mod = importlib.util.module_from_spec(spec)
    mod.__package__ = "werkzeug"
    sys.modules[name] = mod
    spec.loader.exec_module(mod)
    return mod


def rebind(func, mod):
    """Give a pasted function the globals of module *mod*."""
    new = types.FunctionType(
        func.__code__, mod.__dict__, func.__name__, func.__defaults__, func.__closure__
    )
    new.__kwdefaults__ = func.__kwdefaults__
    new.__qualname__ = func.__qualname__
    new.__doc__ = func.__doc__
    return new


POOL = [0, 1, -3, 7, "x", "hello", "", None, [1, 2], [], (1,), 2.5, 3 + 4j, True, {"k": 1}]
NAMES = ["a", "b", "c", "real", "_x", "__storage", "_Local__storage"]
PROXY_OPS = [
    "bool", "repr", "str", "cur", "add1", "radd", "len", "dir", "class", "doc",
    "wrapped", "eq", "iadd", "ucall", "getattr", "isinstance", "copy", "hash",
    "iter", "getitem", "setattr", "format",
]


class World:
    def __init__(self, mod):
        self.mod = mod
        m = mod
        self.local = m.Local()
        self.stack = m.LocalStack()
        self.cv = contextvars.ContextVar("c18cv")
        self.ext_dict_cv = contextvars.ContextVar("c18extd")
        self.ext_list_cv = contextvars.ContextVar("c18extl")
        self.local2 = m.Local(self.ext_dict_cv)
        self.stack2 = m.LocalStack(self.ext_list_cv)
        self.manager = m.LocalManager([self.local, self.stack])
        self.manager2 = m.LocalManager(self.local2)
        self.manager3 = m.LocalManager()
        L, S, CV = self.local, self.stack, self.cv
        self.proxies = [
            L("a"),
            L("a.real"),
            L("b", unbound_message="no b"),
            S(),
            S("imag"),
            S(unbound_message="empty"),
            m.LocalProxy(CV),
            m.LocalProxy(CV, "real"),
            m.LocalProxy(CV, unbound_message="nocv"),
            m.LocalProxy(lambda: L.a),
            m.LocalProxy(lambda: S.top, "real"),
            self.local2("a"),
            self.stack2(),
        ]
        self.proxies.append(m.LocalProxy(self.proxies[0]))
        self.proxies.append(m.LocalProxy(self.proxies[3], "real"))
        self.tokens = []

    def locals_(self, which):
        return (self.local, self.local2)[which]

    def stacks(self, which):
        return (self.stack, self.stack2)[which]

    def lvar(self, which):
        return object.__getattribute__(self.locals_(which), "_Local__storage")

    def svar(self, which):
        return self.stacks(which)._storage


def norm(w, x):
    is_proxy = type(x) is w.mod.LocalProxy
    tx = type(x)
    if not is_proxy and issubclass(
        tx, (w.mod.Local, w.mod.LocalStack, w.mod._ProxyLookup, contextvars.ContextVar)
    ):
        return (False, tx.__name__)
    if not is_proxy and not isinstance(x, type) and callable(x):
        return (False, "callable:" + getattr(x, "__name__", tx.__name__))
    try:
        r = repr(x)
    except BaseException as e:  # unbound proxies etc.
        r = "reprfail:" + type(e).__name__
    return (is_proxy, scrub(w, r))


def scrub(w, text):
    """Remove the only legitimately differing parts: module name of the
    private copy and memory addresses."""
    return _ADDR.sub(" at 0xADDR", text.replace(w.mod.__name__, "MOD"))


def safe_bool(p):
    try:
        return bool(p)
    except BaseException as e:
        return type(e).__name__


def capture(w, fn):
    try:
        return ("ok", norm(w, fn()))
    except BaseException as e:
        return (
            "exc",
            type(e).__name__,
            scrub(w, str(e)),
            type(e.__context__).__name__,
            type(e.__cause__).__name__,
            e.__suppress_context__,
        )


_MISSING = object()


def with_storage_check(w, var, fn):
    """Run fn; also report whether the object held by the context var was
    replaced and verify the previously held object was not mutated."""
    before = var.get(_MISSING)
    before_copy = _copy.copy(before) if before is not _MISSING else None
    res = capture(w, fn)
    after = var.get(_MISSING)
    same = before is after
    untouched = before is _MISSING or before == before_copy
    after_t = None if after is _MISSING else (type(after).__name__, repr(after))
    return (res, same, untouched, after_t)


def proxy_op(w, p, what, val):
    m = w.mod
    if what == "bool":
        return bool(p)
    if what == "repr":
        return repr(p)
    if what == "str":
        return str(p)
    if what == "cur":
        return p._get_current_object()
    if what == "add1":
        return p + 1
    if what == "radd":
        return 1 + p
    if what == "len":
        return len(p)
    if what == "dir":
        return len(dir(p))
    if what == "class":
        return p.__class__.__name__
    if what == "doc":
        d = p.__doc__
        return None if d is None else d[:25]
    if what == "wrapped":
        return type(p.__wrapped__).__name__
    if what == "eq":
        return p == val
    if what == "iadd":
        q = p
        q += [5] if isinstance(val, list) else 1
        return (q is p, repr(q))
    if what == "ucall":
        return type(p).__repr__(p)
    if what == "getattr":
        return p.real
    if what == "isinstance":
        return (isinstance(p, int), isinstance(p, m.LocalProxy), isinstance(p, m.Local))
    if what == "copy":
        return _copy.copy(p)
    if what == "hash":
        return hash(p)
    if what == "iter":
        return list(iter(p))
    if what == "getitem":
        return p[0]
    if what == "setattr":
        p.zzz = 1
        return None
    if what == "format":
        return format(p, "")
    raise AssertionError(what)


def mkproxy(w, variant, name_i):
    m = w.mod
    L, S, CV = w.local, w.stack, w.cv
    # (the slot name is excluded here: a proxy to the ContextVar itself has an
    # id-based repr/hash that legitimately differs between two worlds)
    name = NAMES[name_i % (len(NAMES) - 1)]
    if variant == 0:
        return m.LocalProxy(L)  # TypeError: name required
    if variant == 1:
        return m.LocalProxy(L, name)
    if variant == 2:
        return m.LocalProxy(5)  # TypeError
    if variant == 3:
        return m.LocalProxy(S, 5)  # TypeError from attrgetter
    if variant == 4:
        return m.LocalProxy(CV, None, unbound_message="m")
    if variant == 5:
        return m.LocalProxy(S, name)
    if variant == 6:
        return m.LocalProxy(L, 5)  # TypeError from attrgetter (before name check)
    if variant == 7:
        return m.LocalProxy(None, unbound_message="q")  # TypeError
    if variant == 8:
        return m.LocalProxy(lambda: S.top, name, unbound_message="z")
    if variant == 9:
        return m.LocalProxy(w.proxies[name_i % len(w.proxies)])
    if variant == 10:
        return m.LocalProxy(S, unbound_message="")
    if variant == 11:
        return L(name, unbound_message="lm")
    raise AssertionError(variant)


def do(w, op):
    """Execute one operation (inside the selected execution context)."""
    k = op[0]
    m = w.mod
    if k == "snap":
        out = []
        for i in (0, 1):
            d = w.lvar(i).get(_MISSING)
            s = w.svar(i).get(_MISSING)
            out.append(None if d is _MISSING else (type(d).__name__, list(d.items()).__repr__()))
            out.append(None if s is _MISSING else (type(s).__name__, repr(s)))
            out.append(repr(list(w.locals_(i))))
            out.append(repr(w.stacks(i).top))
        out.append(repr(w.cv.get("<unset>")))
        out.append(tuple(safe_bool(p) for p in w.proxies))
        return tuple(out)
    if k == "lset":
        L = w.locals_(op[1])
        v = _copy.deepcopy(POOL[op[3]])
        return with_storage_check(w, w.lvar(op[1]), lambda: setattr(L, NAMES[op[2]], v))
    if k == "lget":
        L = w.locals_(op[1])
        return capture(w, lambda: getattr(L, NAMES[op[2]]))
    if k == "ldel":
        L = w.locals_(op[1])
        return with_storage_check(w, w.lvar(op[1]), lambda: delattr(L, NAMES[op[2]]))
    if k == "lrel":
        L = w.locals_(op[1])
        if op[2]:
            return with_storage_check(w, w.lvar(op[1]), lambda: m.release_local(L))
        return with_storage_check(w, w.lvar(op[1]), lambda: L.__release_local__())
    if k == "push":
        S = w.stacks(op[1])
        v = _copy.deepcopy(POOL[op[2]])

        def f():
            rv = S.push(v)
            return (repr(rv), rv is w.svar(op[1]).get(), type(rv).__name__)

        return with_storage_check(w, w.svar(op[1]), f)
    if k == "pop":
        S = w.stacks(op[1])
        return with_storage_check(w, w.svar(op[1]), S.pop)
    if k == "top":
        S = w.stacks(op[1])
        return capture(w, lambda: S.top)
    if k == "srel":
        S = w.stacks(op[1])
        if op[2]:
            return with_storage_check(w, w.svar(op[1]), lambda: m.release_local(S))
        return with_storage_check(w, w.svar(op[1]), lambda: S.__release_local__())
    if k == "cleanup":
        mgr = (w.manager, w.manager2, w.manager3)[op[1]]
        a = with_storage_check(w, w.lvar(0), mgr.cleanup)
        return (a, scrub(w, repr(mgr)))
    if k == "badmgr":
        # a manager holding a non-local in the middle: the first local must be
        # released, the error raised, the last one left alone.
        mgr = m.LocalManager([w.local, 5, w.stack])
        return (capture(w, mgr.cleanup), repr(list(w.local)), repr(w.stack.top))
    if k == "mw":
        # middleware releases the locals of the context that closes the iterable
        def app(environ, start_response):
            w.local.mw = 1
            return [b"x"]

        wrapped = w.manager.make_middleware(app)
        it = wrapped({}, None)
        body = list(it)
        before = repr(list(w.local))
        it.close()
        return (body, before, repr(list(w.local)), repr(w.stack.top))
    if k == "cvset":
        v = _copy.deepcopy(POOL[op[1]])
        w.cv.set(v)
        return None
    if k == "extset":
        # user-managed context vars handed to Local / LocalStack
        if op[1] == 0:
            w.ext_dict_cv.set({"a": _copy.deepcopy(POOL[op[2]]), "z": 0})
        else:
            w.ext_list_cv.set([_copy.deepcopy(POOL[op[2]]), 9])
        return None
    if k == "pop_":
        p = w.proxies[op[1] % len(w.proxies)]
        v = _copy.deepcopy(POOL[op[3]])
        return capture(w, lambda: proxy_op(w, p, PROXY_OPS[op[2]], v))
    if k == "mk":
        def f():
            p = mkproxy(w, op[1], op[2])
            w.proxies.append(p)
            return (bool(p), type(p).__name__)

        return capture(w, f)
    if k == "cls":
        LP = m.LocalProxy
        d = LP.__dict__["__repr__"]
        return (
            capture(w, lambda: repr(LP.__repr__)),
            capture(w, lambda: LP.__doc__[:20]),
            capture(w, lambda: repr(LP.__class__)),
            capture(w, lambda: repr(LP.__wrapped__)),
            capture(w, lambda: d.__get__(None, None) is d),
            capture(w, lambda: LP.__dict__["__doc__"].__get__(None, LP)[:10]),
            capture(w, lambda: LP.__bool__(w.proxies[op[1] % len(w.proxies)])),
            capture(w, lambda: LP.__repr__(w.proxies[op[1] % len(w.proxies)])),
            capture(w, lambda: LP.__add__(w.proxies[op[1] % len(w.proxies)], 2)),
        )
    raise AssertionError(op)


def gen_program(rng, length, max_ctx):
    n = 1
    steps = []
    for _ in range(length):
        i = rng.randrange(n)
        r = rng.random()
        if r < 0.08 and n < max_ctx:
            steps.append((i, ("fork",)))
            n += 1
        elif r < 0.22:
            steps.append((i, ("lset", rng.randrange(2), rng.randrange(len(NAMES)), rng.randrange(len(POOL)))))
        elif r < 0.27:
            steps.append((i, ("lget", rng.randrange(2), rng.randrange(len(NAMES)))))
        elif r < 0.35:
            steps.append((i, ("ldel", rng.randrange(2), rng.randrange(len(NAMES)))))
        elif r < 0.39:
            steps.append((i, ("lrel", rng.randrange(2), rng.randrange(2))))
        elif r < 0.51:
            steps.append((i, ("push", rng.randrange(2), rng.randrange(len(POOL)))))
        elif r < 0.59:
            steps.append((i, ("pop", rng.randrange(2))))
        elif r < 0.62:
            steps.append((i, ("top", rng.randrange(2))))
        elif r < 0.65:
            steps.append((i, ("srel", rng.randrange(2), rng.randrange(2))))
        elif r < 0.69:
            steps.append((i, ("cleanup", rng.randrange(3))))
        elif r < 0.70:
            steps.append((i, ("badmgr",)))
        elif r < 0.71:
            steps.append((i, ("mw",)))
        elif r < 0.75:
            steps.append((i, ("cvset", rng.randrange(len(POOL)))))
        elif r < 0.78:
            steps.append((i, ("extset", rng.randrange(2), rng.randrange(len(POOL)))))
        elif r < 0.93:
            steps.append((i, ("pop_", rng.randrange(64), rng.randrange(len(PROXY_OPS)), rng.randrange(len(POOL)))))
        elif r < 0.98:
            steps.append((i, ("mk", rng.randrange(12), rng.randrange(64))))
        else:
            steps.append((i, ("cls", rng.randrange(64))))
        # after every step, snapshot what every context can see
        for j in range(n):
            steps.append((j, ("snap",)))
    return steps


def run_ctx(w, steps):
    ctxs = [contextvars.copy_context()]
    out = []
    for i, op in steps:
        if op[0] == "fork":
            ctxs.append(ctxs[i].run(contextvars.copy_context))
            out.append("forked")
        else:
            out.append(ctxs[i].run(do, w, op))
    return out


def run_threads(w, steps):
    """Each context is a real thread; a child thread is *started by* thread i
    (and therefore begins with an empty context).  Interleaving is driven
    deterministically from the main thread."""
    workers = []

    def worker(inq, outq):
        while True:
            item = inq.get()
            if item is None:
                return
            if item == "fork":
                spawn()
                outq.put("forked")
            else:
                outq.put(do(w, item))

    def spawn():
        inq, outq = queue.Queue(), queue.Queue()
        t = threading.Thread(target=worker, args=(inq, outq), daemon=True)
        t.start()
        workers.append((t, inq, outq))

    spawn()
    out = []
    for i, op in steps:
        t, inq, outq = workers[i]
        inq.put("fork" if op[0] == "fork" else op)
        out.append(outq.get(timeout=30))
    for t, inq, outq in workers:
        inq.put(None)
    for t, inq, outq in workers:
        t.join()
    return out


def run_asyncio(w, steps):
    """Each context is an asyncio task; a child task is created by task i and
    inherits a snapshot of task i's context."""

    async def main():
        loop = asyncio.get_running_loop()
        queues = []
        tasks = []

        async def worker(q):
            while True:
                item, fut = await q.get()
                if item is None:
                    return
                if item == "fork":
                    nq = asyncio.Queue()
                    queues.append(nq)
                    tasks.append(asyncio.ensure_future(worker(nq)))
                    fut.set_result("forked")
                else:
                    fut.set_result(do(w, item))

        q0 = asyncio.Queue()
        queues.append(q0)
        tasks.append(asyncio.ensure_future(worker(q0)))
        out = []
        for i, op in steps:
            fut = loop.create_future()
            await queues[i].put(("fork" if op[0] == "fork" else op, fut))
            out.append(await fut)
        for q in queues:
            await q.put((None, None))
        await asyncio.gather(*tasks)
        return out

    return asyncio.run(main())


def check_isolation(steps, trace):
    """Sanity check of the property itself on a trace (ctx/asyncio backends):
    an operation in context i never changes the snapshot of a context j != i."""
    last = {}
    cur_actor = None
    bad = 0
    for (i, op), res in zip(steps, trace):
        if op[0] == "snap":
            if i in last and i != cur_actor and last[i] != res and cur_kind not in ("pop_", "mk"):
                bad += 1
            last[i] = res
        else:
            cur_actor = i
            cur_kind = op[0]
            if op[0] == "fork":
                cur_actor = None
                last.clear()
    return bad


def main(new_mod, orig_mod, n_ctx=2500, n_thread=120, n_async=250, seed=1805):
    rng = random.Random(seed)
    total_ops = 0
    mismatches = 0
    leaks = 0
    for backend, count in ((run_ctx, n_ctx), (run_threads, n_thread), (run_asyncio, n_async)):
        for _ in range(count):
            steps = gen_program(rng, rng.randrange(10, 45), 5)
            t_new = backend(World(new_mod), steps)
            t_old = backend(World(orig_mod), steps)
            total_ops += len(steps)
            if t_new != t_old:
                mismatches += 1
                if mismatches <= 3:
                    for (i, op), a, b in zip(steps, t_new, t_old):
                        if a != b:
                            print("MISMATCH", backend.__name__, i, op, "\n  new:", a, "\n  old:", b)
                            break
            leaks += check_isolation(steps, t_new)
    print(f"programmes: {n_ctx + n_thread + n_async}, executed steps per world: {total_ops}, "
          f"mismatching programmes: {mismatches}, isolation violations (new): {leaks}")
    if mismatches == 0 and leaks == 0:
        print("PASS")
        return 0
    print("FAIL")
    return 1


if __name__ == "__main__":
    import werkzeug.local as new_mod

    assert new_mod.__file__ == WT_LOCAL, new_mod.__file__
    orig_mod = load_private_copy("werkzeug._c18_orig_local")
    for cls_name, funcs in ORIGINALS.items():
        for fname, func in funcs.items():
            cls = getattr(orig_mod, cls_name) if cls_name else None
            if cls is None:
                setattr(orig_mod, fname, rebind(func, orig_mod))
            else:
                cur = getattr(new_mod, cls_name).__dict__[fname]
                if cur.__code__.co_code == func.__code__.co_code and cur.__code__.co_consts == func.__code__.co_consts:
                    print(f"NOTE: {cls_name}.{fname} in the worktree is identical to the "
                          "original (refactoring patch not applied?)")
                type.__setattr__(cls, fname, rebind(func, orig_mod))
    sys.exit(main(new_mod, orig_mod))
