"""Differential check for refactoring 3 (C04): converter to_url / to_python pairs
(UnicodeConverter, AnyConverter, NumberConverter and subclasses) and Rule._encode_query_vars.

Runs a few thousand generated build/match scenarios twice in one process: first with
the worktree (refactored) code, then with the ORIGINAL converter classes / function (pasted
below) installed as the map's default converters, and compares every recorded output /
exception type.

Run: cd /tmp/wt5-C04 && PYTHONPATH=/tmp/wt5-C04/src /venv/bin/python /tmp/twin3-C04/3/diff_check.py [seed [n_maps]]
"""
from __future__ import annotations

import werkzeug.routing.rules as rules_mod
import werkzeug.routing.converters as conv_mod

# ORIGINAL implementation, copied verbatim from src/werkzeug/routing/rules.py (unmodified tree)
ORIG_RULES = r'''
def _encode_query_vars(self, query_vars: t.Mapping[str, t.Any]) -> str:
    items: t.Iterable[tuple[str, str]] = iter_multi_items(query_vars)

    if self.map.sort_parameters:
        items = sorted(items, key=self.map.sort_key)

    return _urlencode(items)
'''

# ORIGINAL implementation, copied verbatim from src/werkzeug/routing/converters.py (unmodified tree)
ORIG_CONV = r'''
class UnicodeConverter(BaseConverter):
    """This converter is the default converter and accepts any string but
    only one path segment.  Thus the string can not include a slash.

    This is the default validator.

    Example::

        Rule('/pages/<page>'),
        Rule('/<string(length=2):lang_code>')

    :param map: the :class:`Map`.
    :param minlength: the minimum length of the string.  Must be greater
                      or equal 1.
    :param maxlength: the maximum length of the string.
    :param length: the exact length of the string.
    """

    def __init__(
        self,
        map: Map,
        minlength: int = 1,
        maxlength: int | None = None,
        length: int | None = None,
    ) -> None:
        super().__init__(map)
        if length is not None:
            length_regex = f"{{{int(length)}}}"
        else:
            if maxlength is None:
                maxlength_value = ""
            else:
                maxlength_value = str(int(maxlength))
            length_regex = f"{{{int(minlength)},{maxlength_value}}}"
        self.regex = f"[^/]{length_regex}"


class AnyConverter(BaseConverter):
    """Matches one of the items provided.  Items can either be Python
    identifiers or strings::

        Rule('/<any(about, help, imprint, class, "foo,bar"):page_name>')

    :param map: the :class:`Map`.
    :param items: this function accepts the possible items as positional
                  arguments.

    .. versionchanged:: 2.2
        Value is validated when building a URL.
    """

    def __init__(self, map: Map, *items: str) -> None:
        super().__init__(map)
        self.items = set(items)
        self.regex = f"(?:{'|'.join([re.escape(x) for x in items])})"

    def to_url(self, value: t.Any) -> str:
        if value in self.items:
            return BaseConverter.to_url(self, value)

        valid_values = ", ".join(f"'{item}'" for item in sorted(self.items))
        raise ValueError(f"'{value}' is not one of {valid_values}")


class NumberConverter(BaseConverter):
    """Baseclass for `IntegerConverter` and `FloatConverter`.

    :internal:
    """

    weight = 50
    num_convert: t.Callable[[t.Any], t.Any] = int

    def __init__(
        self,
        map: Map,
        fixed_digits: int = 0,
        min: int | None = None,
        max: int | None = None,
        signed: bool = False,
    ) -> None:
        if signed:
            self.regex = self.signed_regex
        super().__init__(map)
        self.fixed_digits = fixed_digits
        self.min = min
        self.max = max
        self.signed = signed

    def to_python(self, value: str) -> t.Any:
        if self.fixed_digits and len(value) != self.fixed_digits:
            raise ValidationError()
        value_num = self.num_convert(value)
        if (self.min is not None and value_num < self.min) or (
            self.max is not None and value_num > self.max
        ):
            raise ValidationError()
        return value_num

    def to_url(self, value: t.Any) -> str:
        value_str = str(self.num_convert(value))
        if self.fixed_digits:
            value_str = value_str.zfill(self.fixed_digits)
        return value_str

    @property
    def signed_regex(self) -> str:
        return f"-?{self.regex}"


class IntegerConverter(NumberConverter):
    """This converter only accepts integer values::

        Rule("/page/<int:page>")

    By default it only accepts unsigned, positive values. The ``signed``
    parameter will enable signed, negative values. ::

        Rule("/page/<int(signed=True):page>")

    :param map: The :class:`Map`.
    :param fixed_digits: The number of fixed digits in the URL. If you
        set this to ``4`` for example, the rule will only match if the
        URL looks like ``/0001/``. The default is variable length.
    :param min: The minimal value.
    :param max: The maximal value.
    :param signed: Allow signed (negative) values.

    .. versionadded:: 0.15
        The ``signed`` parameter.
    """

    regex = r"\d+"


class FloatConverter(NumberConverter):
    """This converter only accepts floating point values::

        Rule("/probability/<float:probability>")

    By default it only accepts unsigned, positive values. The ``signed``
    parameter will enable signed, negative values. ::

        Rule("/offset/<float(signed=True):offset>")

    :param map: The :class:`Map`.
    :param min: The minimal value.
    :param max: The maximal value.
    :param signed: Allow signed (negative) values.

    .. versionadded:: 0.15
        The ``signed`` parameter.
    """

    regex = r"\d+\.\d+"
    num_convert = float

    def __init__(
        self,
        map: Map,
        min: float | None = None,
        max: float | None = None,
        signed: bool = False,
    ) -> None:
        super().__init__(map, min=min, max=max, signed=signed)  # type: ignore
'''


def _load(mod, text, label):
    ns = dict(vars(mod))
    code = compile("from __future__ import annotations\n" + text, label, "exec")
    exec(code, ns)
    return ns


def patch_originals():
    rules = _load(rules_mod, ORIG_RULES, "<original rules>")
    conv = _load(conv_mod, ORIG_CONV, "<original conv>")
    rules_mod.Rule._encode_query_vars = rules["_encode_query_vars"]
    import werkzeug.routing.map as map_mod
    from werkzeug.datastructures import ImmutableDict
    orig = dict(map_mod.Map.default_converters)
    orig.update({"default": conv["UnicodeConverter"], "string": conv["UnicodeConverter"], "any": conv["AnyConverter"], "int": conv["IntegerConverter"], "float": conv["FloatConverter"]})
    map_mod.Map.default_converters = ImmutableDict(orig)


# --------------------------------------------------------------------------
# shared scenario generator / recorder (identical in all three diff checks)
# --------------------------------------------------------------------------
import random
import sys
import uuid
from urllib.parse import unquote
from urllib.parse import urlsplit

from werkzeug.datastructures import MultiDict
from werkzeug.exceptions import HTTPException
from werkzeug.routing import EndpointPrefix
from werkzeug.routing import Map
from werkzeug.routing import RequestRedirect
from werkzeug.routing import Rule
from werkzeug.routing import Subdomain
from werkzeug.routing import Submount

ALPHABET = (
    "abcXYZ019 -_.~;?#%&=+:@!$'()*,|<>[]{}\\^`\""
    "üéä日本語\U0001f600Ж"
)
SERVER = "example.com"


def _text(rng, lo=1, hi=8):
    return "".join(rng.choice(ALPHABET) for _ in range(rng.randint(lo, hi)))


def _int_value(rng, signed=False, digits=None):
    r = rng.random()
    if digits and r < 0.8:
        v = rng.randint(0, 10**digits - 1)
    elif r < 0.5:
        v = rng.randint(0, 20)
    elif r < 0.8:
        v = rng.randint(0, 10**6)
    else:
        v = rng.randint(10**15, 10**25)
    if signed and rng.random() < 0.5:
        v = -v
    return v


def _float_value(rng, signed=False):
    r = rng.random()
    if r < 0.4:
        v = round(rng.uniform(0, 1000), rng.randint(0, 6))
    elif r < 0.6:
        v = float(rng.randint(0, 10**6))
    elif r < 0.8:
        v = rng.uniform(0, 1)
    elif r < 0.9:
        v = rng.uniform(0, 1e-7)  # non positional repr
    else:
        v = rng.uniform(1e15, 1e22)
    if signed and rng.random() < 0.5:
        v = -v
    return v


def _path_value(rng):
    segs = [_text(rng, 1, 5) for _ in range(rng.randint(1, 4))]
    v = "/".join(segs)
    r = rng.random()
    if r < 0.05:
        v = "/" + v
    elif r < 0.1:
        v = v + "/"
    elif r < 0.15:
        v = v.replace("/", "//", 1)
    return v


ANY_ITEMS = ["about", "help", "a b", "x;y", "über"]

# (converter spec, generator)
CONVERTERS = [
    ("string", lambda r: _text(r)),
    ("", lambda r: _text(r)),
    ("string(length=3)", lambda r: _text(r, 3, 3) if r.random() < 0.9 else _text(r)),
    (
        "string(minlength=2,maxlength=5)",
        lambda r: _text(r, 2, 5) if r.random() < 0.9 else _text(r, 1, 9),
    ),
    ("string(minlength=3)", lambda r: _text(r, 3, 9)),
    ("int", lambda r: _int_value(r)),
    ("int(signed=True)", lambda r: _int_value(r, signed=True)),
    ("int(fixed_digits=4)", lambda r: _int_value(r, digits=4)),
    ("int(fixed_digits=3, signed=True)", lambda r: _int_value(r, True, 3)),
    ("int(min=3, max=500)", lambda r: r.randint(0, 600)),
    ("float", lambda r: _float_value(r)),
    ("float(signed=True)", lambda r: _float_value(r, signed=True)),
    ("float(min=1.5, max=100.0)", lambda r: round(r.uniform(0, 120), 3)),
    (
        "any(about, help, 'a b', 'x;y', 'über')",
        lambda r: r.choice(ANY_ITEMS) if r.random() < 0.9 else _text(r),
    ),
    ("uuid", lambda r: uuid.UUID(int=r.getrandbits(128))),
]
PATH_CONVERTER = ("path", _path_value)

WRONG_VALUES = [
    "abc",
    "",
    None,
    -1,
    1.5,
    "1.5",
    "12",
    [1, 2],
    ["x"],
    [],
    (),
    True,
    b"bytes",
    "a/b",
    "/",
    "ü",
    str(uuid.UUID(int=5)),
    float("inf"),
    float("nan"),
    {"k": "v"},
]
EXTRA_KEYS = ["q", "page", "x y", "ü", "a&b", "z", "_", "id"]
EXTRA_VALUES = [
    "v",
    "a b",
    "ü日",
    "a&b=c",
    "?#%;+",
    1,
    2.5,
    None,
    True,
    ["a", "b"],
    ["b", "a", None],
    [],
    ("t", 1),
    b"by tes",
    "",
    uuid.UUID(int=7),
]


class RuleSpec:
    pass


def make_map(rng):
    """Return (map_factory_args, specs) describing a random map.  The actual
    Map is created by build_map so that both universes create fresh objects."""
    host_matching = rng.random() < 0.25
    specs = []
    n = rng.randint(2, 5)
    for i in range(n):
        sp = RuleSpec()
        first = f"s{i}"
        if rng.random() < 0.3:
            first += rng.choice([" x", ";p", "ü", "%41", "+", "|", "@:", "~^"])
        pool = list(CONVERTERS)
        nvars = rng.randint(0, 3)
        parts = ["", first]
        sp.vars = []
        for j in range(nvars):
            conv, gen = rng.choice(pool)
            name = f"v{j}"
            sp.vars.append((name, conv, gen))
            var = f"<{conv}:{name}>" if conv else f"<{name}>"
            r = rng.random()
            if r < 0.6 or j == 0:
                parts.append(var)
            elif r < 0.8:
                parts.append(rng.choice(["lit", "l t", "é;"]))
                parts.append(var)
            else:
                parts[-1] = parts[-1] + rng.choice(["-", ".", "~", " "]) + var
        if rng.random() < 0.3:
            name = "p"
            sp.vars.append((name,) + PATH_CONVERTER)
            parts.append(f"<path:{name}>")
            if rng.random() < 0.4:
                parts.append("edit")
        rule = "/".join(parts)
        if rng.random() < 0.3:
            rule += "/"
        if rng.random() < 0.1:
            rule = rule.replace("/", "//", 1) if rule.count("/") > 1 else rule
        sp.rule = rule
        sp.endpoint = f"ep{i}"
        sp.kwargs = {}
        r = rng.random()
        if r < 0.25:
            sp.kwargs["methods"] = rng.choice(
                [["GET"], ["POST"], ["GET", "POST"], ["PUT", "DELETE"]]
            )
        if rng.random() < 0.1:
            sp.kwargs["websocket"] = True
            sp.kwargs.pop("methods", None)
        if rng.random() < 0.1:
            sp.kwargs["build_only"] = True
        if rng.random() < 0.15:
            sp.kwargs["strict_slashes"] = rng.choice([True, False])
        if rng.random() < 0.1:
            sp.kwargs["merge_slashes"] = rng.choice([True, False])
        sp.domain_vars = []
        if host_matching:
            r = rng.random()
            if r < 0.4:
                sp.kwargs["host"] = SERVER
            elif r < 0.6:
                sp.kwargs["host"] = "other.org"
            elif r < 0.85:
                sp.kwargs["host"] = "<string:h>.example.com"
                sp.domain_vars.append(("h", "string", lambda r: _text(r, 1, 4)))
            else:
                sp.kwargs["host"] = "<any(about, help):h>.<int:n>.org"
                sp.domain_vars.append(("h", "any", lambda r: r.choice(ANY_ITEMS)))
                sp.domain_vars.append(("n", "int", lambda r: _int_value(r)))
        else:
            r = rng.random()
            if r < 0.15:
                sp.kwargs["subdomain"] = "static"
            elif r < 0.3:
                sp.kwargs["subdomain"] = "<string:sub>"
                sp.domain_vars.append(("sub", "string", lambda r: _text(r, 1, 4)))
            elif r < 0.4:
                sp.kwargs["subdomain"] = "<int:n>.api"
                sp.domain_vars.append(("n", "int", lambda r: _int_value(r)))
        # defaults companion rule
        sp.default_rule = None
        r = rng.random()
        if r < 0.3:
            dname = "page"
            dconv, dgen = rng.choice(
                [
                    ("int", lambda r: r.randint(1, 3)),
                    ("string", lambda r: r.choice(["a", "b c", "ü"])),
                    ("float", lambda r: r.choice([1.0, 2.5])),
                ]
            )
            dval = dgen(rng)
            base = sp.rule.rstrip("/")
            sp.default_rule = (base + "/", {dname: dval})
            sp.rule = f"{base}/pg/<{dconv}:{dname}>"
            sp.vars.append((dname, dconv, dgen))
            if rng.random() < 0.3:
                # default for a variable that appears in the rule itself
                sp.kwargs["defaults"] = {dname: dval}
        sp.alias = rng.random() < 0.1
        # the same endpoint reachable on several hosts (exercises the
        # "first match with matching host" selection in _partial_build)
        sp.extra_hosts = []
        if host_matching and rng.random() < 0.5:
            sp.extra_hosts = rng.sample(
                [SERVER, "other.org", "x.example.com", "<string:h2>.example.com"],
                rng.randint(1, 3),
            )
        sp.wrap = rng.choice([None, None, None, "submount", "subdomain", "prefix"])
        if host_matching and sp.wrap == "subdomain":
            sp.wrap = None
        specs.append(sp)
    margs = dict(
        host_matching=host_matching,
        strict_slashes=rng.random() < 0.7,
        merge_slashes=rng.random() < 0.7,
        redirect_defaults=rng.random() < 0.7,
        sort_parameters=rng.random() < 0.4,
        default_subdomain=rng.choice(["", "", "www"]) if not host_matching else "",
    )
    if margs["sort_parameters"] and rng.random() < 0.5:
        margs["sort_key"] = lambda kv: (str(kv[1]), str(kv[0]))
    return margs, specs


def build_map(margs, specs):
    rules = []
    for sp in specs:
        group = []
        if sp.default_rule is not None:
            kw = dict(sp.kwargs)
            kw.pop("defaults", None)
            group.append(
                Rule(sp.default_rule[0], defaults=sp.default_rule[1],
                     endpoint=sp.endpoint, **kw)
            )
        group.append(Rule(sp.rule, endpoint=sp.endpoint, **sp.kwargs))
        if sp.alias:
            kw = dict(sp.kwargs)
            group.append(
                Rule("/alias" + sp.rule, endpoint=sp.endpoint, alias=True, **kw)
            )
        for extra_host in sp.extra_hosts:
            kw = dict(sp.kwargs)
            kw["host"] = extra_host
            group.append(Rule(sp.rule, endpoint=sp.endpoint, **kw))
        if sp.wrap == "submount":
            group = [Submount("/mnt x", group)]
        elif sp.wrap == "subdomain":
            group = [Subdomain("wrapped", group)]
        elif sp.wrap == "prefix":
            group = [EndpointPrefix("pre.", group)]
        rules.extend(group)
    return Map(rules, **margs)


def _exc(e):
    if isinstance(e, RequestRedirect):
        return ("EXC", type(e).__name__, e.new_url)
    if isinstance(e, HTTPException):
        return ("EXC", type(e).__name__, repr(getattr(e, "valid_methods", None)))
    return ("EXC", type(e).__name__, str(e)[:300])


def _call(fn, *a, **kw):
    try:
        return ("OK", fn(*a, **kw))
    except Exception as e:  # noqa: B902
        return _exc(e)


def gen_values(rng, sp):
    values = {}
    for name, _conv, gen in sp.vars + sp.domain_vars:
        values[name] = gen(rng)
    if sp.extra_hosts and rng.random() < 0.5:
        values["h2"] = _text(rng, 1, 4)
    r = rng.random()
    if r < 0.08 and values:
        del values[rng.choice(sorted(values))]
    elif r < 0.2 and values:
        values[rng.choice(sorted(values))] = rng.choice(WRONG_VALUES)
    if rng.random() < 0.4:
        for _ in range(rng.randint(1, 3)):
            values[rng.choice(EXTRA_KEYS)] = rng.choice(EXTRA_VALUES)
    r = rng.random()
    if r < 0.1:
        md = MultiDict()
        for k, v in values.items():
            if isinstance(v, (list, tuple)):
                for item in v:
                    md.add(k, item)
            else:
                md.add(k, v)
                if rng.random() < 0.2:
                    md.add(k, v)
        return md
    if r < 0.13:
        return None
    return values


def split_url(url, adapter, host_matching):
    """Interpret a built URL the way a server would: returns
    (bind kwargs, path_info, query string)."""
    parts = urlsplit(url)
    host = parts.netloc or None
    path = parts.path
    script = adapter.script_name.rstrip("/")
    if script and path.startswith(script):
        path = path[len(script):]
    return host, unquote(path), parts.query


def converter_probes(rng, m, mi):
    """Construct converters directly with assorted options and probe the
    to_url / to_python pair."""
    out = []
    odd = [None, 0, 1, 2, 3, 5, "4", "x", 2.7, True, [], -1]
    for _ in range(3):
        kw = {}
        for key in ("minlength", "maxlength", "length"):
            if rng.random() < 0.5:
                kw[key] = rng.choice(odd)
        res = _call(m.converters["string"], m, **kw)
        if res[0] == "OK":
            conv = res[1]
            text = _text(rng)
            res = ("OK", conv.regex, _call(conv.to_url, text),
                   _call(conv.to_python, text))
        out.append(("CONV-STR", mi, sorted(kw.items(), key=str), res))
    for _ in range(3):
        items = [rng.choice(ANY_ITEMS + [1, "1", "a,b"]) for _ in range(rng.randint(0, 4))]
        res = _call(m.converters["any"], m, *items)
        if res[0] == "OK":
            conv = res[1]
            res = ("OK", conv.regex) + tuple(
                _call(conv.to_url, v)
                for v in (rng.choice(ANY_ITEMS), rng.choice(WRONG_VALUES), 1, "1")
            )
        out.append(("CONV-ANY", mi, items, res))
    for name in ("int", "float", "int", "float"):
        kw = {}
        if rng.random() < 0.5:
            kw["min"] = rng.choice([0, 1, 3, -5, 2.5, 100])
        if rng.random() < 0.5:
            kw["max"] = rng.choice([0, 3, 10, 500, 99.5, -1])
        if rng.random() < 0.5:
            kw["signed"] = rng.choice([True, False])
        if name == "int" and rng.random() < 0.6:
            kw["fixed_digits"] = rng.choice([0, 1, 2, 3, 4, 6])
        res = _call(m.converters[name], m, **kw)
        if res[0] == "OK":
            conv = res[1]
            probes = []
            for _ in range(8):
                v = rng.choice(
                    [_int_value(rng, True, 3), _float_value(rng, True),
                     rng.choice(WRONG_VALUES), rng.randint(-10, 600)]
                )
                u = _call(conv.to_url, v)
                probes.append((repr(v), u))
                if u[0] == "OK":
                    probes.append(_call(conv.to_python, u[1]))
            for sv in ("3", "003", "-3", "-03", "0003", "500", "99.5", "99.6",
                       "2.5", "2.49", "-5.0", "abc", "", "1e3", " 7", "7_0"):
                probes.append((sv, _call(conv.to_python, sv)))
            res = ("OK", conv.regex, probes)
        out.append(("CONV-NUM", mi, name, sorted(kw.items()), res))
    return out


def run_universe(seed, n_maps, ops_per_rule):
    rng = random.Random(seed)
    out = []
    count = 0
    for mi in range(n_maps):
        margs, specs = make_map(rng)
        res = _call(build_map, margs, specs)
        if res[0] != "OK":
            out.append(("MAPFAIL", mi) + res)
            continue
        m = res[1]
        res = _call(m.update)
        if res[0] != "OK":
            out.append(("UPDATEFAIL", mi) + res)
            continue
        # structural observations
        for rule in m.iter_rules():
            rec = [
                repr(rule),
                rule.build_compare_key(),
                list(rule._trace),
                [
                    (p.content, p.final, p.static, p.suffixed, tuple(p.weight))
                    for p in rule._parts
                ],
                sorted(rule.arguments),
                {k: c.regex for k, c in rule._converters.items()},
            ]
            for b in (rule._build, rule._build_unknown):
                code = b.__func__.__code__
                rec.append(
                    (
                        code.co_code,
                        code.co_consts,
                        code.co_names,
                        code.co_varnames,
                        code.co_argcount,
                        code.co_name,
                        b.__func__.__defaults__,
                    )
                )
            out.append(("RULE", mi, rec))
        out.append(
            (
                "ORDER",
                mi,
                {
                    repr(ep): [r.rule for r in rs]
                    for ep, rs in m._rules_by_endpoint.items()
                },
            )
        )
        out.extend(converter_probes(rng, m, mi))
        host_matching = margs["host_matching"]
        for sp in specs:
            endpoint = sp.endpoint if sp.wrap != "prefix" else "pre." + sp.endpoint
            for _ in range(ops_per_rule):
                count += 1
                script_name = rng.choice(["/", "/app", "/app/", None, "/a b/ü"])
                if host_matching:
                    subdomain = None
                    server = rng.choice([SERVER, SERVER, "other.org", "x.example.com"])
                else:
                    subdomain = rng.choice([None, None, "", "static", "www", "wrapped"])
                    server = SERVER
                scheme = rng.choice(["http", "http", "https", "ws", "wss", ""])
                adapter = m.bind(
                    server,
                    script_name,
                    subdomain=subdomain,
                    url_scheme=scheme,
                    default_method=rng.choice(["GET", "GET", "POST"]),
                )
                values = gen_values(rng, sp)
                method = rng.choice([None, None, None, "GET", "POST", "PUT", "HEAD"])
                force_external = rng.random() < 0.4
                append_unknown = rng.random() < 0.8
                url_scheme = rng.choice([None, None, None, "https", "ws", "ftp", ""])
                if rng.random() < 0.05:
                    endpoint_used = "missing"
                else:
                    endpoint_used = endpoint
                snapshot = repr(values)
                res = _call(
                    adapter.build,
                    endpoint_used,
                    values,
                    method=method,
                    force_external=force_external,
                    append_unknown=append_unknown,
                    url_scheme=url_scheme,
                )
                out.append(("BUILD", mi, sp.rule, snapshot, res, repr(values)))
                # per-rule direct calls
                plain = {}
                if values:
                    plain = dict(values.items())
                for rule in m._rules_by_endpoint.get(endpoint_used, ()):
                    out.append(
                        (
                            "DIRECT",
                            _call(rule.suitable_for, plain, method),
                            _call(rule.suitable_for, plain),
                            _call(rule.build, plain, append_unknown),
                            _call(rule._encode_query_vars, plain),
                            _call(adapter._partial_build, endpoint_used, plain,
                                  method, append_unknown),
                        )
                    )
                    for name, conv in rule._converters.items():
                        if name in plain:
                            u = _call(conv.to_url, plain[name])
                            out.append(("TOURL", name, u))
                            if u[0] == "OK":
                                out.append(
                                    ("TOPY", _call(conv.to_python, unquote(u[1])))
                                )
                        out.append(
                            ("TOPY2", _call(conv.to_python, rng.choice(
                                ["12", "0012", "-5", "1.50", "abc", "99999",
                                 "3", "2", "500", "501", "1.4", "100.01", "-12",
                                 "012", "-012", "1.5", "100.0", "0", "", "nan",
                                 "00000000-0000-0000-0000-000000000005", "x" * 40]
                            )))
                        )
                if res[0] != "OK":
                    continue
                # match the URL that was built
                url = res[1]
                host, path_info, query = split_url(url, adapter, host_matching)
                bind_server = server
                bind_sub = subdomain
                if host is not None:
                    if host_matching:
                        bind_server = host
                    elif host == server:
                        bind_sub = ""
                    elif host.endswith("." + server):
                        bind_sub = host[: -len(server) - 1]
                matcher = _call(
                    m.bind,
                    bind_server,
                    script_name,
                    subdomain=bind_sub,
                    url_scheme=scheme if scheme else "http",
                )
                if matcher[0] != "OK":
                    out.append(("BINDFAIL", matcher))
                    continue
                matcher = matcher[1]
                mres = _call(
                    matcher.match,
                    path_info,
                    method=method or "GET",
                    query_args=query,
                    websocket=sp.kwargs.get("websocket", False),
                )
                out.append(("MATCH", url, path_info, mres))
                if mres[0] == "OK":
                    ep2, vals2 = mres[1]
                    out.append(
                        (
                            "REBUILD",
                            _call(
                                matcher.build,
                                ep2,
                                vals2,
                                method=method,
                                force_external=force_external,
                                append_unknown=append_unknown,
                                url_scheme=url_scheme,
                            ),
                        )
                    )
                # match some junk path as well
                junk = rng.choice(
                    [path_info + "/", path_info.rstrip("/"), "/" + _path_value(rng),
                     path_info.replace("/", "//", 1), "/s0/" + _text(rng)]
                )
                out.append(("JUNK", junk, _call(matcher.match, junk, method="GET")))
    return out, count


def _norm(x):
    # nan != nan would make identical records compare unequal
    return repr(x)


def main(patch_originals, what):
    seed = int(sys.argv[1]) if len(sys.argv) > 1 else 20240611
    n_maps = int(sys.argv[2]) if len(sys.argv) > 2 else 400
    ops = 6
    new_out, count = run_universe(seed, n_maps, ops)
    patch_originals()
    old_out, count2 = run_universe(seed, n_maps, ops)
    ok = count == count2 and len(new_out) == len(old_out)
    bad = 0
    if ok:
        for a, b in zip(new_out, old_out):
            if _norm(a) != _norm(b):
                bad += 1
                if bad <= 5:
                    print("MISMATCH\n  refactored:", _norm(a)[:1500],
                          "\n  original:  ", _norm(b)[:1500])
    kinds = {}
    for rec in new_out:
        kinds[rec[0]] = kinds.get(rec[0], 0) + 1
    okb = sum(1 for r in new_out if r[0] == "BUILD" and r[4][0] == "OK")
    okm = sum(1 for r in new_out if r[0] == "MATCH" and r[3][0] == "OK")
    print(f"{what}: {count} build scenarios, {len(new_out)} recorded observations")
    print(f"  kinds: {kinds}")
    print(f"  successful builds: {okb}, successful round-trip matches: {okm}")
    if ok and bad == 0:
        print("PASS")
    else:
        print(f"FAIL ({bad} mismatching observations; lengths "
              f"{len(new_out)}/{len(old_out)})")
        sys.exit(1)


if __name__ == "__main__":
    main(patch_originals, 'refactoring 3 (converters to_url/to_python, Rule._encode_query_vars)')
