"""Differential check for refactoring 2 of property C17.

Refactoring 2: Accept._value_matches / LanguageAccept._value_matches / CharsetAccept._value_matches ('a or b' -> guard clause, inline _normalize_lang, hoist nested closure to module-level _normalize_charset with try/except/else shape).

Runs the ORIGINAL werkzeug.datastructures.accept module and the ORIGINAL
werkzeug.http.parse_accept_header (both pasted below verbatim from the unmodified
tree) side by side with the implementation found in the worktree, on several
thousand generated headers / (value, q) lists / offer lists for all four Accept
families, and compares every observable result (values, value types, exception
types and messages).

Run:  cd /tmp/wt9-C17 && PYTHONPATH=/tmp/wt9-C17/src /venv/bin/python /tmp/twin5-C17/2/diff_check.py
"""

ORIG_ACCEPT_SRC = r'''
from __future__ import annotations

import codecs
import collections.abc as cabc
import re
import typing as t

from .structures import ImmutableList


class Accept(ImmutableList[tuple[str, float]]):
    """An :class:`Accept` object is just a list subclass for lists of
    ``(value, quality)`` tuples.  It is automatically sorted by specificity
    and quality.

    All :class:`Accept` objects work similar to a list but provide extra
    functionality for working with the data.  Containment checks are
    normalized to the rules of that header:

    >>> a = CharsetAccept([('ISO-8859-1', 1), ('utf-8', 0.7)])
    >>> a.best
    'ISO-8859-1'
    >>> 'iso-8859-1' in a
    True
    >>> 'UTF8' in a
    True
    >>> 'utf7' in a
    False

    To get the quality for an item you can use normal item lookup:

    >>> print a['utf-8']
    0.7
    >>> a['utf7']
    0

    .. versionchanged:: 0.5
       :class:`Accept` objects are forced immutable now.

    .. versionchanged:: 1.0.0
       :class:`Accept` internal values are no longer ordered
       alphabetically for equal quality tags. Instead the initial
       order is preserved.

    """

    def __init__(
        self, values: Accept | cabc.Iterable[tuple[str, float]] | None = ()
    ) -> None:
        if values is None:
            super().__init__()
            self.provided = False
        elif isinstance(values, Accept):
            self.provided = values.provided
            super().__init__(values)
        else:
            self.provided = True
            values = sorted(
                values, key=lambda x: (self._specificity(x[0]), x[1]), reverse=True
            )
            super().__init__(values)

    def _specificity(self, value: str) -> tuple[bool, ...]:
        """Returns a tuple describing the value's specificity."""
        return (value != "*",)

    def _value_matches(self, value: str, item: str) -> bool:
        """Check if a value matches a given accept item."""
        return item == "*" or item.lower() == value.lower()

    @t.overload
    def __getitem__(self, key: str) -> float: ...
    @t.overload
    def __getitem__(self, key: t.SupportsIndex) -> tuple[str, float]: ...
    @t.overload
    def __getitem__(self, key: slice) -> list[tuple[str, float]]: ...
    def __getitem__(
        self, key: str | t.SupportsIndex | slice
    ) -> float | tuple[str, float] | list[tuple[str, float]]:
        """Besides index lookup (getting item n) you can also pass it a string
        to get the quality for the item.  If the item is not in the list, the
        returned quality is ``0``.
        """
        if isinstance(key, str):
            return self.quality(key)
        return list.__getitem__(self, key)

    def quality(self, key: str) -> float:
        """Returns the quality of the key.

        .. versionadded:: 0.6
           In previous versions you had to use the item-lookup syntax
           (eg: ``obj[key]`` instead of ``obj.quality(key)``)
        """
        for item, quality in self:
            if self._value_matches(key, item):
                return quality
        return 0

    def __contains__(self, value: str) -> bool:  # type: ignore[override]
        for item, _quality in self:
            if self._value_matches(value, item):
                return True
        return False

    def __repr__(self) -> str:
        pairs_str = ", ".join(f"({x!r}, {y})" for x, y in self)
        return f"{type(self).__name__}([{pairs_str}])"

    def index(self, key: str | tuple[str, float]) -> int:  # type: ignore[override]
        """Get the position of an entry or raise :exc:`ValueError`.

        :param key: The key to be looked up.

        .. versionchanged:: 0.5
           This used to raise :exc:`IndexError`, which was inconsistent
           with the list API.
        """
        if isinstance(key, str):
            for idx, (item, _quality) in enumerate(self):
                if self._value_matches(key, item):
                    return idx
            raise ValueError(key)
        return list.index(self, key)

    def find(self, key: str | tuple[str, float]) -> int:
        """Get the position of an entry or return -1.

        :param key: The key to be looked up.
        """
        try:
            return self.index(key)
        except ValueError:
            return -1

    def values(self) -> cabc.Iterator[str]:
        """Iterate over all values."""
        for item in self:
            yield item[0]

    def to_header(self) -> str:
        """Convert the header set into an HTTP header string."""
        result = []
        for value, quality in self:
            if quality != 1:
                value = f"{value};q={quality}"
            result.append(value)
        return ",".join(result)

    def __str__(self) -> str:
        return self.to_header()

    def _best_single_match(self, match: str) -> tuple[str, float] | None:
        for client_item, quality in self:
            if self._value_matches(match, client_item):
                # self is sorted by specificity descending, we can exit
                return client_item, quality
        return None

    @t.overload
    def best_match(self, matches: cabc.Iterable[str]) -> str | None: ...
    @t.overload
    def best_match(self, matches: cabc.Iterable[str], default: str = ...) -> str: ...
    def best_match(
        self, matches: cabc.Iterable[str], default: str | None = None
    ) -> str | None:
        """Returns the best match from a list of possible matches based
        on the specificity and quality of the client. If two items have the
        same quality and specificity, the one is returned that comes first.

        :param matches: a list of matches to check for
        :param default: the value that is returned if none match
        """
        result = default
        best_quality: float = -1
        best_specificity: tuple[float, ...] = (-1,)
        for server_item in matches:
            match = self._best_single_match(server_item)
            if not match:
                continue
            client_item, quality = match
            specificity = self._specificity(client_item)
            if quality <= 0 or quality < best_quality:
                continue
            # better quality or same quality but more specific => better match
            if quality > best_quality or specificity > best_specificity:
                result = server_item
                best_quality = quality
                best_specificity = specificity
        return result

    @property
    def best(self) -> str | None:
        """The best match as value."""
        if self:
            return self[0][0]

        return None


_mime_split_re = re.compile(r"/|(?:\s*;\s*)")


def _normalize_mime(value: str) -> list[str]:
    return _mime_split_re.split(value.lower())


class MIMEAccept(Accept):
    """Like :class:`Accept` but with special methods and behavior for
    mimetypes.
    """

    def _specificity(self, value: str) -> tuple[bool, ...]:
        return tuple(x != "*" for x in _mime_split_re.split(value))

    def _value_matches(self, value: str, item: str) -> bool:
        # item comes from the client, can't match if it's invalid.
        if "/" not in item:
            return False

        # value comes from the application, tell the developer when it
        # doesn't look valid.
        if "/" not in value:
            raise ValueError(f"invalid mimetype {value!r}")

        # Split the match value into type, subtype, and a sorted list of parameters.
        normalized_value = _normalize_mime(value)
        value_type, value_subtype = normalized_value[:2]
        value_params = sorted(normalized_value[2:])

        # "*/*" is the only valid value that can start with "*".
        if value_type == "*" and value_subtype != "*":
            raise ValueError(f"invalid mimetype {value!r}")

        # Split the accept item into type, subtype, and parameters.
        normalized_item = _normalize_mime(item)
        item_type, item_subtype = normalized_item[:2]
        item_params = sorted(normalized_item[2:])

        # "*/not-*" from the client is invalid, can't match.
        if item_type == "*" and item_subtype != "*":
            return False

        return (
            (item_type == "*" and item_subtype == "*")
            or (value_type == "*" and value_subtype == "*")
        ) or (
            item_type == value_type
            and (
                item_subtype == "*"
                or value_subtype == "*"
                or (item_subtype == value_subtype and item_params == value_params)
            )
        )

    @property
    def accept_html(self) -> bool:
        """True if this object accepts HTML."""
        return "text/html" in self or self.accept_xhtml  # type: ignore[comparison-overlap]

    @property
    def accept_xhtml(self) -> bool:
        """True if this object accepts XHTML."""
        return "application/xhtml+xml" in self or "application/xml" in self  # type: ignore[comparison-overlap]

    @property
    def accept_json(self) -> bool:
        """True if this object accepts JSON."""
        return "application/json" in self  # type: ignore[comparison-overlap]


_locale_delim_re = re.compile(r"[_-]")


def _normalize_lang(value: str) -> list[str]:
    """Process a language tag for matching."""
    return _locale_delim_re.split(value.lower())


class LanguageAccept(Accept):
    """Like :class:`Accept` but with normalization for language tags."""

    def _value_matches(self, value: str, item: str) -> bool:
        return item == "*" or _normalize_lang(value) == _normalize_lang(item)

    @t.overload
    def best_match(self, matches: cabc.Iterable[str]) -> str | None: ...
    @t.overload
    def best_match(self, matches: cabc.Iterable[str], default: str = ...) -> str: ...
    def best_match(
        self, matches: cabc.Iterable[str], default: str | None = None
    ) -> str | None:
        """Given a list of supported values, finds the best match from
        the list of accepted values.

        Language tags are normalized for the purpose of matching, but
        are returned unchanged.

        If no exact match is found, this will fall back to matching
        the first subtag (primary language only), first with the
        accepted values then with the match values. This partial is not
        applied to any other language subtags.

        The default is returned if no exact or fallback match is found.

        :param matches: A list of supported languages to find a match.
        :param default: The value that is returned if none match.
        """
        # Look for an exact match first. If a client accepts "en-US",
        # "en-US" is a valid match at this point.
        result = super().best_match(matches)

        if result is not None:
            return result

        # Fall back to accepting primary tags. If a client accepts
        # "en-US", "en" is a valid match at this point. Need to use
        # re.split to account for 2 or 3 letter codes.
        fallback = Accept(
            [(_locale_delim_re.split(item[0], 1)[0], item[1]) for item in self]
        )
        result = fallback.best_match(matches)

        if result is not None:
            return result

        # Fall back to matching primary tags. If the client accepts
        # "en", "en-US" is a valid match at this point.
        fallback_matches = [_locale_delim_re.split(item, 1)[0] for item in matches]
        result = super().best_match(fallback_matches)

        # Return a value from the original match list. Find the first
        # original value that starts with the matched primary tag.
        if result is not None:
            return next(
                item
                for item in matches
                if _locale_delim_re.split(item, 1)[0] == result
            )

        return default


class CharsetAccept(Accept):
    """Like :class:`Accept` but with normalization for charsets."""

    def _value_matches(self, value: str, item: str) -> bool:
        def _normalize(name: str) -> str:
            try:
                return codecs.lookup(name).name
            except (LookupError, ValueError):
                return name.lower()

        return item == "*" or _normalize(value) == _normalize(item)
'''

ORIG_PARSE_SRC = r'''
def parse_accept_header(
    value: str | None, cls: type[_TAnyAccept] | None = None
) -> _TAnyAccept:
    """Parse an ``Accept`` header according to
    `RFC 9110 <https://httpwg.org/specs/rfc9110.html#field.accept>`__.

    Returns an :class:`.Accept` instance, which can sort and inspect items based on
    their quality parameter. When parsing ``Accept-Charset``, ``Accept-Encoding``, or
    ``Accept-Language``, pass the appropriate :class:`.Accept` subclass.

    :param value: The header value to parse.
    :param cls: The :class:`.Accept` class to wrap the result in.
    :return: An instance of ``cls``.

    .. versionchanged:: 2.3
        Parse according to RFC 9110. Items with invalid ``q`` values are skipped.
    """
    if cls is None:
        cls = t.cast(type[_TAnyAccept], ds.Accept)

    if not value:
        return cls(None)

    result = []

    for item in parse_list_header(value):
        item, options = parse_options_header(item)

        if "q" in options:
            # pop q, remaining options are reconstructed
            q_str = options.pop("q").strip()

            if _q_value_re.fullmatch(q_str) is None:
                # ignore an invalid q
                continue

            q = float(q_str)

            if q < 0 or q > 1:
                # ignore an invalid q
                continue
        else:
            q = 1

        if options:
            # reconstruct the media type with any options
            item = dump_options_header(item, options)

        result.append((item, q))

    return cls(result)
'''


# ---------------------------------------------------------------------------
# Load the ORIGINAL implementation (pasted above) next to the worktree one.
# ---------------------------------------------------------------------------
import itertools
import random
import sys
import types

import werkzeug.datastructures as ds_new
import werkzeug.datastructures.accept as accept_new
import werkzeug.http as http_new

assert accept_new.__file__.startswith("/tmp/wt9-C17/"), accept_new.__file__
assert http_new.__file__.startswith("/tmp/wt9-C17/"), http_new.__file__

accept_old = types.ModuleType("werkzeug.datastructures._orig_accept")
accept_old.__package__ = "werkzeug.datastructures"
sys.modules[accept_old.__name__] = accept_old
exec(compile(ORIG_ACCEPT_SRC, "<orig accept.py>", "exec"), accept_old.__dict__)


class _OldDs:
    Accept = accept_old.Accept


# the original parse_accept_header runs with the original http globals, except
# that ``ds.Accept`` (the default class) is the original Accept class.
_old_http_globals = dict(http_new.__dict__)
_old_http_globals["ds"] = _OldDs
exec(compile(ORIG_PARSE_SRC, "<orig http.py>", "exec"), _old_http_globals)
parse_old = _old_http_globals["parse_accept_header"]
parse_new = http_new.parse_accept_header
assert parse_old is not parse_new

CLASSES = ["Accept", "MIMEAccept", "LanguageAccept", "CharsetAccept"]


def classes(name):
    return getattr(accept_old, name), getattr(accept_new, name)


# ---------------------------------------------------------------------------
# Generators
# ---------------------------------------------------------------------------
rnd = random.Random(1717)

MIME_TYPES = ["text", "TEXT", "application", "image", "*", "x", ""]
MIME_SUBS = ["html", "HTML", "plain", "json", "xml", "xhtml+xml", "*", "png", ""]
MIME_PARAMS = [
    "",
    "",
    "",
    ";level=1",
    "; level=1",
    ";LEVEL=1",
    ";level=2",
    ";charset=utf-8",
    ";charset=utf-8;level=1",
    ";level=1;charset=utf-8",
    ' ; a="b c"',
    ";*",
]
LANGS = [
    "en", "EN", "en-US", "en_US", "en-us", "en-GB", "de", "de-DE", "de_AT", "fr",
    "zh-Hant-TW", "zh_hant", "fil", "*", "x-klingon", "", "-", "en-", "_us",
]
CHARSETS = [
    "utf-8", "UTF8", "utf_8", "u8", "latin1", "ISO-8859-1", "iso8859_1", "ascii",
    "us-ascii", "cp1252", "windows-1252", "unknown-cs", "UNKNOWN-CS", "*", "",
    "utf-16", "a\x00b", " utf-8",
]
PLAIN = ["gzip", "GZIP", "deflate", "br", "identity", "*", "", "x-gzip", "a b"]
QS = [
    None, None, None, "1", "1.0", "1.000", "0", "0.0", "0.5", "0.50", "0.8", "0.9",
    "0.3", "0.001", "1.1", "2", "-0", "-0.0", "-0.5", "-1", "abc", "", ".5", "1.",
    "0.5.5", "1e-1", "٠.٥", "+0.5", " 0.5 ", "0,5", "nan", "inf", "00.5", "01",
]


def gen_value(family):
    if family == "MIMEAccept":
        r = rnd.random()
        if r < 0.08:
            return rnd.choice(["text", "*", "", "html", "text;level=1"])
        return (
            rnd.choice(MIME_TYPES) + "/" + rnd.choice(MIME_SUBS) + rnd.choice(MIME_PARAMS)
        )
    if family == "LanguageAccept":
        return rnd.choice(LANGS)
    if family == "CharsetAccept":
        return rnd.choice(CHARSETS)
    return rnd.choice(PLAIN + LANGS[:6])


def gen_header(family):
    items = []
    for _ in range(rnd.randint(0, 6)):
        v = gen_value(family).replace("\x00", "")
        q = rnd.choice(QS)
        if q is not None:
            sep = rnd.choice([";q=", "; q=", ";Q=", " ;q = ", ";q=\"", ";q*=", ";q*0=", ";qq="])
            if sep.endswith('"'):
                v += sep + q + '"'
            else:
                v += sep + q
            if rnd.random() < 0.15:
                v += rnd.choice([";ext=1", ";q=0.1", "; level=3"])
        items.append(v)
    sep = rnd.choice([",", ", ", " , ", ",,"])
    return sep.join(items)


def gen_pairs(family):
    out = []
    for _ in range(rnd.randint(0, 6)):
        q = rnd.choice([1, 1.0, 0, 0.0, 0.5, 0.8, 0.8, 0.3, 2, -1, 0.001, True])
        out.append((gen_value(family), q))
    return out


def gen_offers(family):
    return [gen_value(family) for _ in range(rnd.randint(0, 5))]


# ---------------------------------------------------------------------------
# Comparison helpers
# ---------------------------------------------------------------------------
def outcome(fn):
    try:
        r = fn()
    except Exception as e:  # noqa: BLE001
        return ("EXC", type(e).__name__, str(e))
    return ("OK", canon(r))


def canon(r):
    # make results comparable across the two class hierarchies, keeping
    # value types (1 vs 1.0 vs True) visible.
    if isinstance(r, list):
        return (type(r).__name__, [canon(x) for x in r])
    if isinstance(r, tuple):
        return ("tuple", tuple(canon(x) for x in r))
    return (type(r).__name__, repr(r))


failures = 0
checks = 0


def same(label, old_fn, new_fn):
    global failures, checks
    checks += 1
    a = outcome(old_fn)
    b = outcome(new_fn)
    if a != b:
        failures += 1
        if failures <= 20:
            print("MISMATCH", label, "\n   old:", a, "\n   new:", b)


def compare_objects(label, family, old, new, offers):
    same(label + " list", lambda: list(old), lambda: list(new))
    same(label + " provided", lambda: old.provided, lambda: new.provided)
    same(label + " repr", lambda: repr(old), lambda: repr(new))
    same(label + " str", lambda: str(old), lambda: str(new))
    same(label + " to_header", lambda: old.to_header(), lambda: new.to_header())
    same(label + " best", lambda: old.best, lambda: new.best)
    same(label + " values", lambda: list(old.values()), lambda: list(new.values()))
    same(label + " best_match", lambda: old.best_match(offers), lambda: new.best_match(offers))
    same(
        label + " best_match default",
        lambda: old.best_match(offers, default="DEF"),
        lambda: new.best_match(offers, "DEF"),
    )
    same(
        label + " best_match tuple",
        lambda: old.best_match(tuple(offers)),
        lambda: new.best_match(tuple(offers)),
    )
    for o in offers:
        same(label + f" quality {o!r}", lambda: old.quality(o), lambda: new.quality(o))
        same(label + f" getitem {o!r}", lambda: old[o], lambda: new[o])
        same(label + f" contains {o!r}", lambda: o in old, lambda: o in new)
        same(label + f" index {o!r}", lambda: old.index(o), lambda: new.index(o))
        same(label + f" find {o!r}", lambda: old.find(o), lambda: new.find(o))
        same(
            label + f" single {o!r}",
            lambda: old._best_single_match(o),
            lambda: new._best_single_match(o),
        )
        same(
            label + f" specificity {o!r}",
            lambda: old._specificity(o),
            lambda: new._specificity(o),
        )
        for item, _q in list(old)[:4]:
            same(
                label + f" value_matches {o!r} {item!r}",
                lambda: old._value_matches(o, item),
                lambda: new._value_matches(o, item),
            )
    if family == "MIMEAccept":
        for prop in ("accept_html", "accept_xhtml", "accept_json"):
            same(label + " " + prop, lambda: getattr(old, prop), lambda: getattr(new, prop))
    # copy-construct
    same(
        label + " copy",
        lambda: (list(type(old)(old)), type(old)(old).provided),
        lambda: (list(type(new)(new)), type(new)(new).provided),
    )


def main():
    N = 2500
    for family in CLASSES:
        old_cls, new_cls = classes(family)
        # 1. headers through parse_accept_header
        for i in range(N):
            header = gen_header(family)
            offers = gen_offers(family)
            try:
                old = parse_old(header, old_cls)
                old_exc = None
            except Exception as e:  # noqa: BLE001
                old, old_exc = None, type(e).__name__
            try:
                new = parse_new(header, new_cls)
                new_exc = None
            except Exception as e:  # noqa: BLE001
                new, new_exc = None, type(e).__name__
            same(f"{family} parse exc {header!r}", lambda: old_exc, lambda: new_exc)
            if old is None or new is None:
                continue
            assert type(old) is old_cls and type(new) is new_cls
            compare_objects(f"{family} hdr={header!r} offers={offers!r}", family, old, new, offers)
        # 2. direct construction from pairs (unvalidated q, ints/floats/bools)
        for i in range(N):
            pairs = gen_pairs(family)
            offers = gen_offers(family)
            kind = i % 3
            if kind == 0:
                mk = lambda c: c(list(pairs))  # noqa: E731
            elif kind == 1:
                mk = lambda c: c(iter(pairs))  # noqa: E731
            else:
                mk = lambda c: c(tuple(pairs))  # noqa: E731
            try:
                old = mk(old_cls)
                new = mk(new_cls)
            except Exception as e:  # noqa: BLE001
                same(f"{family} ctor exc", lambda: outcome(lambda: mk(old_cls))[:2], lambda: outcome(lambda: mk(new_cls))[:2])
                continue
            compare_objects(f"{family} pairs={pairs!r} offers={offers!r}", family, old, new, offers)
        # 3. exhaustive-ish _value_matches / _specificity table
        old = old_cls([])
        new = new_cls([])
        pool = sorted({gen_value(family) for _ in range(400)})
        for v in pool:
            same(f"{family} spec {v!r}", lambda: old._specificity(v), lambda: new._specificity(v))
        for v, it in itertools.product(pool[:70], pool[:70]):
            same(
                f"{family} vm {v!r} {it!r}",
                lambda: old._value_matches(v, it),
                lambda: new._value_matches(v, it),
            )
        # 4. special constructor inputs
        same(f"{family} None", lambda: (list(old_cls(None)), old_cls(None).provided), lambda: (list(new_cls(None)), new_cls(None).provided))
        same(f"{family} ()", lambda: (list(old_cls()), old_cls().provided), lambda: (list(new_cls()), new_cls().provided))
        same(f"{family} bad pairs", lambda: old_cls([("a",)]), lambda: new_cls([("a",)]))
        same(f"{family} bad pairs2", lambda: old_cls([1, 2]), lambda: new_cls([1, 2]))
        same(f"{family} uncomparable", lambda: old_cls([("a/b", 1), ("a/b", "x")]), lambda: new_cls([("a/b", 1), ("a/b", "x")]))
        same(f"{family} nonstr", lambda: old_cls([("a/b", 1)]).quality(None), lambda: new_cls([("a/b", 1)]).quality(None))
        same(f"{family} int", lambda: old_cls(5), lambda: new_cls(5))
    # 5. parse_accept_header default class / empty values
    for header in [None, "", " ", ",", "text/html", "a;q=0.5, b", "a;q=x"]:
        same(
            f"default cls {header!r}",
            lambda: (type(parse_old(header)).__name__, list(parse_old(header)), parse_old(header).provided),
            lambda: (type(parse_new(header)).__name__, list(parse_new(header)), parse_new(header).provided),
        )
    same("parse non-str", lambda: parse_old(5), lambda: parse_new(5))
    # 6. character-level fuzz of the header parser (all four families)
    alphabet = 'aq=;,."*/ 015-\\Q\t+e'
    for i in range(20000):
        header = "".join(rnd.choice(alphabet) for _ in range(rnd.randint(0, 24)))
        if i % 2:
            header = "a;q=" + header
        family = CLASSES[i % 4]
        old_cls, new_cls = classes(family)
        same(
            f"fuzz {family} {header!r}",
            lambda: (list(parse_old(header, old_cls)), str(parse_old(header, old_cls))),
            lambda: (list(parse_new(header, new_cls)), str(parse_new(header, new_cls))),
        )

    print(f"{checks} comparisons, {failures} mismatches")
    print("PASS" if failures == 0 and checks > 5000 else "FAIL")


if __name__ == "__main__":
    main()
