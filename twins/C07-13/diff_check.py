"""Differential check for refactoring 1 (http.parse_range_header).

Run: cd /tmp/wt12-C07 && PYTHONPATH=/tmp/wt12-C07/src /venv/bin/python /tmp/twin7-C07/1/diff_check.py
"""
import itertools
import random

from werkzeug import datastructures as ds
from werkzeug._internal import _plain_int
from werkzeug.http import parse_range_header as new_parse_range_header


def orig_parse_range_header(value, make_inclusive=True):
    # verbatim copy of the implementation on the unmodified tree
    if not value or "=" not in value:
        return None

    ranges = []
    last_end = 0
    units, rng = value.split("=", 1)
    units = units.strip().lower()

    for item in rng.split(","):
        item = item.strip()
        if "-" not in item:
            return None
        if item.startswith("-"):
            if last_end < 0:
                return None
            try:
                begin = _plain_int(item)
            except ValueError:
                return None
            end = None
            last_end = -1
        elif "-" in item:
            begin_str, end_str = item.split("-", 1)
            begin_str = begin_str.strip()
            end_str = end_str.strip()

            try:
                begin = _plain_int(begin_str)
            except ValueError:
                return None

            if begin < last_end or last_end < 0:
                return None
            if end_str:
                if end_str.startswith("-"):
                    # _plain_int accepts a sign, a position does not have one
                    return None

                try:
                    end = _plain_int(end_str) + 1
                except ValueError:
                    return None

                if begin >= end:
                    return None
            else:
                end = None
            last_end = end if end is not None else -1
        ranges.append((begin, end))

    return ds.Range(units, ranges)


def run(func, *args):
    try:
        rv = func(*args)
    except BaseException as e:  # noqa: B036
        return ("raise", type(e).__name__, str(e))
    if rv is None:
        return ("none",)
    return ("range", type(rv).__name__, rv.units, list(rv.ranges), repr(rv))


def gen_inputs():
    rnd = random.Random(7007)
    out = [None, "", "=", "bytes", "bytes=", "bytes=-", "bytes=--", "bytes=0-", "=0-0"]
    atoms = [
        "", "0", "1", "5", "9", "10", "99", "100", "-", "--", "-0", "-1", "-5", "+1",
        "+", "1_0", "٣", "²", " ", "\t", "\n", "\x0b", "\xa0", "a", "1.5", "0x1", "00",
        "007", "1e3", "99999999999999999999",
    ]
    # every "a-b" style item built from the atoms, alone and chained
    items = []
    for a, b in itertools.product(atoms, repeat=2):
        items.append(f"{a}-{b}")
        items.append(f" {a} - {b} ")
        items.append(f"{a}{b}")
    for it in items:
        out.append(f"bytes={it}")
    for _ in range(6000):
        n = rnd.randint(1, 4)
        chosen = [rnd.choice(items) for _ in range(n)]
        sep = rnd.choice([",", ", ", " ,", ",,", " , "])
        unit = rnd.choice(["bytes", "Bytes ", " BYTES", "items", "", "a=b", " "])
        out.append(f"{unit}={sep.join(chosen)}")
    # well formed ascending / overlapping / descending numeric ranges
    for _ in range(4000):
        n = rnd.randint(1, 5)
        parts = []
        for _ in range(n):
            k = rnd.random()
            a, b = rnd.randint(0, 30), rnd.randint(0, 30)
            if k < 0.15:
                parts.append(f"-{a}")
            elif k < 0.3:
                parts.append(f"{a}-")
            elif k < 0.35:
                parts.append(f"{a}--{b}")
            elif k < 0.4:
                parts.append(f"-{a}-{b}")
            else:
                parts.append(f"{a}-{b}")
        if rnd.random() < 0.5:
            parts.sort(key=lambda p: (len(p), p))
        out.append("bytes=" + rnd.choice([",", ", "]).join(parts))
    # raw character soup
    alphabet = "0123456789-,= \tbytesBY+_;\"\n\x00٣é"
    for _ in range(8000):
        out.append("".join(rnd.choice(alphabet) for _ in range(rnd.randint(0, 14))))
    for _ in range(3000):
        out.append(
            "bytes=" + "".join(rnd.choice("0123456789-, ") for _ in range(rnd.randint(0, 14)))
        )
    return out


def main():
    inputs = gen_inputs()
    bad = 0
    kinds = {}
    for value in inputs:
        for mi in (True, False):
            a = run(orig_parse_range_header, value, mi)
            b = run(new_parse_range_header, value, mi)
            kinds[a[0]] = kinds.get(a[0], 0) + 1
            if a != b:
                bad += 1
                if bad <= 10:
                    print("MISMATCH", repr(value), a, b)
    print(f"{len(inputs)} inputs, outcome kinds {kinds}, mismatches {bad}")
    print("PASS" if bad == 0 else "FAIL")


if __name__ == "__main__":
    main()
