"""Differential check for refactoring 1 (werkzeug.http.parse_etags).

Compares the refactored parse_etags of the worktree against a verbatim copy of
the ORIGINAL implementation on generated inputs.  Compared: the exact
constructor arguments passed to ETags (order of strong/weak lists included),
the resulting ETags object state, raised exception types, and non-termination
(the original loops forever on a few inputs ending in a newline, e.g. "a\n";
a refactoring must not change that either, so it is observed with a timer).
"""
import random
import re
import signal
import types

import werkzeug.http as whttp
from werkzeug import datastructures as real_ds

_etag_re = re.compile(r'([Ww]/)?(?:"(.*?)"|(.*?))(?:\s*,\s*|$)')
assert _etag_re.pattern == whttp._etag_re.pattern
assert _etag_re.flags == whttp._etag_re.flags


class Recorder:
    """Stand-in for ds.ETags that records how it was constructed."""

    def __init__(self, strong_etags=None, weak_etags=None, star_tag=False):
        self.args = (
            None if strong_etags is None else list(strong_etags),
            None if weak_etags is None else list(weak_etags),
            star_tag,
        )
        real = real_ds.ETags(strong_etags, weak_etags, star_tag)
        self.state = (real._strong, real._weak, real.star_tag, real.to_header())


ds = types.SimpleNamespace(ETags=Recorder)


# ---- ORIGINAL implementation (verbatim from the unmodified tree) ----
def orig_parse_etags(value):
    if not value:
        return ds.ETags()
    strong = []
    weak = []
    end = len(value)
    pos = 0
    while pos < end:
        match = _etag_re.match(value, pos)
        if match is None:
            break
        is_weak, quoted, raw = match.groups()
        if raw == "*":
            return ds.ETags(star_tag=True)
        elif quoted:
            raw = quoted
        if is_weak:
            weak.append(raw)
        else:
            strong.append(raw)
        pos = match.end()
    return ds.ETags(strong, weak)


# ----------------------------------------------------------------------


class Timeout(BaseException):
    pass


def _alarm(signum, frame):
    raise Timeout


signal.signal(signal.SIGALRM, _alarm)


def run(func, value, limit):
    signal.setitimer(signal.ITIMER_REAL, limit)
    try:
        try:
            rv = func(value)
        finally:
            signal.setitimer(signal.ITIMER_REAL, 0)
    except Timeout:
        return ("HANG",)
    except Exception as e:  # noqa: BLE001
        return ("EXC", type(e))
    return ("OK", rv.args, rv.state)


def may_hang(value):
    # the only way match.end() == pos with pos < len(value) is `$` matching
    # before a trailing newline
    return isinstance(value, str) and value.endswith("\n")


ATOMS = [
    '"', '""', "W/", "w/", "W", "/", "*", ",", ", ", " , ", " ", "\t", "\n", "\r",
    "a", "abc", '"abc"', 'W/"abc"', 'w/"x"', '"*"', "W/*", "*,", ",*", '\\"', "\\",
    "é", "\x00", " ", "\x0b", "\x0c", "\x1c", "\x85", "=", ";", "W/W/", '"a,b"',
    'W/""', '"', "'", "0", "-", "\U0001f600",
]
ALPHABET = 'Ww/"*, \t\n\rab\\é\x00\x0b\x85,,""'


def gen(rng):
    kind = rng.random()
    if kind < 0.55:
        return "".join(rng.choice(ATOMS) for _ in range(rng.randint(0, 9)))
    if kind < 0.85:
        return "".join(rng.choice(ALPHABET) for _ in range(rng.randint(0, 14)))
    # well formed lists
    items = []
    for _ in range(rng.randint(1, 6)):
        tag = "".join(rng.choice("abcXYZ019-_ ") for _ in range(rng.randint(0, 5)))
        form = rng.randint(0, 4)
        if form == 0:
            items.append(f'"{tag}"')
        elif form == 1:
            items.append(f'W/"{tag}"')
        elif form == 2:
            items.append(tag)
        elif form == 3:
            items.append(f"w/{tag}")
        else:
            items.append("*")
    return rng.choice([",", ", ", " ,", " , ", ",,"]).join(items)


def main():
    rng = random.Random(7007)
    fixed = [
        None, "", "*", " *", "* ", '"*"', "W/*", 'W/"a"', '"a", "b"', 'W/"a", "b", w/"c"',
        '""', 'W/""', '"a', 'a"', "a\nb", "a\n", "\n", '"a"\n', "a,\n", "abc, *", "*, abc",
        'W/"a" , W/"a"', ",", ",,", " , ", "a,,b", '"a" "b"', "W/", "w/,", b"" or None,
    ]
    inputs = fixed + [gen(rng) for _ in range(20000)]

    whttp.ds = ds  # record constructor calls of the refactored function too
    n = hangs = stars = 0
    try:
        for value in inputs:
            limit = 0.05 if may_hang(value) else 5.0
            a = run(orig_parse_etags, value, limit)
            b = run(whttp.parse_etags, value, limit)
            if a != b:
                print("MISMATCH", repr(value), a, b)
                print("FAIL")
                return 1
            n += 1
            hangs += a[0] == "HANG"
            stars += a[0] == "OK" and a[1][2]
    finally:
        whttp.ds = real_ds

    # also through the real datastructure / public API, non-hanging inputs only
    for value in inputs:
        if may_hang(value):
            continue
        et = whttp.parse_etags(value)
        ds_backup = ds.ETags
        exp = orig_parse_etags(value)
        assert ds_backup is Recorder
        if (et._strong, et._weak, et.star_tag, et.to_header()) != exp.state:
            print("MISMATCH(real)", repr(value))
            print("FAIL")
            return 1

    print(f"compared {n} inputs ({hangs} non-terminating in both, {stars} star tags)")
    print("PASS")
    return 0


if __name__ == "__main__":
    raise SystemExit(main())
