"""Differential check for refactoring 2 (MultipartDecoder.next_event PREAMBLE/PART branches).

Run: cd /tmp/wt10-C01 && PYTHONPATH=/tmp/wt10-C01/src /venv/bin/python /tmp/twin6-C01/2/diff_check.py
"""

from __future__ import annotations

import random
import typing as t

from werkzeug.exceptions import RequestEntityTooLarge
from werkzeug.http import parse_options_header
from werkzeug.sansio import multipart as mp
from werkzeug.sansio.multipart import BLANK_LINE_RE
from werkzeug.sansio.multipart import Data
from werkzeug.sansio.multipart import Epilogue
from werkzeug.sansio.multipart import Event
from werkzeug.sansio.multipart import Field
from werkzeug.sansio.multipart import File
from werkzeug.sansio.multipart import MultipartDecoder
from werkzeug.sansio.multipart import NEED_DATA
from werkzeug.sansio.multipart import NeedData
from werkzeug.sansio.multipart import Preamble
from werkzeug.sansio.multipart import SEARCH_EXTRA_LENGTH
from werkzeug.sansio.multipart import State


# ---- ORIGINAL implementation (pasted from the unmodified tree) -------------
class OrigDecoder(MultipartDecoder):
    def next_event(self) -> Event:
        event: Event = NEED_DATA

        if self.state == State.PREAMBLE:
            match = self.preamble_re.search(self.buffer, self._search_position)
            if match is not None:
                if match.group(1).startswith(b"--"):
                    self.state = State.EPILOGUE
                else:
                    self.state = State.PART
                data = bytes(self.buffer[: match.start()])
                del self.buffer[: match.end()]
                event = Preamble(data=data)
                self._search_position = 0
            else:
                # Update the search start position to be equal to the
                # current buffer length (already searched) minus a
                # safe buffer for part of the search target.
                self._search_position = max(
                    0, len(self.buffer) - len(self.boundary) - SEARCH_EXTRA_LENGTH
                )

        elif self.state == State.PART:
            match = BLANK_LINE_RE.search(self.buffer, self._search_position)
            if match is not None:
                headers = self._parse_headers(self.buffer[: match.start()])
                # The final header ends with a single CRLF, however a
                # blank line indicates the start of the
                # body. Therefore the end is after the first CRLF.
                headers_end = (match.start() + match.end()) // 2
                del self.buffer[:headers_end]

                if "content-disposition" not in headers:
                    raise ValueError("Missing Content-Disposition header")

                disposition, extra = parse_options_header(
                    headers["content-disposition"]
                )
                name = t.cast(str, extra.get("name"))
                filename = extra.get("filename")
                if filename is not None:
                    event = File(
                        filename=filename,
                        headers=headers,
                        name=name,
                    )
                else:
                    event = Field(
                        headers=headers,
                        name=name,
                    )
                self.state = State.DATA_START
                self._search_position = 0
                self._parts_decoded += 1

                if self.max_parts is not None and self._parts_decoded > self.max_parts:
                    raise RequestEntityTooLarge()
            else:
                # Update the search start position to be equal to the
                # current buffer length (already searched) minus a
                # safe buffer for part of the search target.
                self._search_position = max(0, len(self.buffer) - SEARCH_EXTRA_LENGTH)

        elif self.state == State.DATA_START:
            data, del_index, more_data = self._parse_data(self.buffer, start=True)
            del self.buffer[:del_index]
            event = Data(data=data, more_data=more_data)
            if more_data:
                self.state = State.DATA

        elif self.state == State.DATA:
            data, del_index, more_data = self._parse_data(self.buffer, start=False)
            del self.buffer[:del_index]
            if data or not more_data:
                event = Data(data=data, more_data=more_data)

        elif self.state == State.EPILOGUE and self.complete:
            event = Epilogue(data=bytes(self.buffer))
            del self.buffer[:]
            self.state = State.COMPLETE

        if self.complete and isinstance(event, NeedData):
            raise ValueError(f"Invalid form-data cannot parse beyond {self.state}")

        return event


# ---- input generation ------------------------------------------------------
BOUNDARIES = [b"b", b"XyZ", b"----WebKitFormBoundaryABC123", b"a-b.c", b"--", b"\xe2x"]


def rand_bytes(rng: random.Random, n: int) -> bytes:
    alphabet = b"ab-\r\n \t:;=\"x\xff"
    return bytes(rng.choice(alphabet) for _ in range(n))


def soup(rng: random.Random, boundary: bytes) -> bytes:
    full = b"--" + boundary
    tokens = [
        full,
        b"\r\n" + full,
        b"\n" + full,
        b"\r" + full,
        full + b"--",
        b"\r\n" + full + b"--",
        b"\r\n" + full + b"\r\n",
        b"\r\n" + full + b" \t\r\n",
        b"\r\n",
        b"\n",
        b"\r",
        b"\r\n\r\n",
        b"--",
        b"-",
        b" ",
        b'Content-Disposition: form-data; name="a"',
        b'Content-Disposition: form-data; name="f"; filename="x.txt"',
        b"Content-Type: text/plain",
        b"X-Long: a\r\n b",
    ]
    out = bytearray()
    for _ in range(rng.randint(0, 14)):
        r = rng.random()
        if r < 0.6:
            out += rng.choice(tokens)
        elif r < 0.75:
            k = rng.randint(0, len(full) + 2)
            out += (b"\r\n" + full)[:k]
        elif r < 0.9:
            out += rand_bytes(rng, rng.randint(0, 12))
        else:
            out += rand_bytes(rng, rng.randint(20, 90))
    return bytes(out)


def well_formed(rng: random.Random, boundary: bytes) -> bytes:
    nl = rng.choice([b"\r\n", b"\r\n", b"\n", b"\r"])
    full = b"--" + boundary
    out = bytearray(rng.choice([b"", b"preamble", nl, b"pre" + nl]))
    first = True
    for i in range(rng.randint(0, 4)):
        if not first or rng.random() < 0.5:
            out += nl
        first = False
        out += full + rng.choice([b"", b" ", b"\t "]) + nl
        if rng.random() < 0.5:
            out += b'Content-Disposition: form-data; name="n%d"' % i
        else:
            out += b'Content-Disposition: form-data; name="n%d"; filename="f%d"' % (
                i,
                i,
            )
        out += nl
        if rng.random() < 0.4:
            out += b"Content-Type: text/plain; charset=utf-8" + nl
        out += nl
        pieces = [
            rand_bytes(rng, rng.randint(0, 40)),
            nl,
            b"\r",
            b"\n",
            b"--",
            nl + b"--",
            nl + full[: rng.randint(0, len(full))],
            full[: rng.randint(0, len(full))],
            rand_bytes(rng, rng.randint(60, 200)),
        ]
        for _ in range(rng.randint(0, 5)):
            out += rng.choice(pieces)
    if rng.random() < 0.9:
        out += nl + full + b"--" + rng.choice([b"", nl, b" " + nl, nl + b"epilogue"])
    return bytes(out)


def chunkings(rng: random.Random, body: bytes) -> list[bytes]:
    mode = rng.random()
    if mode < 0.15:
        return [body]
    if mode < 0.3:
        return [body[i : i + 1] for i in range(len(body))]
    if mode < 0.5:
        n = rng.randint(1, 7)
        return [body[i : i + n] for i in range(0, len(body), n)]
    out = []
    i = 0
    while i < len(body):
        n = rng.choice([0, 1, 1, 2, 3, 5, 8, 13, 40, 100])
        out.append(body[i : i + n])
        i += n
    return out


# ---- drivers ---------------------------------------------------------------
def run_decoder(cls: type, boundary: bytes, chunks: list[bytes], **kw: t.Any) -> list:
    dec = cls(boundary, **kw)
    log: list = []
    try:
        for chunk in [*chunks, None]:
            dec.receive_data(chunk)
            while True:
                ev = dec.next_event()
                snap = (dec.state, bytes(dec.buffer), dec._search_position)
                if isinstance(ev, mp.NeedData):
                    log.append(("need", ev is NEED_DATA, *snap))
                    break
                log.append((type(ev).__name__, repr(ev), *snap, dec._parts_decoded))
                if isinstance(ev, mp.Epilogue):
                    break
    except Exception as e:  # noqa: B902
        log.append(
            (
                "raise",
                type(e),
                str(e),
                dec.state,
                bytes(dec.buffer),
                dec._search_position,
                dec._parts_decoded,
            )
        )
    return log


def single_step(cls: type, boundary: bytes, buf: bytes, state: State, pos: int, kw):
    """One next_event() call from an arbitrary (state, buffer, search position)."""
    dec = cls(boundary, **kw)
    dec.buffer.extend(buf)
    dec.state = state
    dec._search_position = pos
    try:
        ev = dec.next_event()
        res: t.Any = (type(ev).__name__, repr(ev))
    except Exception as e:  # noqa: B902
        res = ("raise", type(e), str(e))
    return res, dec.state, bytes(dec.buffer), dec._search_position, dec._parts_decoded


def main() -> None:
    assert MultipartDecoder.next_event is not OrigDecoder.next_event
    rng = random.Random(20240202)
    n_step = n_stream = 0
    mismatches = 0

    for _ in range(12000):
        boundary = rng.choice(BOUNDARIES)
        buf = soup(rng, boundary) if rng.random() < 0.6 else well_formed(rng, boundary)
        if rng.random() < 0.4:
            buf = buf[rng.randint(0, len(buf)) :]
        if rng.random() < 0.4:
            buf = buf[: rng.randint(0, len(buf))]
        kw: dict[str, t.Any] = {}
        if rng.random() < 0.2:
            kw["max_parts"] = rng.randint(0, 1)
        for state in (State.PREAMBLE, State.PART):
            pos = rng.choice([0, 0, rng.randint(0, len(buf) + 3)])
            a = single_step(OrigDecoder, boundary, buf, state, pos, kw)
            b = single_step(MultipartDecoder, boundary, buf, state, pos, kw)
            n_step += 1
            if a != b:
                mismatches += 1
                if mismatches < 5:
                    print("STEP MISMATCH", boundary, buf, state, pos, a, b)

    for _ in range(8000):
        boundary = rng.choice(BOUNDARIES)
        body = well_formed(rng, boundary) if rng.random() < 0.7 else soup(rng, boundary)
        kw = {}
        if rng.random() < 0.15:
            kw["max_form_memory_size"] = rng.randint(1, 300)
        if rng.random() < 0.15:
            kw["max_parts"] = rng.randint(0, 3)
        for _ in range(3):
            chunks = chunkings(rng, body)
            a = run_decoder(OrigDecoder, boundary, chunks, **kw)
            b = run_decoder(MultipartDecoder, boundary, chunks, **kw)
            n_stream += 1
            if a != b:
                mismatches += 1
                if mismatches < 5:
                    print("STREAM MISMATCH", boundary, body, chunks, a, b)

    print(f"single next_event steps: {n_step}, decoder runs: {n_stream}")
    print("PASS" if mismatches == 0 else f"FAIL ({mismatches} mismatches)")


if __name__ == "__main__":
    main()
