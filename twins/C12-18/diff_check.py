# ---- shared generator / comparison harness (pasted into every diff_check) ----
import contextlib
import random

from werkzeug.exceptions import HTTPException
from werkzeug.exceptions import MethodNotAllowed
from werkzeug.routing import Map
from werkzeug.routing import Rule
from werkzeug.routing import Submount
from werkzeug.routing.exceptions import NoMatch
from werkzeug.routing.exceptions import RequestAliasRedirect
from werkzeug.routing.exceptions import RequestPath
from werkzeug.routing.exceptions import RequestRedirect

SEGS = ["foo", "bar", "a", "b", "evil.com", "x y", "café", "%2F", "1", "42", "en"]


def gen_rule_strings(rnd):
    out = []
    for _ in range(rnd.randint(1, 5)):
        parts = []
        for _ in range(rnd.randint(0, 3)):
            c = rnd.random()
            if c < 0.55:
                parts.append(rnd.choice(SEGS[:5]))
            elif c < 0.7:
                parts.append("<int:n>")
            elif c < 0.85:
                parts.append("<name>")
            elif c < 0.93:
                parts.append("<path:p>")
            else:
                parts.append("<any(en,de):lang>")
        # avoid duplicate variable names within a rule
        seen = set()
        ok = []
        for p in parts:
            if p.startswith("<"):
                if p in seen:
                    continue
                seen.add(p)
            ok.append(p)
        s = "/" + "/".join(ok)
        if ok and rnd.random() < 0.5:
            s += "/"
        out.append(s)
    return out


def gen_map(rnd):
    host_matching = rnd.random() < 0.2
    rules = []
    strings = gen_rule_strings(rnd)
    for i, s in enumerate(strings):
        kw = {}
        kw["endpoint"] = rnd.choice(["e0", "e1", f"e{i}"])
        if rnd.random() < 0.3:
            kw["strict_slashes"] = rnd.random() < 0.5
        if rnd.random() < 0.3:
            kw["merge_slashes"] = rnd.random() < 0.5
        if rnd.random() < 0.3:
            kw["methods"] = rnd.sample(["GET", "POST", "PUT"], rnd.randint(1, 2))
        if rnd.random() < 0.1:
            kw["websocket"] = True
            kw.pop("methods", None)
        if rnd.random() < 0.2:
            kw["alias"] = True
        if rnd.random() < 0.1:
            kw["build_only"] = True
        if rnd.random() < 0.08:
            kw["redirect_to"] = rnd.choice(["/target", "other/<n>", "//x.test/y"])
        if rnd.random() < 0.35:
            d = {}
            for name, val in (("n", 1), ("name", "foo"), ("lang", "en"), ("q", "z")):
                if f":{name}>" not in s and f"<{name}>" not in s and rnd.random() < 0.4:
                    d[name] = val
            if d:
                kw["defaults"] = d
        if host_matching:
            kw["host"] = rnd.choice(["example.com", "<h>.example.com", "other.test"])
        elif rnd.random() < 0.2:
            kw["subdomain"] = rnd.choice(["www", "<sub>", "api"])
        try:
            rules.append(Rule(s, **kw))
        except Exception:
            continue
    # add twins with defaults to exercise default redirects
    if rnd.random() < 0.6:
        ep = "dflt"
        sd = rnd.choice([None, "www"]) if not host_matching else None
        extra = {}
        if host_matching:
            extra["host"] = "example.com"
        elif sd:
            extra["subdomain"] = sd
        base = rnd.choice(["/pages", "/pages/", "/", "/a/b/"])
        tail = "" if base.endswith("/") else "/"
        slash = rnd.choice(["", "/"])
        rules.append(Rule(base.rstrip("/") + slash if base != "/" else "/", defaults={"n": 1}, endpoint=ep, **extra))
        rules.append(Rule(f"{base}{tail}<int:n>{slash}", endpoint=ep, **extra))
        if rnd.random() < 0.5:
            rules.append(Rule(f"{base}{tail}alias/<int:n>", endpoint=ep, alias=True, **extra))
    if rnd.random() < 0.2:
        rules = [Submount("/sub", rules)]
    mkw = {}
    if rnd.random() < 0.3:
        mkw["strict_slashes"] = False
    if rnd.random() < 0.3:
        mkw["merge_slashes"] = False
    if rnd.random() < 0.2:
        mkw["redirect_defaults"] = False
    try:
        m = Map(rules, host_matching=host_matching, **mkw)
        m.update()
    except Exception:
        return None
    return m


def gen_bind(rnd, m):
    kw = {}
    server_name = rnd.choice(["example.com", "example.com", "example.com:8080", "localhost", "a.example.com", "other.test"])
    if rnd.random() < 0.5:
        kw["script_name"] = rnd.choice(["/", "/app", "/app/", "//app//", "", "app"])
    if not m.host_matching:
        subs = sorted({r.subdomain for r in m._rules if r.subdomain and "<" not in r.subdomain})
        if subs and rnd.random() < 0.6:
            kw["subdomain"] = rnd.choice(subs)
        elif rnd.random() < 0.25:
            kw["subdomain"] = rnd.choice(["www", "", "api", "x.y"])
    if rnd.random() < 0.5:
        kw["url_scheme"] = rnd.choice(["http", "https", "ws", "wss", ""])
    if rnd.random() < 0.3:
        kw["default_method"] = rnd.choice(["GET", "POST", "get"])
    if rnd.random() < 0.3:
        kw["query_args"] = rnd.choice(["a=1&b=2", {"k": "v w"}, "", {}, {"x": [1, 2]}, "q=%2F%2Fevil"])
    if rnd.random() < 0.2:
        kw["path_info"] = rnd.choice(["/foo", "", "//evil.com", "/pages"])
    return m.bind(server_name, **kw)


def rule_paths(rnd, m):
    out = []
    for r in m._rules:
        s = r.rule
        for a, b in (("<int:n>", "1"), ("<int:n>", "7"), ("<name>", "foo"), ("<name>", "zz"),
                     ("<path:p>", "x/y"), ("<path:p>", "x//y/"), ("<any(en,de):lang>", "en"),
                     ("<any(en,de):lang>", "de")):
            if a in s and rnd.random() < 0.5:
                s = s.replace(a, b)
        for a, b in (("<int:n>", "1"), ("<name>", "foo"), ("<path:p>", "x/y"), ("<any(en,de):lang>", "en")):
            s = s.replace(a, b)
        out.append(s)
    return out


def gen_path(rnd, m, base_paths):
    c = rnd.random()
    if c < 0.6 and base_paths:
        p = rnd.choice(base_paths)
    else:
        p = "/" + "/".join(rnd.choice(SEGS) for _ in range(rnd.randint(0, 4)))
    # mutations
    for _ in range(rnd.randint(0, 3)):
        c = rnd.random()
        if c < 0.2:
            p = p.rstrip("/")
        elif c < 0.4:
            p = p + "/"
        elif c < 0.55:
            p = p.replace("/", "//", rnd.randint(1, 2))
        elif c < 0.65:
            p = "/" + p
        elif c < 0.72:
            p = "//evil.com" + p
        elif c < 0.78:
            p = p.lstrip("/")
        elif c < 0.84:
            p = p + "//"
        elif c < 0.88:
            p = "/\\evil.com" + p
        elif c < 0.92:
            p = p.replace("/", "///", 1)
        elif c < 0.95:
            p = ""
    if rnd.random() < 0.02:
        return None
    return p


def outcome(fn):
    try:
        r = fn()
    except RequestRedirect as e:
        return ("RequestRedirect", e.new_url, e.code)
    except MethodNotAllowed as e:
        return ("MethodNotAllowed", sorted(e.valid_methods or []))
    except HTTPException as e:
        return (type(e).__name__, e.code)
    except RequestPath as e:
        return ("RequestPath", e.path_info)
    except RequestAliasRedirect as e:
        return ("RequestAliasRedirect", repr(e.endpoint), repr(sorted(e.matched_values.items())))
    except NoMatch as e:
        return ("NoMatch", sorted(e.have_match_for), e.websocket_mismatch)
    except Exception as e:  # noqa: B902
        return (type(e).__name__, str(e))
    return ("ok", repr(r))


@contextlib.contextmanager
def patched(cls, **funcs):
    saved = {k: cls.__dict__[k] for k in funcs}
    for k, v in funcs.items():
        setattr(cls, k, v)
    try:
        yield
    finally:
        for k, v in saved.items():
            setattr(cls, k, v)


def follow(adapter, path, method, limit=6):
    """Follow router redirects on the bound host; returns the trace."""
    from urllib.parse import unquote
    from urllib.parse import urlsplit

    trace = []
    for _ in range(limit):
        o = outcome(lambda: adapter.match(path, method))
        trace.append(o)
        if o[0] != "RequestRedirect":
            break
        parts = urlsplit(o[1])
        trace.append((parts.scheme, parts.netloc, parts.query))
        script = adapter.script_name.rstrip("/")
        new_path = unquote(parts.path)
        if script and new_path.startswith(script):
            new_path = new_path[len(script):]
        if new_path == path:
            break
        path = new_path
    return trace
# ---- end of shared harness ----
# ---- ORIGINAL implementations (unmodified tree) of Rule.provides_defaults_for,
# ---- MapAdapter.get_default_redirect and MapAdapter.make_alias_redirect_url
import copy

from werkzeug.routing.map import MapAdapter


def orig_provides_defaults_for(self, rule):
    return bool(
        not self.build_only
        and self.defaults
        and self.endpoint == rule.endpoint
        and self != rule
        and self.arguments == rule.arguments
    )


def orig_get_default_redirect(self, rule, method, values, query_args):
    assert self.map.redirect_defaults
    for r in self.map._rules_by_endpoint[rule.endpoint]:
        # every rule that comes after this one, including ourself
        # has a lower priority for the defaults.  We order the ones
        # with the highest priority up for building.
        if r is rule:
            break
        if r.provides_defaults_for(rule) and r.suitable_for(values, method):
            values.update(r.defaults)  # type: ignore
            domain_part, path = r.build(values)  # type: ignore
            return self.make_redirect_url(path, query_args, domain_part=domain_part)
    return None


def orig_make_alias_redirect_url(self, path, endpoint, values, method, query_args):
    url = self.build(
        endpoint, values, method, append_unknown=False, force_external=True
    )
    if query_args:
        url += f"?{self.encode_query_args(query_args)}"
    assert url != path, "detected invalid alias setting. No canonical URL found"
    return url


ORIG_ADAPTER = dict(
    get_default_redirect=orig_get_default_redirect,
    make_alias_redirect_url=orig_make_alias_redirect_url,
)
ORIG_RULE = dict(provides_defaults_for=orig_provides_defaults_for)


@contextlib.contextmanager
def original():
    with patched(MapAdapter, **ORIG_ADAPTER), patched(Rule, **ORIG_RULE):
        yield


QUERY_ARGS = [None, "", "a=1", "q=%2F%2Fevil.com", {}, {"a": "1"}, {"k": "v w"}, {"x": [1, 2]}, [("a", "b")]]


def main():
    rnd = random.Random(31337)
    n_cases = 0
    n_direct = 0
    kinds = {}
    mismatches = []
    while n_cases < 30000:
        m = gen_map(rnd)
        if m is None:
            continue
        base = rule_paths(rnd, m)
        rules = list(m._rules)
        # 1. provides_defaults_for on every ordered pair of rules
        for r1 in rules:
            for r2 in rules:
                n_direct += 1
                a = outcome(lambda: r1.provides_defaults_for(r2))
                b = outcome(lambda: orig_provides_defaults_for(r1, r2))
                if a != b:
                    mismatches.append(("provides_defaults_for", r1.rule, r2.rule, a, b))
                kinds["pdf:" + a[1]] = kinds.get("pdf:" + a[1], 0) + 1
        for _ in range(3):
            adapter = gen_bind(rnd, m)
            # 2. direct get_default_redirect / make_alias_redirect_url
            for r in rules:
                for _ in range(2):
                    n_direct += 1
                    vals = {"n": rnd.choice([1, 2]), "name": rnd.choice(["foo", "nm"]), "p": "u/v",
                            "lang": rnd.choice(["en", "de"]), "h": "hh", "sub": "ss", "q": "z"}
                    vals = {k: v for k, v in vals.items() if k in r.arguments or rnd.random() < 0.2}
                    method = rnd.choice(["GET", "POST", "PUT"])
                    qa = rnd.choice(QUERY_ARGS[1:])
                    if m.redirect_defaults:
                        va, vb = dict(vals), dict(vals)
                        a = outcome(lambda: adapter.get_default_redirect(r, method, va, qa))
                        with original():
                            b = outcome(lambda: adapter.get_default_redirect(r, method, vb, qa))
                        if a != b or va != vb:
                            mismatches.append(("get_default_redirect", r.rule, vals, a, b, va, vb))
                        kinds["gdr:" + a[0] + ":" + str(a[1] != "None")] = kinds.get("gdr:" + a[0] + ":" + str(a[1] != "None"), 0) + 1
                    p = rnd.choice(["x|/y", f"http://{adapter.get_host(None)}/"] + base)
                    a = outcome(lambda: adapter.make_alias_redirect_url(p, r.endpoint, vals, method, qa))
                    with original():
                        b = outcome(lambda: adapter.make_alias_redirect_url(p, r.endpoint, vals, method, qa))
                    if a != b:
                        mismatches.append(("make_alias_redirect_url", r.rule, vals, a, b))
                    kinds["alias:" + a[0]] = kinds.get("alias:" + a[0], 0) + 1
            # 3. end to end through MapAdapter.match
            for _ in range(12):
                n_cases += 1
                path = gen_path(rnd, m, base)
                method = rnd.choice(["GET", "GET", "POST", "PUT", "HEAD", None])
                ws = rnd.choice([None, None, True, False])
                qa = rnd.choice([None, None, "x=1", {"y": "2 3"}, ""])
                a = outcome(lambda: adapter.match(path, method, query_args=qa, websocket=ws))
                with original():
                    b = outcome(lambda: adapter.match(path, method, query_args=qa, websocket=ws))
                if a != b:
                    mismatches.append(("adapter", [r.rule for r in m._rules], path, method, ws, a, b))
                kinds["match:" + a[0]] = kinds.get("match:" + a[0], 0) + 1
                if path is not None and a[0] == "RequestRedirect":
                    ta = follow(adapter, path, method)
                    with original():
                        tb = follow(adapter, path, method)
                    if ta != tb:
                        mismatches.append(("follow", path, ta, tb))
    print("direct", n_direct, "match cases", n_cases)
    print("outcome kinds", dict(sorted(kinds.items())))
    if mismatches:
        for mm in mismatches[:10]:
            print("MISMATCH", mm)
        print("FAIL", len(mismatches))
        raise SystemExit(1)
    print("PASS")


if __name__ == "__main__":
    main()
