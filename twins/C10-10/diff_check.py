"""Differential check for refactoring 1 (C10).

Compares the refactored ``MultipartDecoder.receive_data`` / ``next_event`` from the
worktree against the ORIGINAL implementations pasted below (as overrides on a
subclass), driving both with identical chunked input and limits.

Run: cd /tmp/wt10-C10 && PYTHONPATH=/tmp/wt10-C10/src /venv/bin/python /tmp/twin6-C10/1/diff_check.py
"""

from __future__ import annotations

import random
import sys
import typing as t

from werkzeug.exceptions import RequestEntityTooLarge
from werkzeug.http import parse_options_header
from werkzeug.sansio import multipart as mp
from werkzeug.sansio.multipart import BLANK_LINE_RE
from werkzeug.sansio.multipart import Data
from werkzeug.sansio.multipart import Epilogue
from werkzeug.sansio.multipart import Event
from werkzeug.sansio.multipart import Field
from werkzeug.sansio.multipart import File
from werkzeug.sansio.multipart import MultipartDecoder
from werkzeug.sansio.multipart import NEED_DATA
from werkzeug.sansio.multipart import NeedData
from werkzeug.sansio.multipart import Preamble
from werkzeug.sansio.multipart import SEARCH_EXTRA_LENGTH
from werkzeug.sansio.multipart import State


class OrigDecoder(MultipartDecoder):
    """Original (pre-refactoring) receive_data and next_event, pasted verbatim."""

    def receive_data(self, data: bytes | None) -> None:
        if data is None:
            self.complete = True
        elif (
            self.max_form_memory_size is not None
            and len(self.buffer) + len(data) > self.max_form_memory_size
        ):
            # Ensure that data within single event does not exceed limit.
            # Also checked across accumulated events in MultiPartParser.
            raise RequestEntityTooLarge()
        else:
            self.buffer.extend(data)

    def next_event(self) -> Event:
        event: Event = NEED_DATA

        if self.state == State.PREAMBLE:
            match = self.preamble_re.search(self.buffer, self._search_position)
            if match is not None:
                if match.group(1).startswith(b"--"):
                    self.state = State.EPILOGUE
                else:
                    self.state = State.PART
                data = bytes(self.buffer[: match.start()])
                del self.buffer[: match.end()]
                event = Preamble(data=data)
                self._search_position = 0
            else:
                # Update the search start position to be equal to the
                # current buffer length (already searched) minus a
                # safe buffer for part of the search target.
                self._search_position = max(
                    0, len(self.buffer) - len(self.boundary) - SEARCH_EXTRA_LENGTH
                )

        elif self.state == State.PART:
            match = BLANK_LINE_RE.search(self.buffer, self._search_position)
            if match is not None:
                headers = self._parse_headers(self.buffer[: match.start()])
                # The final header ends with a single CRLF, however a
                # blank line indicates the start of the
                # body. Therefore the end is after the first CRLF.
                headers_end = (match.start() + match.end()) // 2
                del self.buffer[:headers_end]

                if "content-disposition" not in headers:
                    raise ValueError("Missing Content-Disposition header")

                disposition, extra = parse_options_header(
                    headers["content-disposition"]
                )
                name = t.cast(str, extra.get("name"))
                filename = extra.get("filename")
                if filename is not None:
                    event = File(
                        filename=filename,
                        headers=headers,
                        name=name,
                    )
                else:
                    event = Field(
                        headers=headers,
                        name=name,
                    )
                self.state = State.DATA_START
                self._search_position = 0
                self._parts_decoded += 1

                if self.max_parts is not None and self._parts_decoded > self.max_parts:
                    raise RequestEntityTooLarge()
            else:
                # Update the search start position to be equal to the
                # current buffer length (already searched) minus a
                # safe buffer for part of the search target.
                self._search_position = max(0, len(self.buffer) - SEARCH_EXTRA_LENGTH)

        elif self.state == State.DATA_START:
            data, del_index, more_data = self._parse_data(self.buffer, start=True)
            del self.buffer[:del_index]
            event = Data(data=data, more_data=more_data)
            if more_data:
                self.state = State.DATA

        elif self.state == State.DATA:
            data, del_index, more_data = self._parse_data(self.buffer, start=False)
            del self.buffer[:del_index]
            if data or not more_data:
                event = Data(data=data, more_data=more_data)

        elif self.state == State.EPILOGUE and self.complete:
            event = Epilogue(data=bytes(self.buffer))
            del self.buffer[:]
            self.state = State.COMPLETE

        if self.complete and isinstance(event, NeedData):
            raise ValueError(f"Invalid form-data cannot parse beyond {self.state}")

        return event


assert "receive_data" in MultipartDecoder.__dict__
assert MultipartDecoder.receive_data is not OrigDecoder.receive_data
assert MultipartDecoder.next_event is not OrigDecoder.next_event
assert mp.__file__.startswith("/tmp/wt10-C10/"), mp.__file__

NLS = [b"\r\n", b"\n", b"\r"]


def rand_bytes(rng: random.Random, n: int) -> bytes:
    alphabet = b"abcXYZ019 -\r\n=&%\xc3\xa9"
    return bytes(rng.choice(alphabet) for _ in range(n))


def make_body(rng: random.Random, boundary: bytes) -> bytes:
    nl = rng.choice(NLS) if rng.random() < 0.2 else b"\r\n"
    out = bytearray()
    if rng.random() < 0.3:
        out += rand_bytes(rng, rng.randint(0, 40)).replace(b"-", b"_")
        out += nl
    n_parts = rng.choice([0, 1, 1, 2, 3, 5, 8, 12])
    for i in range(n_parts):
        out += b"--" + boundary
        if rng.random() < 0.1:
            out += b"  "
        out += nl
        kind = rng.random()
        name = f"n{i}".encode()
        if kind < 0.55:
            out += b'Content-Disposition: form-data; name="' + name + b'"' + nl
        elif kind < 0.9:
            out += (
                b'Content-Disposition: form-data; name="'
                + name
                + b'"; filename="f'
                + name
                + b'.txt"'
                + nl
            )
            out += b"Content-Type: text/plain; charset=utf-8" + nl
            if rng.random() < 0.3:
                out += b"Content-Length: 5" + nl
        elif kind < 0.95:
            out += b"X-Other: 1" + nl  # missing content-disposition
        else:
            out += b"Content-Disposition: form-data;" + nl + b" name=" + name + nl
        out += nl
        size = rng.choice([0, 1, 3, 10, 30, 64, 100, 200, 400])
        out += rand_bytes(rng, size)
        out += nl
    if rng.random() < 0.9:
        out += b"--" + boundary + b"--"
        if rng.random() < 0.7:
            out += nl
        if rng.random() < 0.2:
            out += rand_bytes(rng, rng.randint(0, 20))
    body = bytes(out)
    r = rng.random()
    if r < 0.08 and body:
        body = body[: rng.randint(0, len(body))]  # truncated
    elif r < 0.12:
        body = rand_bytes(rng, rng.randint(0, 300))  # junk / undelimited input
    return body


def chunks(rng: random.Random, body: bytes) -> list[bytes | None]:
    mode = rng.random()
    out: list[bytes | None] = []
    if mode < 0.2:
        if body:
            out.append(body)
    else:
        size_hi = rng.choice([1, 3, 7, 16, 50, 128, 1000])
        i = 0
        while i < len(body):
            n = rng.randint(1, size_hi)
            out.append(body[i : i + n])
            i += n
    if rng.random() < 0.05:
        out.insert(rng.randint(0, len(out)), b"")
    out.append(None)
    if rng.random() < 0.05:
        out.append(b"extra")
        out.append(None)
    return out


def snapshot(d: MultipartDecoder) -> tuple[t.Any, ...]:
    return (
        bytes(d.buffer),
        d.complete,
        d.state,
        d._search_position,
        d._parts_decoded,
    )


def ev_repr(e: Event) -> t.Any:
    if isinstance(e, NeedData):
        return ("NeedData", e is NEED_DATA)
    if isinstance(e, (Field, File)):
        return (type(e).__name__, e.name, getattr(e, "filename", None), list(e.headers))
    return (type(e).__name__, repr(e))


def drive(cls: type[MultipartDecoder], boundary, mfms, mparts, feed) -> list[t.Any]:
    trace: list[t.Any] = []
    d = cls(boundary, mfms, max_parts=mparts)
    for chunk in feed:
        try:
            ret = d.receive_data(chunk)
            trace.append(("recv", ret))
        except Exception as exc:  # noqa: B902
            trace.append(("recv-exc", type(exc), str(exc)))
            trace.append(snapshot(d))
            break
        trace.append(snapshot(d))
        stop = False
        for _ in range(10_000):
            try:
                ev = d.next_event()
            except Exception as exc:  # noqa: B902
                trace.append(("next-exc", type(exc), str(exc)))
                trace.append(snapshot(d))
                stop = True
                break
            trace.append(ev_repr(ev))
            trace.append(snapshot(d))
            if isinstance(ev, (Epilogue, NeedData)):
                break
        if stop:
            break
    return trace


def main() -> int:
    rng = random.Random(0xC10_1)
    n = 6000
    stats = {"413": 0, "valueerror": 0, "ok": 0}
    for i in range(n):
        boundary = rng.choice([b"b", b"boundary", b"----WebKitFormBoundaryX1", b"a.b+c"])
        body = make_body(rng, boundary)
        feed = chunks(rng, body)
        mfms = rng.choice([None, None, 0, 1, 5, 20, 50, 100, 150, 300, 1000, 10**6])
        mparts = rng.choice([None, None, 0, 1, 2, 3, 5, 8, 12, 1000])
        a = drive(OrigDecoder, boundary, mfms, mparts, feed)
        b = drive(MultipartDecoder, boundary, mfms, mparts, feed)
        if a != b:
            print("MISMATCH", i, boundary, mfms, mparts, body, feed)
            print(a)
            print(b)
            print("FAIL")
            return 1
        flat = [x for x in a if isinstance(x, tuple) and x and x[0] in ("recv-exc", "next-exc")]
        if flat and flat[0][1] is RequestEntityTooLarge:
            stats["413"] += 1
        elif flat:
            stats["valueerror"] += 1
        else:
            stats["ok"] += 1
    print(n, "cases", stats)
    print("PASS")
    return 0


if __name__ == "__main__":
    sys.exit(main())
