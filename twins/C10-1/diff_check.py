"""Differential check for refactoring 1 (C10).

Compares werkzeug.sansio.multipart.MultipartDecoder.receive_data / next_event from
the worktree against the ORIGINAL implementations pasted below (OrigDecoder), by
driving both decoders with identical chunk sequences and comparing every event,
every raised exception type, and the decoder state after every step. Also runs the
whole parse_form_data pipeline with the decoder class swapped.

Run: cd /tmp/wt3-C10 && PYTHONPATH=/tmp/wt3-C10/src /venv/bin/python /tmp/twin-C10/1/diff_check.py
"""

from __future__ import annotations

import io
import random
import sys
import typing as t

import werkzeug.formparser as formparser
from werkzeug.exceptions import RequestEntityTooLarge
from werkzeug.http import parse_options_header
from werkzeug.sansio import multipart as mp
from werkzeug.sansio.multipart import BLANK_LINE_RE
from werkzeug.sansio.multipart import Data
from werkzeug.sansio.multipart import Epilogue
from werkzeug.sansio.multipart import Event
from werkzeug.sansio.multipart import Field
from werkzeug.sansio.multipart import File
from werkzeug.sansio.multipart import MultipartDecoder
from werkzeug.sansio.multipart import NEED_DATA
from werkzeug.sansio.multipart import NeedData
from werkzeug.sansio.multipart import Preamble
from werkzeug.sansio.multipart import SEARCH_EXTRA_LENGTH
from werkzeug.sansio.multipart import State


class OrigDecoder(MultipartDecoder):
    # ---- ORIGINAL code, pasted verbatim from the unmodified tree ----
    def receive_data(self, data: bytes | None) -> None:
        if data is None:
            self.complete = True
        elif (
            self.max_form_memory_size is not None
            and len(self.buffer) + len(data) > self.max_form_memory_size
        ):
            # Ensure that data within single event does not exceed limit.
            # Also checked across accumulated events in MultiPartParser.
            raise RequestEntityTooLarge()
        else:
            self.buffer.extend(data)

    def next_event(self) -> Event:
        event: Event = NEED_DATA

        if self.state == State.PREAMBLE:
            match = self.preamble_re.search(self.buffer, self._search_position)
            if match is not None:
                if match.group(1).startswith(b"--"):
                    self.state = State.EPILOGUE
                else:
                    self.state = State.PART
                data = bytes(self.buffer[: match.start()])
                del self.buffer[: match.end()]
                event = Preamble(data=data)
                self._search_position = 0
            else:
                # Update the search start position to be equal to the
                # current buffer length (already searched) minus a
                # safe buffer for part of the search target.
                self._search_position = max(
                    0, len(self.buffer) - len(self.boundary) - SEARCH_EXTRA_LENGTH
                )

        elif self.state == State.PART:
            match = BLANK_LINE_RE.search(self.buffer, self._search_position)
            if match is not None:
                headers = self._parse_headers(self.buffer[: match.start()])
                # The final header ends with a single CRLF, however a
                # blank line indicates the start of the
                # body. Therefore the end is after the first CRLF.
                headers_end = (match.start() + match.end()) // 2
                del self.buffer[:headers_end]

                if "content-disposition" not in headers:
                    raise ValueError("Missing Content-Disposition header")

                disposition, extra = parse_options_header(
                    headers["content-disposition"]
                )
                name = t.cast(str, extra.get("name"))
                filename = extra.get("filename")
                if filename is not None:
                    event = File(
                        filename=filename,
                        headers=headers,
                        name=name,
                    )
                else:
                    event = Field(
                        headers=headers,
                        name=name,
                    )
                self.state = State.DATA_START
                self._search_position = 0
                self._parts_decoded += 1

                if self.max_parts is not None and self._parts_decoded > self.max_parts:
                    raise RequestEntityTooLarge()
            else:
                # Update the search start position to be equal to the
                # current buffer length (already searched) minus a
                # safe buffer for part of the search target.
                self._search_position = max(0, len(self.buffer) - SEARCH_EXTRA_LENGTH)

        elif self.state == State.DATA_START:
            data, del_index, more_data = self._parse_data(self.buffer, start=True)
            del self.buffer[:del_index]
            event = Data(data=data, more_data=more_data)
            if more_data:
                self.state = State.DATA

        elif self.state == State.DATA:
            data, del_index, more_data = self._parse_data(self.buffer, start=False)
            del self.buffer[:del_index]
            if data or not more_data:
                event = Data(data=data, more_data=more_data)

        elif self.state == State.EPILOGUE and self.complete:
            event = Epilogue(data=bytes(self.buffer))
            del self.buffer[:]
            self.state = State.COMPLETE

        if self.complete and isinstance(event, NeedData):
            raise ValueError(f"Invalid form-data cannot parse beyond {self.state}")

        return event

    # ---- end of ORIGINAL code ----


NLS = [b"\r\n", b"\r\n", b"\r\n", b"\n", b"\r"]
BOUNDARIES = [b"boundary", b"----WebKitFormBoundaryXyZ", b"b", b"a-b.c+d", b"x" * 40]


def rand_bytes(rng: random.Random, n: int) -> bytes:
    mode = rng.randrange(4)
    if mode == 0:
        return bytes(rng.randrange(256) for _ in range(n))
    if mode == 1:
        return bytes(rng.choice(b"ab \r\n-") for _ in range(n))
    if mode == 2:
        return (b"x" * n)
    return bytes(rng.choice(b"abcdefghij0123456789 ") for _ in range(n))


def gen_body(rng: random.Random) -> tuple[bytes, bytes]:
    boundary = rng.choice(BOUNDARIES)
    nl = rng.choice(NLS)
    out = bytearray()
    if rng.random() < 0.3:
        out += rand_bytes(rng, rng.randrange(0, 30))
        if rng.random() < 0.7:
            out += nl
    nparts = rng.choice([0, 1, 1, 2, 3, 4, 6, 10])
    for i in range(nparts):
        out += b"--" + boundary + (b" " if rng.random() < 0.1 else b"") + nl
        kind = rng.randrange(10)
        name = rng.choice(["a", "b", "field%d" % i, "na me", ""])
        if kind < 5:
            out += b'Content-Disposition: form-data; name="%s"' % name.encode() + nl
        elif kind < 8:
            out += (
                b'Content-Disposition: form-data; name="%s"; filename="%s"'
                % (name.encode(), rng.choice([b"f.txt", b"", b"x y.bin"]))
                + nl
            )
            if rng.random() < 0.6:
                out += b"Content-Type: text/plain; charset=utf-8" + nl
            if rng.random() < 0.2:
                out += b"Content-Length: %d" % rng.randrange(0, 50) + nl
        elif kind == 8:
            out += b"X-Other: 1" + nl  # missing content-disposition
        else:
            out += b"Content-Disposition: form-data" + nl  # no name
        if rng.random() < 0.15:
            out += b"X-Folded: a" + nl + b"\t continued" + nl
        out += nl
        size = rng.choice([0, 1, 5, 20, 60, 200, 700, 3000])
        out += rand_bytes(rng, size)
        out += nl
    out += b"--" + boundary + b"--" + (nl if rng.random() < 0.8 else b"")
    if rng.random() < 0.2:
        out += rand_bytes(rng, rng.randrange(0, 20))
    body = bytes(out)
    # mutations
    m = rng.random()
    if m < 0.12 and body:
        body = body[: rng.randrange(len(body))]
    elif m < 0.18 and body:
        i = rng.randrange(len(body))
        body = body[:i] + rand_bytes(rng, rng.randrange(1, 10)) + body[i:]
    elif m < 0.21:
        body = rand_bytes(rng, rng.randrange(0, 400))
    return boundary, body


def gen_chunks(rng: random.Random, body: bytes) -> list[bytes | None]:
    mode = rng.randrange(4)
    chunks: list[bytes | None] = []
    if mode == 0:
        chunks.append(body)
    else:
        size = rng.choice([1, 2, 3, 7, 16, 64, 100, 500, 4096])
        i = 0
        while i < len(body):
            n = size if mode == 1 else rng.randrange(1, size + 1)
            chunks.append(body[i : i + n])
            i += n
    if rng.random() < 0.05:
        chunks.insert(rng.randrange(len(chunks) + 1), b"")
    if rng.random() < 0.95:
        chunks.append(None)
    return chunks


def gen_limits(rng: random.Random, body: bytes) -> tuple[int | None, int | None]:
    mem = rng.choice(
        [None, None, 0, 1, 5, 20, 64, 100, 200, 500, 1000, len(body), len(body) + 1,
         max(0, len(body) - 1), 10**6]
    )
    parts = rng.choice([None, None, 0, 1, 2, 3, 4, 5, 6, 10, 1000])
    return mem, parts


def ev_repr(event: Event) -> t.Any:
    if isinstance(event, NeedData):
        return ("NeedData",)
    if isinstance(event, (Field, File)):
        return (
            type(event).__name__,
            event.name,
            getattr(event, "filename", None),
            list(event.headers),
        )
    return (type(event).__name__, repr(event))


def snapshot(d: MultipartDecoder) -> t.Any:
    return (
        bytes(d.buffer),
        d.complete,
        d.state,
        d._search_position,
        d._parts_decoded,
    )


def drive(cls: type[MultipartDecoder], boundary, chunks, mem, parts) -> list[t.Any]:
    trace: list[t.Any] = []
    d = cls(boundary, mem, max_parts=parts)
    for chunk in chunks:
        try:
            r = d.receive_data(chunk)
            trace.append(("recv", r, snapshot(d)))
        except Exception as e:
            trace.append(("recv-exc", type(e), str(e), snapshot(d)))
            # keep going: state after a failed receive must match too
        for _ in range(10000):
            try:
                event = d.next_event()
            except Exception as e:
                trace.append(("next-exc", type(e), str(e), snapshot(d)))
                break
            trace.append(("event", ev_repr(event), snapshot(d)))
            if isinstance(event, (NeedData, Epilogue)):
                break
        else:
            raise AssertionError("runaway")
    return trace


def run_pipeline(cls, boundary: bytes, body: bytes, mem, parts, mcl, bufsize) -> t.Any:
    saved = formparser.MultipartDecoder
    formparser.MultipartDecoder = cls  # type: ignore[misc]
    try:
        environ = {
            "wsgi.input": io.BytesIO(body),
            "CONTENT_LENGTH": str(len(body)),
            "CONTENT_TYPE": "multipart/form-data; boundary=" + boundary.decode(),
            "REQUEST_METHOD": "POST",
        }
        try:
            stream, form, files = formparser.parse_form_data(
                environ,
                max_form_memory_size=mem,
                max_content_length=mcl,
                max_form_parts=parts,
                silent=bool(bufsize % 2),
            )
        except Exception as e:
            return ("exc", type(e), str(e))
        return (
            "ok",
            list(form.items(multi=True)),
            [
                (k, v.filename, v.name, list(v.headers), v.stream.read())
                for k, v in files.items(multi=True)
            ],
        )
    finally:
        formparser.MultipartDecoder = saved  # type: ignore[misc]


def main() -> int:
    rng = random.Random(0xC10_1)
    n = 0
    outcomes: dict[str, int] = {}
    for i in range(6000):
        boundary, body = gen_body(rng)
        chunks = gen_chunks(rng, body)
        mem, parts = gen_limits(rng, body)
        a = drive(OrigDecoder, boundary, chunks, mem, parts)
        b = drive(MultipartDecoder, boundary, chunks, mem, parts)
        if a != b:
            print("FAIL decoder", i, boundary, body, chunks, mem, parts)
            for x, y in zip(a, b):
                if x != y:
                    print(" orig:", x)
                    print(" new :", y)
                    break
            return 1
        for step in a:
            if step[0].endswith("exc"):
                key = step[0] + ":" + step[1].__name__
                outcomes[key] = outcomes.get(key, 0) + 1
        n += 1

        mcl = rng.choice([None, None, len(body), max(0, len(body) - 1), 10**6])
        bufsize = rng.randrange(100)
        pa = run_pipeline(OrigDecoder, boundary, body, mem, parts, mcl, bufsize)
        pb = run_pipeline(MultipartDecoder, boundary, body, mem, parts, mcl, bufsize)
        if pa != pb:
            print("FAIL pipeline", i, boundary, body, mem, parts, mcl)
            print(" orig:", pa)
            print(" new :", pb)
            return 1
        key = "pipe:" + (pa[0] if pa[0] == "ok" else pa[1].__name__)
        outcomes[key] = outcomes.get(key, 0) + 1
        n += 1

    print("cases:", n, "outcomes:", dict(sorted(outcomes.items())))
    print("PASS")
    return 0


if __name__ == "__main__":
    sys.exit(main())
