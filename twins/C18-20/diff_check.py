"""Differential check for C18 refactoring: drive the refactored
werkzeug.local (from the worktree) and a reference module built from the
ORIGINAL Local / LocalStack source pasted below through identical random
operation sequences interleaved over several contexts (contextvars
Contexts, lock-stepped threads, asyncio tasks) and compare every result,
exception type/args/chain, raw ContextVar content and object-identity
(copy-on-write) observations.

Run: cd /tmp/wt14-C18 && PYTHONPATH=/tmp/wt14-C18/src /venv/bin/python <this file>
"""

ORIG_SEGMENT = r'''class Local:
    """Create a namespace of context-local data. This wraps a
    :class:`ContextVar` containing a :class:`dict` value.

    This may incur a performance penalty compared to using individual
    context vars, as it has to copy data to avoid mutating the dict
    between nested contexts.

    :param context_var: The :class:`~contextvars.ContextVar` to use as
        storage for this local. If not given, one will be created.
        Context vars not created at the global scope may interfere with
        garbage collection.

    .. versionchanged:: 2.0
        Uses ``ContextVar`` instead of a custom storage implementation.
    """

    __slots__ = ("__storage",)

    def __init__(self, context_var: ContextVar[dict[str, t.Any]] | None = None) -> None:
        if context_var is None:
            # A ContextVar not created at global scope interferes with
            # Python's garbage collection. However, a local only makes
            # sense defined at the global scope as well, in which case
            # the GC issue doesn't seem relevant.
            context_var = ContextVar(f"werkzeug.Local<{id(self)}>.storage")

        object.__setattr__(self, "_Local__storage", context_var)

    def __iter__(self) -> t.Iterator[tuple[str, t.Any]]:
        return iter(self.__storage.get({}).items())

    def __call__(
        self, name: str, *, unbound_message: str | None = None
    ) -> LocalProxy[t.Any]:
        """Create a :class:`LocalProxy` that access an attribute on this
        local namespace.

        :param name: Proxy this attribute.
        :param unbound_message: The error message that the proxy will
            show if the attribute isn't set.
        """
        return LocalProxy(self, name, unbound_message=unbound_message)

    def __release_local__(self) -> None:
        self.__storage.set({})

    def __getattr__(self, name: str) -> t.Any:
        values = self.__storage.get({})

        if name in values:
            return values[name]

        raise AttributeError(name)

    def __setattr__(self, name: str, value: t.Any) -> None:
        values = self.__storage.get({}).copy()
        values[name] = value
        self.__storage.set(values)

    def __delattr__(self, name: str) -> None:
        values = self.__storage.get({})

        if name in values:
            values = values.copy()
            del values[name]
            self.__storage.set(values)
        else:
            raise AttributeError(name)


class LocalStack(t.Generic[T]):
    """Create a stack of context-local data. This wraps a
    :class:`ContextVar` containing a :class:`list` value.

    This may incur a performance penalty compared to using individual
    context vars, as it has to copy data to avoid mutating the list
    between nested contexts.

    :param context_var: The :class:`~contextvars.ContextVar` to use as
        storage for this local. If not given, one will be created.
        Context vars not created at the global scope may interfere with
        garbage collection.

    .. versionchanged:: 2.0
        Uses ``ContextVar`` instead of a custom storage implementation.

    .. versionadded:: 0.6.1
    """

    __slots__ = ("_storage",)

    def __init__(self, context_var: ContextVar[list[T]] | None = None) -> None:
        if context_var is None:
            # A ContextVar not created at global scope interferes with
            # Python's garbage collection. However, a local only makes
            # sense defined at the global scope as well, in which case
            # the GC issue doesn't seem relevant.
            context_var = ContextVar(f"werkzeug.LocalStack<{id(self)}>.storage")

        self._storage = context_var

    def __release_local__(self) -> None:
        self._storage.set([])

    def push(self, obj: T) -> list[T]:
        """Add a new item to the top of the stack."""
        stack = self._storage.get([]).copy()
        stack.append(obj)
        self._storage.set(stack)
        return stack

    def pop(self) -> T | None:
        """Remove the top item from the stack and return it. If the
        stack is empty, return ``None``.
        """
        stack = self._storage.get([])

        if len(stack) == 0:
            return None

        rv = stack[-1]
        self._storage.set(stack[:-1])
        return rv

    @property
    def top(self) -> T | None:
        """The topmost item on the stack.  If the stack is empty,
        `None` is returned.
        """
        stack = self._storage.get([])

        if len(stack) == 0:
            return None

        return stack[-1]

    def __call__(
        self, name: str | None = None, *, unbound_message: str | None = None
    ) -> LocalProxy[t.Any]:
        """Create a :class:`LocalProxy` that accesses the top of this
        local stack.

        :param name: If given, the proxy access this attribute of the
            top item, rather than the item itself.
        :param unbound_message: The error message that the proxy will
            show if the stack is empty.
        """
        return LocalProxy(self, name, unbound_message=unbound_message)


'''


import asyncio
import contextvars
import random
import re
import sys
import threading
import types
from contextvars import ContextVar

WT_FILE = "/tmp/wt14-C18/src/werkzeug/local.py"

import werkzeug.local as new_mod  # noqa: E402  (refactored tree)

assert new_mod.__file__ == WT_FILE, new_mod.__file__


def build_reference_module():
    """Reference module = worktree local.py with the Local / LocalStack
    classes replaced by the pasted ORIGINAL source, so LocalProxy's
    isinstance checks resolve against the original classes."""
    with open(WT_FILE) as f:
        src = f.read()
    start = src.index("class Local:\n")
    end = src.index("class LocalManager:\n")
    ref_src = src[:start] + ORIG_SEGMENT + src[end:]
    mod = types.ModuleType("werkzeug._orig_local")
    mod.__package__ = "werkzeug"
    mod.__file__ = "<original local.py>"
    sys.modules[mod.__name__] = mod
    exec(compile(ref_src, mod.__file__, "exec"), mod.__dict__)
    return mod


ref_mod = build_reference_module()
assert ref_mod.Local is not new_mod.Local

NAMES = ["a", "b", "c", "x1", "", "top", "_Local__storage", "__storage", "é", "copy"]


class Obj:
    """Value with attributes, so stack proxies with a name resolve."""

    def __init__(self, n):
        self.a = n
        self.n = n

    def __repr__(self):
        return f"Obj({self.n})"

    def __eq__(self, other):
        return isinstance(other, Obj) and other.n == self.n

    __hash__ = None


def norm(v):
    if isinstance(v, ContextVar):
        return "<ContextVar>"
    if isinstance(v, (list, tuple)):
        return type(v).__name__, [norm(i) for i in v]
    if isinstance(v, dict):
        return "dict", [(k, norm(i)) for k, i in v.items()]
    if isinstance(v, BaseException):
        return type(v).__name__, [norm(a) for a in v.args], norm_exc_chain(v)
    if isinstance(v, str):
        # object addresses / ids differ between the two module instances
        return re.sub(r"0x[0-9a-f]+|<\d+>", "<ID>", repr(v))
    if isinstance(v, (int, bool, type(None), float, Obj)):
        return repr(v)
    return f"<{type(v).__name__}>"


def norm_exc_chain(e):
    return (
        type(e.__cause__).__name__,
        type(e.__context__).__name__,
        e.__suppress_context__,
    )


def call(f, *a):
    try:
        return "ok", norm(f(*a))
    except BaseException as e:  # noqa: B902
        return "exc", norm(e)


class World:
    """One implementation under test: a Local and a LocalStack over
    explicit ContextVars so the raw storage can be inspected too."""

    def __init__(self, mod, preset):
        self.mod = mod
        self.lvar = ContextVar("lvar")
        self.svar = ContextVar("svar")
        if preset == 1:
            self.lvar.set({"a": 1, "pre": 2})
            self.svar.set([Obj(7), 8])
        elif preset == 2:
            self.lvar = ContextVar("lvar", default={"a": "dflt"})
            self.svar = ContextVar("svar", default=[Obj(5)])
        elif preset == 3:
            self.local = mod.Local()
            self.stack = mod.LocalStack()
            self.lvar = object.__getattribute__(self.local, "_Local__storage")
            self.svar = self.stack._storage
        if preset != 3:
            self.local = mod.Local(self.lvar)
            self.stack = mod.LocalStack(self.svar)
        self.manager = mod.LocalManager([self.local, self.stack])
        self.proxies = {n: self.local(n) for n in NAMES}
        self.sproxy = self.stack()
        self.sproxy_a = self.stack("a")
        self.held = []  # (raw container, deep snapshot) to detect mutation

    def raw(self):
        """Raw storage state in the *current* context, with identity info."""
        out = []
        for var in (self.lvar, self.svar):
            try:
                v = var.get()
            except LookupError:
                out.append("unset")
                continue
            ident = [i for i, (h, _) in enumerate(self.held) if h is v]
            out.append((norm(v), ident[:1]))
            if not ident:
                self.held.append((v, norm(v)))
        return out

    def held_intact(self):
        return all(norm(h) == snap for h, snap in self.held)

    def do(self, op):
        kind = op[0]
        loc, st = self.local, self.stack
        if kind == "get":
            r = call(getattr, loc, op[1])
        elif kind == "getd":
            r = call(getattr, loc, op[1], "DEFAULT")
        elif kind == "has":
            r = call(hasattr, loc, op[1])
        elif kind == "set":
            r = call(setattr, loc, op[1], op[2])
        elif kind == "del":
            r = call(delattr, loc, op[1])
        elif kind == "iter":
            r = call(lambda: list(loc))
        elif kind == "iter2":
            # iterator created, then mutated before being consumed

            def f():
                it = iter(loc)
                loc.zz = 1
                del loc.zz
                return type(it).__name__, list(it)

            r = call(f)
        elif kind == "lrel":
            r = call(self.mod.release_local, loc)
        elif kind == "srel":
            r = call(self.mod.release_local, st)
        elif kind == "cleanup":
            r = call(self.manager.cleanup)
        elif kind == "push":
            rv = None

            def f():
                nonlocal rv
                rv = st.push(op[1])
                return rv

            r = call(f), rv is not None and rv is self.svar.get()
        elif kind == "pop":
            r = call(st.pop)
        elif kind == "top":
            r = call(lambda: st.top)
        elif kind == "pobj":
            r = call(self.proxies[op[1]]._get_current_object)
        elif kind == "pbool":
            r = call(bool, self.proxies[op[1]])
        elif kind == "prepr":
            r = call(repr, self.proxies[op[1]])
        elif kind == "spobj":
            r = call(self.sproxy._get_current_object)
        elif kind == "spbool":
            r = call(bool, self.sproxy)
        elif kind == "sprepr":
            r = call(repr, self.sproxy)
        elif kind == "spa":
            r = call(self.sproxy_a._get_current_object)
        else:
            raise AssertionError(kind)
        return op[0], r, self.raw(), self.held_intact()


def rand_value(rng):
    c = rng.randrange(6)
    if c == 0:
        return None
    if c == 1:
        return rng.randrange(-3, 100)
    if c == 2:
        return Obj(rng.randrange(50))
    if c == 3:
        return [rng.randrange(5)]
    if c == 4:
        return ""
    return rng.choice(["s", 0, False, {}])


def rand_op(rng):
    k = rng.choice(
        ["get", "get", "getd", "has", "set", "set", "set", "del", "del", "iter",
         "iter2", "lrel", "srel", "cleanup", "push", "push", "push", "pop", "pop",
         "top", "top", "pobj", "pbool", "prepr", "spobj", "spbool", "sprepr", "spa"]
    )
    if k in ("get", "getd", "has", "del", "pobj", "pbool", "prepr"):
        return (k, rng.choice(NAMES))
    if k == "set":
        return (k, rng.choice(NAMES), rand_value(rng))
    if k == "push":
        return (k, rand_value(rng))
    return (k,)


def scenario_contexts(mod, seed):
    """Deterministic interleaving of several contextvars.Context objects,
    with children forked (copy of a parent) at random points."""
    rng = random.Random(seed)
    w = World(mod, rng.randrange(4))
    ctxs = [contextvars.copy_context() for _ in range(rng.randrange(1, 4))]
    trace = []
    for _ in range(rng.randrange(10, 60)):
        if rng.random() < 0.08 and len(ctxs) < 6:
            parent = rng.randrange(len(ctxs))
            ctxs.append(ctxs[parent].run(contextvars.copy_context))
            trace.append(("fork", parent))
            continue
        i = rng.randrange(len(ctxs))
        trace.append((i, ctxs[i].run(w.do, rand_op(rng))))
    # final state of every context
    for i, c in enumerate(ctxs):
        trace.append(("final", i, c.run(w.raw), c.run(lambda: list(w.local))))
    trace.append(("main", w.raw()))
    return trace


def scenario_threads(mod, seed):
    """Real threads stepping in lock-step under a random schedule."""
    rng = random.Random(seed)
    w = World(mod, rng.randrange(4))
    n = rng.randrange(2, 5)
    scripts = [[rand_op(rng) for _ in range(rng.randrange(3, 15))] for _ in range(n)]
    order = [i for i, s in enumerate(scripts) for _ in s]
    rng.shuffle(order)
    traces = [[] for _ in range(n)]
    go = [threading.Semaphore(0) for _ in range(n)]
    done = threading.Semaphore(0)

    def worker(i):
        for op in scripts[i]:
            go[i].acquire()
            traces[i].append(w.do(op))
            done.release()

    ths = [threading.Thread(target=worker, args=(i,)) for i in range(n)]
    for th in ths:
        th.start()
    for i in order:
        go[i].release()
        done.acquire()
    for th in ths:
        th.join()
    return traces, w.raw(), list(w.local), w.stack.top


def scenario_asyncio(mod, seed):
    rng = random.Random(seed)
    w = World(mod, rng.randrange(4))
    n = rng.randrange(2, 5)
    pre = [rand_op(rng) for _ in range(rng.randrange(0, 5))]
    scripts = [[rand_op(rng) for _ in range(rng.randrange(3, 12))] for _ in range(n)]
    traces = [[] for _ in range(n)]

    async def task(i):
        for op in scripts[i]:
            traces[i].append(w.do(op))
            await asyncio.sleep(0)

    async def main():
        pre_t = [w.do(op) for op in pre]  # tasks inherit this snapshot
        await asyncio.gather(*(task(i) for i in range(n)))
        return pre_t, w.raw(), list(w.local)

    return asyncio.run(main()), traces


def main():
    n_cases = 0
    for name, fn, count in (
        ("contexts", scenario_contexts, 3000),
        ("threads", scenario_threads, 400),
        ("asyncio", scenario_asyncio, 300),
    ):
        for seed in range(count):
            a = fn(ref_mod, seed)
            b = fn(new_mod, seed)
            if a != b:
                print("FAIL", name, seed)
                print(" ref:", a)
                print(" new:", b)
                return 1
            n_cases += 1
    # unbound-slot object: identical failure mode
    for cls_name in ("Local", "LocalStack"):
        res = []
        for mod in (ref_mod, new_mod):
            cls = getattr(mod, cls_name)
            o = cls.__new__(cls)
            if cls_name == "Local":
                ops = [
                    lambda o=o: o.a,
                    lambda o=o: setattr(o, "a", 1),
                    lambda o=o: delattr(o, "a"),
                    lambda o=o: list(o),
                ]
            else:
                ops = [lambda o=o: o.push(1), o.pop, lambda o=o: o.top]
            res.append([call(f)[1][0] for f in ops])
        if res[0] != res[1]:
            print("FAIL unbound", cls_name, res)
            return 1
    print(f"PASS ({n_cases} scenarios compared)")
    return 0


if __name__ == "__main__":
    sys.exit(main())
