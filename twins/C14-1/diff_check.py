"""Differential check for refactoring 1 (safe_join: extracted _escapes_base helper).

Run: cd /tmp/wt3-C14 && PYTHONPATH=/tmp/wt3-C14/src /venv/bin/python /tmp/twin-C14/1/diff_check.py
"""
import itertools
import os
import posixpath
import random

import werkzeug.security as sec
from werkzeug.security import safe_join as new_safe_join

_os_alt_seps = list(
    sep for sep in [os.sep, os.path.altsep] if sep is not None and sep != "/"
)


# ORIGINAL implementation (verbatim copy from the unmodified tree)
def orig_safe_join(directory, *pathnames):
    if not directory:
        # Ensure we end up with ./path if directory="" is given,
        # otherwise the first untrusted part could become trusted.
        directory = "."

    parts = [directory]

    for filename in pathnames:
        if filename != "":
            filename = posixpath.normpath(filename)

        if (
            any(sep in filename for sep in _os_alt_seps)
            or os.path.isabs(filename)
            # ntpath.isabs doesn't catch this on Python < 3.11
            or filename.startswith("/")
            or filename == ".."
            or filename.startswith("../")
        ):
            return None

        parts.append(filename)

    return posixpath.join(*parts)


def run(f, *a):
    try:
        return ("ok", f(*a))
    except BaseException as e:  # noqa: BLE001
        return ("exc", type(e))


ATOMS = ["..", ".", "", "/", "//", "\\", "\x00", "a", "b.txt", "...", "..a", " ",
         "C:", "c:\\", "~", "\u00e9", "%2e%2e", "..\\", "\\\\srv\\share"]
DIRS = ["", ".", "/", "/srv/www", "srv/www", "srv/www/", "..", "/a/../b", "C:\\x", "\x00"]
ODD = [None, b"..", b"a/b", b"", 3, ("a",), os.PathLike, bytearray(b"/x")]


def gen_inputs():
    rnd = random.Random(1414)
    # exhaustive: all 1..3-atom strings joined by "/" and by ""
    segs = set(ATOMS)
    for n in (2, 3):
        for combo in itertools.product(ATOMS[:12], repeat=n):
            segs.add("/".join(combo))
            segs.add("".join(combo))
    segs = sorted(segs)
    for d in DIRS:
        yield (d,)
        for s in rnd.sample(segs, 400):
            yield (d, s)
    # multi-component
    for _ in range(4000):
        d = rnd.choice(DIRS)
        k = rnd.randint(0, 4)
        yield (d, *[rnd.choice(segs) for _ in range(k)])
    # random character soup
    alphabet = "./\\\x00a. :~\u00e9\n"
    for _ in range(4000):
        d = rnd.choice(DIRS)
        k = rnd.randint(1, 3)
        yield (d, *["".join(rnd.choice(alphabet) for _ in range(rnd.randint(0, 9))) for _ in range(k)])
    # wrong types (exception parity)
    for d in DIRS[:4] + [None, b"/srv"]:
        for o in ODD:
            yield (d, o)
            yield (d, "a", o)
            yield (d, o, "..")


def main():
    total = 0
    bad = 0
    for alt in (list(_os_alt_seps), ["\\"], ["\\", ":"]):
        # same alt-separator configuration for both implementations
        globals()["_os_alt_seps"] = alt
        saved = sec._os_alt_seps
        sec._os_alt_seps = alt
        try:
            for args in gen_inputs():
                total += 1
                a = run(orig_safe_join, *args)
                b = run(new_safe_join, *args)
                if a != b:
                    bad += 1
                    if bad <= 10:
                        print("MISMATCH", alt, args, a, b)
        finally:
            sec._os_alt_seps = saved
    print(f"{total} inputs, {bad} mismatches")
    print("PASS" if bad == 0 and total >= 3000 else "FAIL")


if __name__ == "__main__":
    main()
