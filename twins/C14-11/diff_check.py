"""Differential check for refactoring 2 (secure_filename restructuring)."""
import ntpath
import os
import posixpath
import random
import re
import unicodedata

import werkzeug.utils as wu
from werkzeug.utils import secure_filename as new_secure_filename

_filename_ascii_strip_re = re.compile(r"[^A-Za-z0-9_.-]")
_windows_device_files = {
    "CON",
    "PRN",
    "AUX",
    "NUL",
    *(f"COM{i}" for i in range(10)),
    *(f"LPT{i}" for i in range(10)),
}
assert _windows_device_files == wu._windows_device_files
assert _filename_ascii_strip_re.pattern == wu._filename_ascii_strip_re.pattern


# ORIGINAL implementation (copied from the unmodified tree); ``os`` is read
# through the werkzeug.utils module so a simulated platform affects both.
def orig_secure_filename(filename):
    os = wu.os
    filename = unicodedata.normalize("NFKD", filename)
    filename = filename.encode("ascii", "ignore").decode("ascii")

    for sep in os.sep, os.path.altsep:
        if sep:
            filename = filename.replace(sep, " ")
    filename = str(_filename_ascii_strip_re.sub("", "_".join(filename.split()))).strip(
        "._"
    )

    if (
        os.name == "nt"
        and filename
        and filename.split(".")[0].upper() in _windows_device_files
    ):
        filename = f"_{filename}"

    return filename


def run(f, *a):
    try:
        r = f(*a)
        return ("ok", type(r), r)
    except BaseException as e:  # noqa: BLE001
        return ("exc", type(e))


ATOMS = [
    "", ".", "..", "/", "\\", " ", "\t", "\n", "_", "-", "a", "B", "7", "txt",
    ".txt", "con", "CON", "nul", "aux", "PRN", "com1", "COM9", "lpt0", "LpT3",
    "com10", "\x00", "é", "ü", "ﬁ", "․", "／", "＼",
    "　", " ", "∕", "‮", "\U0001f600", "ı", "K",
    "~", ":", "*", "%2f", "\x1f", "\x85", "．",
]
ODD = [None, b"abc", b"", 3, ["a"], object()]


class Sub(str):
    pass


def gen(rng):
    for a in ATOMS:
        for b in ATOMS:
            yield a + b
            yield a + "." + b
    for _ in range(8000):
        yield "".join(rng.choice(ATOMS) for _ in range(rng.randint(0, 8)))
    for _ in range(3000):
        yield "".join(chr(rng.randrange(0, 0x3000)) for _ in range(rng.randint(0, 10)))
    for _ in range(1000):
        yield "".join(chr(rng.randrange(0, 0x110000)) for _ in range(rng.randint(0, 6)))
    dev = sorted(_windows_device_files)
    for _ in range(2000):
        d = rng.choice(dev)
        d = "".join(rng.choice((c.lower(), c.upper())) for c in d)
        yield rng.choice(["", ".", "_", "/", " ", "..\\"]) + d + rng.choice(
            ["", ".", ".txt", "..", ".tar.gz", " ", "/", "_", "\\x", "1"]
        )


def check(label):
    rng = random.Random(14002)
    n = bad = 0
    for s in gen(rng):
        for inp in (s, Sub(s)) if n % 7 == 0 else (s,):
            n += 1
            a, b = run(orig_secure_filename, inp), run(new_secure_filename, inp)
            if a != b:
                bad += 1
                if bad < 10:
                    print("MISMATCH", label, repr(inp), a, b)
            elif a[0] == "ok":
                # idempotence is part of the property; make sure both agree there too
                a2, b2 = run(orig_secure_filename, a[2]), run(new_secure_filename, b[2])
                if a2 != b2:
                    bad += 1
    for inp in ODD:
        n += 1
        a, b = run(orig_secure_filename, inp), run(new_secure_filename, inp)
        if a != b:
            bad += 1
            print("MISMATCH", label, repr(inp), a, b)
    print(label, "cases:", n, "mismatches:", bad)
    return bad


class _FakeOS:
    def __init__(self, name, sep, path):
        self.name, self.sep, self.path = name, sep, path

    def __getattr__(self, attr):
        return getattr(os, attr)


total = check("native")
saved = wu.os
try:
    wu.os = _FakeOS("nt", "\\", ntpath)
    total += check("nt")
    wu.os = _FakeOS("posix", "/", posixpath)
    total += check("posix")
finally:
    wu.os = saved

print("PASS" if total == 0 else "FAIL")
