"""Differential check for refactoring 2 (secure_filename restructuring).

Run: cd /tmp/wt3-C14 && PYTHONPATH=/tmp/wt3-C14/src /venv/bin/python /tmp/twin-C14/2/diff_check.py
"""
import itertools
import os
import random
import re
import unicodedata

from werkzeug.utils import secure_filename as new_secure_filename

_filename_ascii_strip_re = re.compile(r"[^A-Za-z0-9_.-]")
_windows_device_files = {
    "CON",
    "PRN",
    "AUX",
    "NUL",
    *(f"COM{i}" for i in range(10)),
    *(f"LPT{i}" for i in range(10)),
}


# ORIGINAL implementation (verbatim copy from the unmodified tree)
def orig_secure_filename(filename):
    filename = unicodedata.normalize("NFKD", filename)
    filename = filename.encode("ascii", "ignore").decode("ascii")

    for sep in os.sep, os.path.altsep:
        if sep:
            filename = filename.replace(sep, " ")
    filename = str(_filename_ascii_strip_re.sub("", "_".join(filename.split()))).strip(
        "._"
    )

    # on nt a couple of special files are present in each folder.  We
    # have to ensure that the target file is not such a filename.  In
    # this case we prepend an underline
    if (
        os.name == "nt"
        and filename
        and filename.split(".")[0].upper() in _windows_device_files
    ):
        filename = f"_{filename}"

    return filename


def run(f, *a):
    try:
        return ("ok", f(*a))
    except BaseException as e:  # noqa: BLE001
        return ("exc", type(e))


ATOMS = ["..", ".", "/", "\\", "\x00", " ", "\t", "\n", "_", "-", "a", "B", "7", "txt",
         "con", "NUL", "Com1", "lpt9", "aux", "prn", "COM10", "ü", "ß", "ﬁ",
         "․", "．", "／", "∕", "　", " ", "‮", "\U0001f600",
         "\ud800", "~", ":", "%2f", "İ", "℀"]
ODD = [None, b"a.txt", 3, ("a",), bytearray(b"x"), 1.5]


def gen_inputs():
    rnd = random.Random(1402)
    yield ""
    for a in ATOMS:
        yield a
    for combo in itertools.product(ATOMS[:22], repeat=2):
        yield "".join(combo)
        yield ".".join(combo)
    for _ in range(6000):
        yield "".join(rnd.choice(ATOMS) for _ in range(rnd.randint(1, 8)))
    for _ in range(3000):
        yield "".join(chr(rnd.choice([rnd.randint(0, 0x7F), rnd.randint(0x80, 0x24FF), rnd.randint(0xFF00, 0xFFEF)]))
                      for _ in range(rnd.randint(0, 12)))
    # device names with suffixes / wrappers
    for dev in sorted(_windows_device_files):
        for pre in ["", ".", "_", " ", "/", "x/"]:
            for suf in ["", ".", ".txt", ". txt", "..", "_", " ", ".tar.gz", "x"]:
                yield pre + dev + suf
                yield pre + dev.lower() + suf
    for o in ODD:
        yield o


def main():
    import posixpath

    total = bad = 0
    inputs = list(gen_inputs())
    saved = (os.name, posixpath.altsep)
    try:
        for name, altsep in (saved, ("nt", None), ("nt", "\\"), ("posix", "\\"), ("nt", "")):
            # both implementations read os.name / os.path.altsep at call time
            os.name = name
            posixpath.altsep = altsep
            for x in inputs:
                total += 1
                a = run(orig_secure_filename, x)
                b = run(new_secure_filename, x)
                if a != b:
                    bad += 1
                    if bad <= 10:
                        print("MISMATCH", (name, altsep), repr(x), a, b)
                # idempotence parity (property clause)
                if a[0] == "ok":
                    a2 = run(orig_secure_filename, a[1])
                    b2 = run(new_secure_filename, a[1])
                    if a2 != b2:
                        bad += 1
    finally:
        os.name, posixpath.altsep = saved
    print(f"{total} inputs, {bad} mismatches")
    print("PASS" if bad == 0 and total >= 3000 else "FAIL")


if __name__ == "__main__":
    main()
