"""Differential check: refactored werkzeug.routing.rules.Rule._parse_rule /
Rule.compile (from the worktree) against a pasted copy of the ORIGINAL
implementation (class OrigRule below overrides both methods with the verbatim
original bodies).

Run: cd /tmp/wt10-C03 && PYTHONPATH=/tmp/wt10-C03/src /venv/bin/python /tmp/twin6-C03/3/diff_check.py
"""
from __future__ import annotations

import re
import typing as t

import werkzeug.routing.rules as rules_mod
from werkzeug.routing.rules import _part_re
from werkzeug.routing.rules import parse_converter_args
from werkzeug.routing.rules import RulePart
from werkzeug.routing.rules import Weighting


# ---- ORIGINAL implementation (verbatim method bodies) ----
class OrigRule(rules_mod.Rule):
    def _parse_rule(self, rule: str) -> t.Iterable[RulePart]:
        content = ""
        static = True
        argument_weights = []
        static_weights: list[tuple[int, int]] = []
        final = False
        convertor_number = 0

        pos = 0
        while pos < len(rule):
            match = _part_re.match(rule, pos)
            if match is None:
                raise ValueError(f"malformed url rule: {rule!r}")

            data = match.groupdict()
            if data["static"] is not None:
                static_weights.append((len(static_weights), -len(data["static"])))
                self._trace.append((False, data["static"]))
                content += data["static"] if static else re.escape(data["static"])

            if data["variable"] is not None:
                if static:
                    # Switching content to represent regex, hence the need to escape
                    content = re.escape(content)
                static = False
                c_args, c_kwargs = parse_converter_args(data["arguments"] or "")
                convobj = self.get_converter(
                    data["variable"], data["converter"] or "default", c_args, c_kwargs
                )
                self._converters[data["variable"]] = convobj
                self.arguments.add(data["variable"])
                if not convobj.part_isolating:
                    final = True
                content += f"(?P<__werkzeug_{convertor_number}>{convobj.regex})"
                convertor_number += 1
                argument_weights.append(convobj.weight)
                self._trace.append((True, data["variable"]))

            if data["slash"] is not None:
                self._trace.append((False, "/"))
                if final:
                    content += "/"
                else:
                    if not static:
                        content += r"\Z"
                    weight = Weighting(
                        -len(static_weights),
                        static_weights,
                        -len(argument_weights),
                        argument_weights,
                    )
                    yield RulePart(
                        content=content,
                        final=final,
                        static=static,
                        suffixed=False,
                        weight=weight,
                    )
                    content = ""
                    static = True
                    argument_weights = []
                    static_weights = []
                    final = False
                    convertor_number = 0

            pos = match.end()

        suffixed = False
        if final and content[-1] == "/":
            # If a converter is part_isolating=False (matches slashes) and ends with a
            # slash, augment the regex to support slash redirects.
            suffixed = True
            content = content[:-1] + "(?<!/)(/?)"
        if not static:
            content += r"\Z"
        weight = Weighting(
            -len(static_weights),
            static_weights,
            -len(argument_weights),
            argument_weights,
        )
        yield RulePart(
            content=content,
            final=final,
            static=static,
            suffixed=suffixed,
            weight=weight,
        )
        if suffixed:
            yield RulePart(
                content="", final=False, static=True, suffixed=False, weight=weight
            )

    def compile(self) -> None:
        """Compiles the regular expression and stores it."""
        assert self.map is not None, "rule not bound"

        if self.map.host_matching:
            domain_rule = self.host or ""
        else:
            domain_rule = self.subdomain or ""
        self._parts = []
        self._trace = []
        self._converters = {}
        if domain_rule == "":
            self._parts = [
                RulePart(
                    content="",
                    final=False,
                    static=True,
                    suffixed=False,
                    weight=Weighting(0, [], 0, []),
                )
            ]
        else:
            self._parts.extend(self._parse_rule(domain_rule))
        self._trace.append((False, "|"))
        rule = self.rule
        if self.merge_slashes:
            rule = re.sub("/{2,}?", "/", self.rule)
        self._parts.extend(self._parse_rule(rule))

        self._build: t.Callable[..., tuple[str, str]]
        self._build = self._compile_builder(False).__get__(self, None)
        self._build_unknown: t.Callable[..., tuple[str, str]]
        self._build_unknown = self._compile_builder(True).__get__(self, None)


# --------------------------------------------------------------------------
# Input generation: random maps (rules with literals, int/float/string/path/
# any/uuid converters, methods, websocket, strict/merge slashes, defaults,
# aliases, subdomains) and random request paths derived from them.
# --------------------------------------------------------------------------
import random
import werkzeug.routing.map as map_mod
from werkzeug.routing import Map, Rule
from werkzeug.routing.exceptions import (
    NoMatch,
    RequestAliasRedirect,
    RequestPath,
    RequestRedirect,
)
from werkzeug.exceptions import HTTPException, MethodNotAllowed, NotFound

LITERALS = ["a", "b", "foo", "bar", "1", "2.5", "x-y", "a.b", "", "index"]
CONVS = [
    "<{n}>",
    "<string:{n}>",
    "<string(length=2):{n}>",
    "<string(minlength=2,maxlength=3):{n}>",
    "<int:{n}>",
    "<int(signed=True):{n}>",
    "<int(min=1,max=20):{n}>",
    "<float:{n}>",
    "<path:{n}>",
    "<any(a,foo,bar):{n}>",
    "<uuid:{n}>",
]
MIXED = ["v<int:{n}>", "<{n}>.html", "<int:{n}>-x", "f<{n}>b", "<path:{n}>.js"]
METHOD_SETS = [None, None, ["GET"], ["POST"], ["GET", "POST"], ["PUT", "DELETE"]]
SUBDOMAINS = [None, None, None, "api", "<sub>", "www"]
VALUES = [
    "a", "b", "foo", "bar", "1", "2.5", "x-y", "a.b", "index", "0", "42", "-3",
    "007", "19", "21", "3.14", "-1.5", "ab", "abc", "abcd", "v7", "vx", "q.html",
    "5-x", "fzzb", "lib.js", "12345678-1234-5678-1234-567812345678", "%20", "é",
]


def gen_rule_spec(rng, idx):
    nseg = rng.randint(0, 4)
    segs = []
    names = iter("pqrstu")
    for _ in range(nseg):
        r = rng.random()
        if r < 0.45:
            segs.append(rng.choice(LITERALS))
        elif r < 0.85:
            segs.append(rng.choice(CONVS).format(n=next(names)))
        else:
            segs.append(rng.choice(MIXED).format(n=next(names)))
    path = "/" + "/".join(segs)
    if rng.random() < 0.45 and not path.endswith("/"):
        path += "/"
    if rng.random() < 0.08:
        path = path.replace("/", "//", 1)
    kw = {"endpoint": f"ep{idx}"}
    methods = rng.choice(METHOD_SETS)
    if methods is not None:
        kw["methods"] = methods
    if rng.random() < 0.12:
        kw["websocket"] = True
        kw.pop("methods", None)
    r = rng.random()
    if r < 0.2:
        kw["strict_slashes"] = False
    elif r < 0.3:
        kw["strict_slashes"] = True
    r = rng.random()
    if r < 0.15:
        kw["merge_slashes"] = False
    elif r < 0.25:
        kw["merge_slashes"] = True
    sub = rng.choice(SUBDOMAINS)
    if sub is not None:
        kw["subdomain"] = sub
    if rng.random() < 0.1:
        kw["defaults"] = {"extra": 1}
    return path, kw


def gen_map_spec(rng):
    nrules = rng.randint(1, 9)
    specs = [gen_rule_spec(rng, i) for i in range(nrules)]
    # sometimes an alias / defaults pair sharing an endpoint
    if rng.random() < 0.3:
        specs.append(("/al/", {"endpoint": "al", "defaults": {"p": 1}}))
        specs.append(("/al/<int:p>", {"endpoint": "al"}))
    if rng.random() < 0.2:
        specs.append(("/alias/<p>", {"endpoint": "ep0", "alias": True}))
    # duplicates in different order exercise priority/insertion independence
    if rng.random() < 0.3:
        rng.shuffle(specs)
    mkw = {
        "strict_slashes": rng.random() < 0.7,
        "merge_slashes": rng.random() < 0.7,
        "redirect_defaults": rng.random() < 0.7,
    }
    return specs, mkw


def build_map(specs, mkw):
    rules = []
    for path, kw in specs:
        try:
            rules.append(Rule(path, **kw))
        except Exception as e:  # invalid rule spec: same for both sides
            return ("ERR", type(e).__name__)
    try:
        m = Map(rules, **mkw)
        m.update()
    except Exception as e:
        return ("ERR", type(e).__name__, str(e))
    return m


def gen_paths(rng, specs, n):
    out = []
    for _ in range(n):
        path, _kw = rng.choice(specs)
        segs = path.split("/")[1:]
        new = []
        for s in segs:
            if "<" in s:
                r = rng.random()
                if "path:" in s and r < 0.5:
                    new.append("/".join(rng.choice(VALUES) for _ in range(rng.randint(1, 3))))
                elif r < 0.9:
                    new.append(rng.choice(VALUES))
                else:
                    new.append("")
            else:
                new.append(s if rng.random() < 0.9 else rng.choice(VALUES))
        p = "/" + "/".join(new)
        r = rng.random()
        if r < 0.2:
            p = p + "/" if not p.endswith("/") else p[:-1]
        elif r < 0.3:
            p = p.replace("/", "//", 1) if rng.random() < 0.5 else p + "//"
        elif r < 0.35:
            p = p + "/" + rng.choice(VALUES)
        elif r < 0.4:
            p = "/".join(p.split("/")[:-1])
        out.append(p)
    return out


def norm_exc(e):
    d = {}
    for k in ("have_match_for", "websocket_mismatch", "path_info", "matched_values",
              "endpoint", "new_url", "valid_methods", "code"):
        if hasattr(e, k):
            v = getattr(e, k)
            if isinstance(v, (set, frozenset)):
                v = sorted(v)
            elif isinstance(v, dict):
                v = sorted((k2, repr(v2)) for k2, v2 in v.items())
            d[k] = v
    return ("EXC", type(e).__module__, type(e).__name__, repr(sorted(d.items(), key=lambda kv: kv[0])))


def rule_key(rule):
    return (rule.rule, rule.endpoint, rule.subdomain, None if rule.methods is None else sorted(rule.methods), rule.websocket)


def call_matcher(matcher, domain, path, method, ws):
    try:
        rule, vals = matcher.match(domain, path, method, ws)
    except Exception as e:
        return norm_exc(e)
    return ("OK", rule_key(rule), [(k, type(v).__name__, repr(v)) for k, v in vals.items()])


def call_adapter(m, sub, path, method, ws):
    adapter = m.bind("example.org", subdomain=sub)
    try:
        rule, vals = adapter.match(path, method=method, websocket=ws, return_rule=True)
    except Exception as e:
        return norm_exc(e)
    return ("OK", rule_key(rule), [(k, type(v).__name__, repr(v)) for k, v in vals.items()])


def dump_state(state):
    """Structural dump of a matcher State (transition order matters)."""
    return (
        [rule_key(r) for r in state.rules],
        [(k, dump_state(s)) for k, s in state.static.items()],
        [((p.content, p.final, p.static, p.suffixed, tuple(p.weight)), dump_state(s))
         for p, s in state.dynamic],
    )


def dump_rule(rule):
    return (
        [(p.content, p.final, p.static, p.suffixed,
          (p.weight.number_static_weights, list(p.weight.static_weights),
           p.weight.number_argument_weights, list(p.weight.argument_weights)))
         for p in rule._parts],
        list(rule._trace),
        [(k, type(v).__name__, v.regex, v.weight, v.part_isolating) for k, v in rule._converters.items()],
        sorted(rule.arguments),
    )


# --------------------------------------------------------------------------
# Differential run: worktree Rule vs. OrigRule.
# --------------------------------------------------------------------------
NewRule = Rule


def build_with(cls, specs, mkw):
    global Rule
    Rule = cls
    try:
        return build_map(specs, mkw)
    finally:
        Rule = NewRule


TOKENS = ["/", "/", "/", "a", "foo", "x.y", "<p>", "<int:q>", "<path:r>", "<float:s>",
          "<any(a,b):u>", "<string(length=2):v>", "<bogus:w>", "<", ">", "<int:q>",
          "<path:r2>", "-", "(", "<uuid:z>", "<int(min=1):m>", "<p:>", "<1a>"]


def gen_raw_rule(rng):
    s = "".join(rng.choice(TOKENS) for _ in range(rng.randint(0, 7)))
    if rng.random() < 0.8 and not s.startswith("/"):
        s = "/" + s
    return s


def bind_one(cls, path, kw, mkw):
    try:
        r = cls(path, **kw)
        m = Map([r], **mkw)
        m.update()
    except Exception as e:
        return ("EXC", type(e).__name__, str(e))
    return ("OK", dump_rule(r), dump_state(m._matcher._root), r.merge_slashes, r.strict_slashes)


def main():
    assert "/tmp/wt10-C03/" in rules_mod.__file__, rules_mod.__file__
    assert OrigRule._parse_rule is not rules_mod.Rule._parse_rule
    assert OrigRule.compile is not rules_mod.Rule.compile
    rng = random.Random(303)
    kinds = {}
    n_cmp = 0

    # Phase 1: single raw rule strings (incl. malformed ones / unknown
    # converters / host_matching / subdomain patterns) -> parts, trace,
    # converters, arguments, resulting state machine or exception.
    for _ in range(6000):
        path = gen_raw_rule(rng)
        kw = {"endpoint": "e"}
        mkw = {"merge_slashes": rng.random() < 0.6, "strict_slashes": rng.random() < 0.6}
        r = rng.random()
        if r < 0.2:
            mkw["host_matching"] = True
            kw["host"] = rng.choice(["example.org", "<h>.example.org", "", "<path:h>", "a/<path:h>/"])
        elif r < 0.5:
            kw["subdomain"] = rng.choice(["api", "<sub>", "", "<int:n>.x", "<path:sp>/"])
        if rng.random() < 0.2:
            kw["merge_slashes"] = rng.random() < 0.5
        x = bind_one(NewRule, path, dict(kw), mkw)
        y = bind_one(OrigRule, path, dict(kw), mkw)
        n_cmp += 1
        if x != y:
            print("FAIL raw rule", repr(path), kw, mkw, x, y)
            return 1
        k = x[0] if x[0] == "OK" else x[1]
        kinds[k] = kinds.get(k, 0) + 1

    # Phase 2: whole maps, compare compiled rules, state machines and
    # match outcomes through the adapter.
    n_maps = 0
    for _ in range(500):
        specs, mkw = gen_map_spec(rng)
        new = build_with(NewRule, specs, mkw)
        old = build_with(OrigRule, specs, mkw)
        if isinstance(new, tuple) or isinstance(old, tuple):
            assert new == old, (specs, new, old)
            continue
        n_maps += 1
        assert all(type(r) is OrigRule for r in old._rules)
        assert all(type(r) is NewRule for r in new._rules)
        if [dump_rule(r) for r in new._rules] != [dump_rule(r) for r in old._rules]:
            print("FAIL compiled rules differ", specs, mkw)
            return 1
        if dump_state(new._matcher._root) != dump_state(old._matcher._root):
            print("FAIL state machine differs", specs, mkw)
            return 1
        for path in gen_paths(rng, specs, 12):
            method = rng.choice(["GET", "POST", "PUT", "HEAD", "DELETE"])
            ws = rng.random() < 0.15
            sub = rng.choice([None, "", "api", "www", "zzz"])
            x = call_adapter(new, sub, path, method, ws)
            y = call_adapter(old, sub, path, method, ws)
            n_cmp += 1
            if x != y:
                print("FAIL match", specs, mkw, sub, path, method, ws, x, y)
                return 1
            k = x[0] if x[0] == "OK" else x[2]
            kinds[k] = kinds.get(k, 0) + 1
    print(f"maps={n_maps} comparisons={n_cmp} outcomes={kinds}")
    print("PASS")
    return 0


if __name__ == "__main__":
    raise SystemExit(main())
