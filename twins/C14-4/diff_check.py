"""Differential check for refactoring 1 (safe_join helper extraction).

Run: cd /tmp/wt6-C14 && PYTHONPATH=/tmp/wt6-C14/src /venv/bin/python /tmp/twin4-C14/1/diff_check.py
"""
from __future__ import annotations

import itertools
import os
import posixpath
import random

import werkzeug.security as sec
from werkzeug.security import safe_join as new_safe_join

# ---- ORIGINAL implementation (copied verbatim from the unmodified tree) ----
_os_alt_seps: list[str] = list(
    sep for sep in [os.sep, os.path.altsep] if sep is not None and sep != "/"
)


def orig_safe_join(directory, *pathnames):
    if not directory:
        # Ensure we end up with ./path if directory="" is given,
        # otherwise the first untrusted part could become trusted.
        directory = "."

    parts = [directory]

    for filename in pathnames:
        if filename != "":
            filename = posixpath.normpath(filename)

        if (
            any(sep in filename for sep in _os_alt_seps)
            or os.path.isabs(filename)
            # ntpath.isabs doesn't catch this on Python < 3.11
            or filename.startswith("/")
            or filename == ".."
            or filename.startswith("../")
        ):
            return None

        parts.append(filename)

    return posixpath.join(*parts)


# ---------------------------------------------------------------------------


def run(fn, args):
    try:
        return ("ok", fn(*args))
    except BaseException as e:  # noqa: BLE001
        return ("exc", type(e))


ATOMS = [
    "", ".", "..", "...", "/", "//", "///", "\\", "\\\\", "a", "b", "foo",
    "foo.txt", "\x00", "a\x00b", " ", "~", "C:", "C:\\", "c:/", "%2e%2e",
    "..\\", "../", "./", "/..", "/.", "..a", "a..", "\u2215", "\uff0e\uff0e",
    "\n", "é",
]
DIRS = ["", ".", "/", "/srv/root", "root", "root/", "../up", "a//b", "/a/../b", "C:\\r"]
ODD = [None, b"", b"a", b"../a", b"/a", 1, 1.5, ("a",), ["a"], object()]


def gen_segment(rng):
    n = rng.randint(0, 6)
    return "".join(rng.choice(ATOMS) for _ in range(n))


def cases():
    rng = random.Random(14)
    # exhaustive small products
    for d in DIRS:
        yield (d,)
        for a in ATOMS:
            yield (d, a)
        for a, b in itertools.product(ATOMS[:20], repeat=2):
            yield (d, a + b)
            yield (d, a, b)
    # random
    for _ in range(30000):
        d = rng.choice(DIRS)
        k = rng.randint(0, 4)
        yield (d, *[gen_segment(rng) for _ in range(k)])
    # odd typed inputs (exception type parity)
    for d in DIRS[:4] + ODD:
        for o in ODD:
            yield (d, o)
            yield (d, "a", o)
            yield (d, o, "..")
            yield (d, "..", o)


def main():
    total = 0
    bad = 0
    for alt in (None, ["\\"], ["\\", ":"], []):
        if alt is not None:
            # simulate other platforms' alternative separators in both versions
            saved_new, saved_old = sec._os_alt_seps, _os_alt_seps[:]
            sec._os_alt_seps = list(alt)
            _os_alt_seps[:] = alt
        for args in cases():
            total += 1
            a = run(orig_safe_join, args)
            b = run(new_safe_join, args)
            if a != b:
                bad += 1
                if bad < 10:
                    print("MISMATCH", alt, args, a, b)
        if alt is not None:
            sec._os_alt_seps = saved_new
            _os_alt_seps[:] = saved_old
    print("cases:", total)
    print("PASS" if bad == 0 else f"FAIL ({bad})")


if __name__ == "__main__":
    main()
