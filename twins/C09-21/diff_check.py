"""Differential check: werkzeug.wsgi.LimitedStream (worktree, refactored) against a
copy of the ORIGINAL class, over random underlying streams and call sequences.

Run: cd /tmp/wt15-C09 && PYTHONPATH=/tmp/wt15-C09/src /venv/bin/python <this file>
"""
import io
import random
import typing as t

from werkzeug.exceptions import ClientDisconnected
from werkzeug.exceptions import RequestEntityTooLarge
from werkzeug.wsgi import LimitedStream as NewLimitedStream


# ---- ORIGINAL implementation (copied from the unmodified tree) ----
class OrigLimitedStream(io.RawIOBase):
    def __init__(self, stream: t.IO[bytes], limit: int, is_max: bool = False) -> None:
        self._stream = stream
        self._pos = 0
        self.limit = limit
        self._limit_is_max = is_max

    @property
    def is_exhausted(self) -> bool:
        return self._pos >= self.limit

    def on_exhausted(self) -> None:
        if self._limit_is_max:
            raise RequestEntityTooLarge()

    def on_disconnect(self, error: Exception | None = None) -> None:
        if not self._limit_is_max or error is not None:
            raise ClientDisconnected()

    def exhaust(self) -> bytes:
        if not self.is_exhausted:
            return self.readall()

        return b""

    def readinto(self, b: bytearray) -> int | None:  # type: ignore[override]
        size = len(b)
        remaining = self.limit - self._pos

        if remaining <= 0:
            self.on_exhausted()
            return 0

        if hasattr(self._stream, "readinto"):
            # Use stream.readinto if it's available.
            if size <= remaining:
                # The size fits in the remaining limit, use the buffer directly.
                try:
                    out_size: int | None = self._stream.readinto(b)
                except (OSError, ValueError) as e:
                    self.on_disconnect(error=e)
                    return 0
            else:
                # Use a temp buffer with the remaining limit as the size.
                temp_b = bytearray(remaining)

                try:
                    out_size = self._stream.readinto(temp_b)
                except (OSError, ValueError) as e:
                    self.on_disconnect(error=e)
                    return 0

                if out_size:
                    b[:out_size] = temp_b[:out_size]
        else:
            # WSGI requires that stream.read is available.
            try:
                data = self._stream.read(min(size, remaining))
            except (OSError, ValueError) as e:
                self.on_disconnect(error=e)
                return 0

            out_size = len(data)
            b[:out_size] = data

        if not out_size:
            # Read zero bytes from the stream.
            self.on_disconnect()
            return 0

        self._pos += out_size
        return out_size

    def readall(self) -> bytes:
        if self.is_exhausted:
            self.on_exhausted()
            return b""

        out = bytearray()

        # The parent implementation uses "while True", which results in an extra read.
        while not self.is_exhausted:
            data = self.read(1024 * 64)

            # Stream may return empty before a max limit is reached.
            if not data:
                break

            out.extend(data)

        return bytes(out)

    def tell(self) -> int:
        return self._pos

    def readable(self) -> bool:
        return True


# ---- underlying streams ----
class ReadOnly:
    """Only .read(); fragments reads, can fail / return empty at scripted calls."""

    def __init__(self, data, script_seed, max_frag, fail_at, fail_exc, none_at):
        self.data = data
        self.pos = 0
        self.rng = random.Random(script_seed)
        self.max_frag = max_frag
        self.calls = 0
        self.fail_at = fail_at
        self.fail_exc = fail_exc
        self.none_at = none_at
        self.log = []

    def _take(self, n):
        self.calls += 1
        self.log.append(n)
        if self.calls == self.fail_at:
            raise self.fail_exc("boom")
        if self.calls == self.none_at:
            return b""
        if n is None or n < 0:
            n = len(self.data) - self.pos
        if self.max_frag:
            n = min(n, self.rng.randint(1, self.max_frag))
        out = self.data[self.pos : self.pos + n]
        self.pos += len(out)
        return out

    def read(self, n=-1):
        return self._take(n)


class WithReadinto(ReadOnly):
    none_returns_none = False

    def readinto(self, b):
        data = self._take(len(b))
        if self.calls == self.none_at and self.none_returns_none:
            return None
        b[: len(data)] = data
        return len(data)


class WithReadintoNone(WithReadinto):
    none_returns_none = True


def make_subclass(base):
    class Rec(base):
        """Hooks overridden to record and (optionally) swallow."""

        def __init__(self, *a, swallow=False, **kw):
            super().__init__(*a, **kw)
            self.hooks = []
            self.swallow = swallow

        def on_exhausted(self):
            self.hooks.append("exhausted")
            if not self.swallow:
                super().on_exhausted()

        def on_disconnect(self, error=None):
            self.hooks.append(("disconnect", type(error).__name__))
            if not self.swallow:
                super().on_disconnect(error=error)

    return Rec


OrigRec = make_subclass(OrigLimitedStream)
NewRec = make_subclass(NewLimitedStream)

EXCS = [OSError, ValueError, ConnectionResetError, TimeoutError, RuntimeError, KeyError,
        UnicodeError, io.UnsupportedOperation]
OPS = ["read", "readn", "readline", "readlinen", "readlines", "readlinesn", "readinto",
       "iter", "next", "exhaust", "readall", "tell", "is_exhausted", "read0"]


def gen_case(rng):
    body_len = rng.choice([0, 1, 3, 10, 50, 200, 70000])
    alphabet = b"ab\n" if rng.random() < 0.7 else b"x"
    data = bytes(rng.choice(alphabet) for _ in range(min(body_len, 300)))
    if body_len > 300:
        data = data * (body_len // 300 + 1)
        data = data[:body_len]
    limit = rng.choice([0, 1, 2, body_len, max(0, body_len - 1), body_len + 1,
                        body_len + 7, body_len // 2, rng.randint(0, 60), -1])
    max_frag = rng.choice([0, 0, 1, 2, 7, 100])
    if body_len > 1000 and max_frag:
        max_frag = 20000
    return dict(
        data=data,
        limit=limit,
        is_max=rng.choice([False, True, 0, 1]),
        stream_cls=rng.choice([ReadOnly, WithReadinto, WithReadintoNone, "bytesio"]),
        script_seed=rng.randint(0, 10**6),
        max_frag=max_frag,
        fail_at=rng.choice([0, 0, 0, 1, 2, 3, 5]),
        fail_exc=rng.choice(EXCS),
        none_at=rng.choice([0, 0, 0, 1, 2, 4]),
        mode=rng.choice(["plain", "plain", "rec", "rec_swallow", "buffered"]),
        bufsize=rng.choice([1, 4, 16, 8192]),
        ops=[(rng.choice(OPS), rng.choice([0, 1, 2, 3, 5, 17, 64, 1000, 100000]))
             for _ in range(rng.randint(1, 8))],
    )


def run(case, plain_cls, rec_cls):
    if case["stream_cls"] == "bytesio":
        raw = io.BytesIO(case["data"])
    else:
        raw = case["stream_cls"](case["data"], case["script_seed"], case["max_frag"],
                                 case["fail_at"], case["fail_exc"], case["none_at"])
    mode = case["mode"]
    if mode in ("rec", "rec_swallow"):
        ls = rec_cls(raw, case["limit"], case["is_max"], swallow=mode == "rec_swallow")
    else:
        ls = plain_cls(raw, case["limit"], case["is_max"])
    f = io.BufferedReader(ls, case["bufsize"]) if mode == "buffered" else ls
    trace = []
    for op, n in case["ops"]:
        try:
            if op == "read":
                r = f.read()
            elif op == "readn":
                r = f.read(n)
            elif op == "read0":
                r = f.read(0)
            elif op == "readline":
                r = f.readline()
            elif op == "readlinen":
                r = f.readline(n)
            elif op == "readlines":
                r = f.readlines()
            elif op == "readlinesn":
                r = f.readlines(n)
            elif op == "readinto":
                buf = bytearray(n)
                k = f.readinto(buf)
                r = (k, bytes(buf))
            elif op == "iter":
                r = []
                for i, line in enumerate(f):
                    r.append(line)
                    if i > 500:
                        break
            elif op == "next":
                r = next(f)
            elif op == "exhaust":
                r = ls.exhaust()
            elif op == "readall":
                r = ls.readall()
            elif op == "tell":
                r = ls.tell()
            else:
                r = ls.is_exhausted
            trace.append((op, n, "ok", type(r).__name__, r))
        except BaseException as e:  # noqa: B902
            trace.append((op, n, "exc", type(e).__name__, getattr(e, "code", None)))
        trace.append((ls._pos, raw.tell() if isinstance(raw, io.BytesIO) else raw.pos))
    extra = (
        getattr(ls, "hooks", None),
        getattr(raw, "log", None),
    )
    return trace, extra


def main(n_cases=6000, seed=2024):
    rng = random.Random(seed)
    bad = 0
    for i in range(n_cases):
        case = gen_case(rng)
        a = run(case, OrigLimitedStream, OrigRec)
        b = run(case, NewLimitedStream, NewRec)
        if a != b:
            bad += 1
            if bad <= 5:
                print("MISMATCH", i, case, "\n ORIG", a, "\n NEW ", b)
    print(f"{n_cases} cases, {bad} mismatches")
    print("PASS" if bad == 0 else "FAIL")


if __name__ == "__main__":
    main()
