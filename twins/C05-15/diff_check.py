"""Differential check for refactoring 3 (sansio Response._clean_status).

Compares the worktree implementation against a pasted copy of the ORIGINAL on
generated status values, both by calling _clean_status directly and through the
`status` / `status_code` setters and the constructors of the sansio and WSGI
Response classes.
"""
from __future__ import annotations

import random
from http import HTTPStatus

from werkzeug.http import HTTP_STATUS_CODES
from werkzeug.sansio.response import Response as SansIOResponse
from werkzeug.wrappers import Response


def original_clean_status(self, value):
    if isinstance(value, (int, HTTPStatus)):
        status_code = int(value)
    else:
        value = value.strip()

        if not value:
            raise ValueError("Empty status argument")

        code_str, sep, _ = value.partition(" ")

        try:
            status_code = int(code_str)
        except ValueError:
            # only message
            return f"0 {value}", 0

        if sep:
            # code and message
            return value, status_code

    # only code, look up message
    try:
        status = f"{status_code} {HTTP_STATUS_CODES[status_code].upper()}"
    except KeyError:
        status = f"{status_code} UNKNOWN"

    return status, status_code


class MyInt(int):
    pass


class StrSub(str):
    pass


rnd = random.Random(30505)

WS = ["", " ", "  ", "\t", "\n", "\r\n", "\x0b", "\xa0", " "]
CODES = ["", "0", "1", "99", "100", "199", "200", "204", "304", "404", "418", "451",
         "500", "599", "600", "999", "1000", "-1", "+200", "-0", "00200", "2_00",
         "٢٠٠", "２００", "20.0", "2e2", "0x10", "abc", "OK", "2 00", "²", "१०१",
         "1" * 30, "1" * 5000]
MESSAGES = ["", "OK", "ok", "Not Found", "NO CONTENT", "I'm a teapot", "☃", "x y z",
            "200", " ", "  double  space", "\ttab", "a\nb", "ü"]
SEPS = ["", " ", "  ", "\t", "\xa0", "-", ":"]


def gen_str():
    r = rnd.random()
    if r < 0.75:
        return rnd.choice(WS) + rnd.choice(CODES) + rnd.choice(SEPS) + rnd.choice(MESSAGES) + rnd.choice(WS)
    if r < 0.9:
        return str(rnd.randint(-50, 1100))
    alphabet = "0123456789 -+_\tabcOK☃\n"
    return "".join(rnd.choice(alphabet) for _ in range(rnd.randint(0, 8)))


def gen_value():
    r = rnd.random()
    if r < 0.55:
        s = gen_str()
        return StrSub(s) if rnd.random() < 0.05 else s
    if r < 0.75:
        return rnd.randint(-100, 1200)
    if r < 0.8:
        return rnd.choice(list(HTTPStatus))
    if r < 0.85:
        return MyInt(rnd.randint(0, 700))
    if r < 0.9:
        return rnd.choice([True, False, 10**40, -(10**25)])
    return rnd.choice([
        None, 200.0, 204.5, b"200 OK", b"200", b"", b"  ", bytearray(b"404"),
        (200,), [200], {"a": 1}, object(), complex(2, 0), float("nan"),
    ])


def outcome(func, *args):
    try:
        res = func(*args)
    except Exception as e:  # noqa: BLE001
        return ("exc", type(e).__name__, str(e))
    return ("ok", res, tuple(type(x).__name__ for x in res))


def via_setter(cls, clean, value, how):
    """Run the full public path with `clean` installed as _clean_status."""
    saved = SansIOResponse._clean_status
    SansIOResponse._clean_status = clean
    try:
        if how == "ctor":
            r = cls(status=value)
        elif how == "status":
            r = cls()
            r.status = value
        else:
            r = cls()
            r.status_code = value
        return (r.status, r.status_code, type(r.status).__name__, type(r.status_code).__name__, repr(r))
    finally:
        SansIOResponse._clean_status = saved


def run():
    new_clean = SansIOResponse._clean_status
    assert new_clean is not original_clean_status
    dummy = SansIOResponse()
    count = mismatches = 0

    fixed = (
        list(range(-5, 1005))
        + list(HTTPStatus)
        + [str(i) for i in range(0, 1005)]
        + [f"{i} {HTTP_STATUS_CODES.get(i, 'Custom')}" for i in range(90, 610)]
        + [ws + c + sep + m + ws2 for ws in ("", " ") for c in CODES[:34] for sep in SEPS for m in MESSAGES[:6] for ws2 in ("", "\n")]
    )
    values = fixed + [gen_value() for _ in range(20000)]

    for value in values:
        a = outcome(original_clean_status, dummy, value)
        b = outcome(new_clean, dummy, value)
        count += 1
        if a != b:
            mismatches += 1
            if mismatches <= 10:
                print("MISMATCH direct", repr(value)[:80], a, b)

    for value in values[::7]:
        for cls in (SansIOResponse, Response):
            for how in ("ctor", "status", "status_code"):
                a = outcome(via_setter, cls, original_clean_status, value, how)
                b = outcome(via_setter, cls, new_clean, value, how)
                count += 1
                if a[:2] != b[:2] if a[0] == "ok" else a != b:
                    mismatches += 1
                    if mismatches <= 10:
                        print("MISMATCH setter", cls.__name__, how, repr(value)[:80], a, b)

    print(f"compared {count} cases, {mismatches} mismatches")
    print("PASS" if mismatches == 0 and count > 3000 else "FAIL")


if __name__ == "__main__":
    run()
