"""Differential check for refactoring 3 (wsgi._RangeWrapper).

Runs the refactored _RangeWrapper from the worktree and a copy of the
ORIGINAL class side by side over generated bodies / chunkings / (start,
length) pairs, seekable and not, comparing the exact sequence of yielded
chunks, exceptions, wrapper state after every step and behaviour after
exhaustion.  Also checks 206 responses end-to-end against plain slicing.
"""
import io
import random

from werkzeug.wsgi import FileWrapper
from werkzeug.wsgi import _RangeWrapper as New


class Orig:
    def __init__(self, iterable, start_byte=0, byte_range=None):
        self.iterable = iter(iterable)
        self.byte_range = byte_range
        self.start_byte = start_byte
        self.end_byte = None

        if byte_range is not None:
            self.end_byte = start_byte + byte_range

        self.read_length = 0
        self.seekable = hasattr(iterable, "seekable") and iterable.seekable()
        self.end_reached = False

    def __iter__(self):
        return self

    def _next_chunk(self):
        try:
            chunk = next(self.iterable)
            self.read_length += len(chunk)
            return chunk
        except StopIteration:
            self.end_reached = True
            raise

    def _first_iteration(self):
        chunk = None
        if self.seekable:
            self.iterable.seek(self.start_byte)
            self.read_length = self.iterable.tell()
            contextual_read_length = self.read_length
        else:
            while self.read_length <= self.start_byte:
                chunk = self._next_chunk()
            if chunk is not None:
                chunk = chunk[self.start_byte - self.read_length :]
            contextual_read_length = self.start_byte
        return chunk, contextual_read_length

    def _next(self):
        if self.end_reached:
            raise StopIteration()
        chunk = None
        contextual_read_length = self.read_length
        if self.read_length == 0:
            chunk, contextual_read_length = self._first_iteration()
        if chunk is None:
            chunk = self._next_chunk()
        if self.end_byte is not None and self.read_length >= self.end_byte:
            self.end_reached = True
            return chunk[: self.end_byte - contextual_read_length]
        return chunk

    def __next__(self):
        chunk = self._next()
        if chunk:
            return chunk
        self.end_reached = True
        raise StopIteration()

    def close(self):
        if hasattr(self.iterable, "close"):
            self.iterable.close()


class Closable:
    """Non-seekable chunk iterator that records close()."""

    def __init__(self, chunks):
        self._it = iter(chunks)
        self.closed = 0

    def __iter__(self):
        return self

    def __next__(self):
        return next(self._it)

    def close(self):
        self.closed += 1


class NotSeekable(Closable):
    def seekable(self):
        return False


def state(w):
    return (w.start_byte, w.end_byte, w.byte_range, w.read_length,
            bool(w.seekable), w.end_reached)


def trace(cls, make_source, start, length, steps):
    src = make_source()
    try:
        w = cls(src, start, length)
    except Exception as e:  # noqa: BLE001
        return [("init-exc", type(e))]
    out = [state(w), iter(w) is w]
    for _ in range(steps):
        try:
            c = next(w)
            out.append(("chunk", type(c), bytes(c)))
        except StopIteration:
            out.append("stop")
        except Exception as e:  # noqa: BLE001
            out.append(("exc", type(e)))
        out.append(state(w))
    try:
        out.append(("close", w.close()))
    except Exception as e:  # noqa: BLE001
        out.append(("close-exc", type(e)))
    out.append(getattr(src, "closed", None))
    return out


def chunkings(body, rnd):
    n = len(body)
    res = [[body], [body[i : i + 1] for i in range(n)]]
    for size in (2, 3, 7):
        res.append([body[i : i + size] for i in range(0, n, size)])
    for _ in range(3):
        cuts = sorted(rnd.randint(0, n) for _ in range(rnd.randint(0, 6)))
        pts = [0] + cuts + [n]
        res.append([body[a:b] for a, b in zip(pts, pts[1:])])  # may contain b""
    return res


rnd = random.Random(3303)
bad = 0
total = 0
full_ok = 0


def compare(make_source, start, length, steps, body=None):
    global bad, total, full_ok
    a = trace(Orig, make_source, start, length, steps)
    b = trace(New, make_source, start, length, steps)
    total += 1
    if a != b:
        bad += 1
        if bad < 10:
            print("MISMATCH", start, length, a, b, sep="\n  ")
    elif body is not None and 0 <= start < len(body) and length is not None and length > 0:
        got = b"".join(x[2] for x in b if isinstance(x, tuple) and x[0] == "chunk")
        if got == body[start : start + length]:
            full_ok += 1


for n in (0, 1, 2, 5, 16, 33):
    body = bytes(rnd.randrange(256) for _ in range(n))
    starts = sorted({0, 1, 2, n // 2, max(n - 1, 0), n, n + 1, n + 5, -1})
    lengths = [None, 0, 1, 2, 3, n // 2, max(n - 1, 0), n, n + 1, n + 10]
    for start in starts:
        for length in lengths:
            for chunks in chunkings(body, rnd):
                steps = len(chunks) + 4
                compare(lambda: list(chunks), start, length, steps, body)
                compare(lambda: iter(list(chunks)), start, length, steps, body)
                compare(lambda: Closable(chunks), start, length, steps, body)
                compare(lambda: NotSeekable(chunks), start, length, steps, body)
            for bufsize in (1, 3, 8, 8192):
                compare(lambda: FileWrapper(io.BytesIO(body), bufsize), start, length,
                        n // bufsize + 5, body)

# random larger cases
for _ in range(3000):
    n = rnd.randint(1, 300)
    body = bytes(rnd.randrange(256) for _ in range(n))
    start = rnd.randint(0, n + 3)
    length = rnd.choice([None, rnd.randint(0, n + 3), rnd.randint(1, max(n - start, 1))])
    if rnd.random() < 0.5:
        bufsize = rnd.randint(1, 64)
        compare(lambda: FileWrapper(io.BytesIO(body), bufsize), start, length,
                n // bufsize + 5, body)
    else:
        chunks = rnd.choice(chunkings(body, rnd))
        compare(lambda: Closable(chunks), start, length, len(chunks) + 4, body)

print(f"{total} side-by-side traces, {bad} mismatches; "
      f"{full_ok} in-range cases also equal body[start:start+length]")

# ---- end-to-end: 206 bodies via Response.make_conditional ------------------
from werkzeug.exceptions import RequestedRangeNotSatisfiable
from werkzeug.test import EnvironBuilder
from werkzeug.wrappers import Response

e2e = 0
for _ in range(3000):
    n = rnd.randint(1, 120)
    body = bytes(rnd.randrange(256) for _ in range(n))
    a = rnd.randint(0, n + 2)
    b = rnd.randint(a, n + 5)
    hdr = rnd.choice([f"bytes={a}-{b}", f"bytes={a}-", f"bytes=-{rnd.randint(0, n + 3)}"])
    env = EnvironBuilder(headers={"Range": hdr}).get_environ()
    kind = rnd.randrange(3)
    if kind == 0:
        resp = Response(body)
    elif kind == 1:
        # (an empty chunk makes the wrapper stop early, before and after the
        # refactoring alike - covered by the side-by-side traces above; keep
        # it out of the slicing oracle)
        chunks = [c for c in rnd.choice(chunkings(body, rnd)) if c]
        resp = Response(iter(chunks))
    else:
        resp = Response(FileWrapper(io.BytesIO(body), rnd.randint(1, 40)),
                        direct_passthrough=True)
    try:
        resp.make_conditional(env, accept_ranges=True, complete_length=n)
    except RequestedRangeNotSatisfiable:
        e2e += 1
        continue
    if resp.status_code != 206:
        bad += 1
        print("E2E unexpected status", resp.status_code, hdr, n)
        continue
    cr = resp.content_range
    got = b"".join(resp.response if resp.direct_passthrough else resp.iter_encoded())
    if got != body[cr.start : cr.stop] or int(resp.headers["Content-Length"]) != len(got):
        bad += 1
        if bad < 10:
            print("E2E MISMATCH", hdr, n, cr, len(got))
    e2e += 1
print(f"{e2e} end-to-end 206/416 checks")
print("PASS" if bad == 0 else "FAIL")
