"""Differential check for refactoring 1 (host_is_trusted / _normalize_host).

Compares the worktree implementation of ``host_is_trusted`` and ``get_host``
against a pasted copy of the original implementation.
"""

from __future__ import annotations

import itertools
import random
import typing as t

from werkzeug.datastructures import Headers
from werkzeug.exceptions import SecurityError
from werkzeug.sansio import utils as new_utils
from werkzeug.sansio.request import Request


# ---- original implementation (verbatim copy) -------------------------------
def _strip_port(host: str) -> str:
    if host.startswith("["):
        # Bracketed IPv6 literal, a port can only follow the closing bracket.
        return host[: host.find("]") + 1] or host

    return host.partition(":")[0]


def orig_host_is_trusted(hostname, trusted_list) -> bool:
    if not hostname:
        return False

    try:
        hostname = _strip_port(hostname).encode("idna").decode("ascii")
    except UnicodeError:
        return False

    if isinstance(trusted_list, str):
        trusted_list = [trusted_list]

    for ref in trusted_list:
        if ref.startswith("."):
            ref = ref[1:]
            suffix_match = True
        else:
            suffix_match = False

        try:
            ref = _strip_port(ref).encode("idna").decode("ascii")
        except UnicodeError:
            return False

        if ref == hostname or (suffix_match and hostname.endswith(f".{ref}")):
            return True

    return False


def orig_get_host(scheme, host_header, server=None, trusted_hosts=None) -> str:
    host = ""

    if host_header is not None:
        host = host_header
    elif server is not None:
        host = server[0]

        if ":" in host and host[0] != "[":
            host = f"[{host}]"

        if server[1] is not None:
            host = f"{host}:{server[1]}"

    if scheme in {"http", "ws"} and host.endswith(":80"):
        host = host[:-3]
    elif scheme in {"https", "wss"} and host.endswith(":443"):
        host = host[:-4]

    if trusted_hosts is not None:
        if not orig_host_is_trusted(host, trusted_hosts):
            raise SecurityError(f"Host {host!r} is not trusted.")

    return host


# ---- helpers ----------------------------------------------------------------
def outcome(f: t.Callable[..., t.Any], *args: t.Any) -> tuple[str, t.Any]:
    try:
        return ("ok", f(*args))
    except BaseException as e:  # noqa: B036
        return ("exc", type(e), str(e))


rng = random.Random(20)

LABELS = [
    "example", "com", "org", "localhost", "evil", "evilexample", "a", "b",
    "www", "sub", "xn--bcher-kva", "bücher", "EXAMPLE", "ExAmPle", "",
    "a" * 63, "a" * 64, "-x", "x-", "127", "0", "1", "münchen", "☃",
    "ex ample", "ex\x00", "\udcff", "ß", "İ", "example。com",
]
PORTS = ["", ":80", ":443", ":8080", ":", ":abc", ":80:90", ":0"]
LITERALS = [
    "127.0.0.1", "127.0.0.1.evil.com", "127.0.0.10", "1127.0.0.1", "[::1]",
    "[::1", "::1", "[::1]x", "[]", "[", "]", "[::1]:80", "[::ffff:127.0.0.1]",
    "0x7f.0.0.1", "2130706433", "localhost.", ".localhost", "..", ".", "",
    "example.com.", ".example.com", "evilexample.com", "example.com.evil.com",
    "example.com@evil.com", "example.com:80@evil.com", "a.example.com",
    "a.b.example.com", "xexample.com", "-example.com", "example.com\n",
    "example.com ", " example.com", "example.com/", "example.com#", "\t",
]


def gen_host() -> t.Any:
    r = rng.random()
    if r < 0.03:
        return None
    if r < 0.35:
        h = rng.choice(LITERALS)
    else:
        n = rng.randint(1, 4)
        h = ".".join(rng.choice(LABELS) for _ in range(n))
        if rng.random() < 0.15:
            h = "." + h
        if rng.random() < 0.1:
            h = h + "."
    if rng.random() < 0.5:
        h += rng.choice(PORTS)
    if rng.random() < 0.05:
        # random junk
        h = "".join(rng.choice("abc.:[]-é。@ ") for _ in range(rng.randint(0, 12)))
    return h


def gen_trusted() -> t.Any:
    r = rng.random()
    if r < 0.1:
        return gen_host() or ""  # a bare string
    if r < 0.15:
        return []
    if r < 0.2:
        return tuple(gen_host() or "" for _ in range(rng.randint(1, 3)))
    if r < 0.25:
        return {gen_host() or "x"}
    return [gen_host() or "" for _ in range(rng.randint(1, 4))]


def main() -> None:
    n = 0
    bad = 0

    def check(a: t.Any, b: t.Any, what: t.Any) -> None:
        nonlocal n, bad
        n += 1
        if a != b:
            bad += 1
            if bad < 20:
                print("MISMATCH", what, a, b)

    # 1. exhaustive over the literal corpus (host x single-entry trusted list)
    corpus = LITERALS + [
        lit + p for lit in LITERALS[:20] for p in PORTS
    ]
    for h, ref in itertools.product(corpus, corpus):
        check(
            outcome(orig_host_is_trusted, h, [ref]),
            outcome(new_utils.host_is_trusted, h, [ref]),
            (h, [ref]),
        )

    # 2. random hosts / lists
    for _ in range(40000):
        h = gen_host()
        tl = gen_trusted()
        # make matches reasonably likely
        if rng.random() < 0.3 and isinstance(tl, list) and h:
            base = h
            if rng.random() < 0.5 and "." in base:
                base = "." + base.split(".", 1)[1]
            tl.insert(rng.randrange(len(tl) + 1), base)
        check(
            outcome(orig_host_is_trusted, h, tl),
            outcome(new_utils.host_is_trusted, h, tl),
            (h, tl),
        )

    # generator as trusted_list (consumed once), non-str entries (errors)
    for _ in range(2000):
        h = gen_host()
        items = [gen_host() or "" for _ in range(3)]
        check(
            outcome(orig_host_is_trusted, h, iter(items)),
            outcome(new_utils.host_is_trusted, h, iter(items)),
            (h, "iter", items),
        )
    for h, tl in [
        ("a", [None]), ("a", [b"a"]), (b"a", ["a"]), ("a", None), ("a", 5),
        (b"[a", ["a"]), (5, ["a"]), ("a", [".", None]), ("é" * 70, [None]),
        ("\udcff", None), ("a", ["a", None]),
    ]:
        check(
            outcome(orig_host_is_trusted, h, tl),
            outcome(new_utils.host_is_trusted, h, tl),
            (h, tl),
        )

    # 3. get_host and Request.host
    for _ in range(15000):
        scheme = rng.choice(["http", "https", "ws", "wss", "ftp"])
        hh = gen_host() if rng.random() < 0.8 else None
        server = rng.choice(
            [None, ("localhost", 80), ("::1", 8080), ("127.0.0.1", None),
             ("/tmp/sock", None), ("example.com", 443), ("[::1]", 80)]
        )
        th = gen_trusted() if rng.random() < 0.85 else None
        if isinstance(th, set):
            th = list(th)
        check(
            outcome(orig_get_host, scheme, hh, server, th),
            outcome(new_utils.get_host, scheme, hh, server, th),
            (scheme, hh, server, th),
        )

        def req_host() -> str:
            headers = Headers() if hh is None else Headers({"Host": hh})
            r = Request("GET", scheme, server, "", "/", b"", headers, None)
            r.trusted_hosts = th
            return r.host

        if hh is not None and ("\n" in hh or "\r" in hh):
            continue  # Headers() itself refuses such values

        check(
            outcome(orig_get_host, scheme, hh, server, th),
            outcome(req_host),
            ("req", scheme, hh, server, th),
        )

    print(f"{n} comparisons, {bad} mismatches")
    print("PASS" if bad == 0 else "FAIL")


if __name__ == "__main__":
    main()
