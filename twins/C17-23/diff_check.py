"""Differential check for refactoring 2 of werkzeug/datastructures/accept.py.

The ORIGINAL accept.py (unmodified tree) is pasted below as text and executed as a
separate module; every observable of Accept / MIMEAccept / LanguageAccept /
CharsetAccept is compared against the worktree version on generated inputs.
"""
SEED = 172
N_CASES = 40000
ORIGINAL_SOURCE = r'''
from __future__ import annotations

import codecs
import collections.abc as cabc
import re
import typing as t

from .structures import ImmutableList


class Accept(ImmutableList[tuple[str, float]]):
    """An :class:`Accept` object is just a list subclass for lists of
    ``(value, quality)`` tuples.  It is automatically sorted by specificity
    and quality.

    All :class:`Accept` objects work similar to a list but provide extra
    functionality for working with the data.  Containment checks are
    normalized to the rules of that header:

    >>> a = CharsetAccept([('ISO-8859-1', 1), ('utf-8', 0.7)])
    >>> a.best
    'ISO-8859-1'
    >>> 'iso-8859-1' in a
    True
    >>> 'UTF8' in a
    True
    >>> 'utf7' in a
    False

    To get the quality for an item you can use normal item lookup:

    >>> print a['utf-8']
    0.7
    >>> a['utf7']
    0

    .. versionchanged:: 0.5
       :class:`Accept` objects are forced immutable now.

    .. versionchanged:: 1.0.0
       :class:`Accept` internal values are no longer ordered
       alphabetically for equal quality tags. Instead the initial
       order is preserved.

    """

    def __init__(
        self, values: Accept | cabc.Iterable[tuple[str, float]] | None = ()
    ) -> None:
        if values is None:
            super().__init__()
            self.provided = False
        elif isinstance(values, Accept):
            self.provided = values.provided
            super().__init__(values)
        else:
            self.provided = True
            values = sorted(
                values, key=lambda x: (self._specificity(x[0]), x[1]), reverse=True
            )
            super().__init__(values)

    def _specificity(self, value: str) -> tuple[bool, ...]:
        """Returns a tuple describing the value's specificity."""
        return (value != "*",)

    def _value_matches(self, value: str, item: str) -> bool:
        """Check if a value matches a given accept item."""
        return item == "*" or item.lower() == value.lower()

    @t.overload
    def __getitem__(self, key: str) -> float: ...
    @t.overload
    def __getitem__(self, key: t.SupportsIndex) -> tuple[str, float]: ...
    @t.overload
    def __getitem__(self, key: slice) -> list[tuple[str, float]]: ...
    def __getitem__(
        self, key: str | t.SupportsIndex | slice
    ) -> float | tuple[str, float] | list[tuple[str, float]]:
        """Besides index lookup (getting item n) you can also pass it a string
        to get the quality for the item.  If the item is not in the list, the
        returned quality is ``0``.
        """
        if isinstance(key, str):
            return self.quality(key)
        return list.__getitem__(self, key)

    def quality(self, key: str) -> float:
        """Returns the quality of the key.

        .. versionadded:: 0.6
           In previous versions you had to use the item-lookup syntax
           (eg: ``obj[key]`` instead of ``obj.quality(key)``)
        """
        for item, quality in self:
            if self._value_matches(key, item):
                return quality
        return 0

    def __contains__(self, value: str) -> bool:  # type: ignore[override]
        for item, _quality in self:
            if self._value_matches(value, item):
                return True
        return False

    def __repr__(self) -> str:
        pairs_str = ", ".join(f"({x!r}, {y})" for x, y in self)
        return f"{type(self).__name__}([{pairs_str}])"

    def index(self, key: str | tuple[str, float]) -> int:  # type: ignore[override]
        """Get the position of an entry or raise :exc:`ValueError`.

        :param key: The key to be looked up.

        .. versionchanged:: 0.5
           This used to raise :exc:`IndexError`, which was inconsistent
           with the list API.
        """
        if isinstance(key, str):
            for idx, (item, _quality) in enumerate(self):
                if self._value_matches(key, item):
                    return idx
            raise ValueError(key)
        return list.index(self, key)

    def find(self, key: str | tuple[str, float]) -> int:
        """Get the position of an entry or return -1.

        :param key: The key to be looked up.
        """
        try:
            return self.index(key)
        except ValueError:
            return -1

    def values(self) -> cabc.Iterator[str]:
        """Iterate over all values."""
        for item in self:
            yield item[0]

    def to_header(self) -> str:
        """Convert the header set into an HTTP header string."""
        result = []
        for value, quality in self:
            if quality != 1:
                value = f"{value};q={quality}"
            result.append(value)
        return ",".join(result)

    def __str__(self) -> str:
        return self.to_header()

    def _best_single_match(self, match: str) -> tuple[str, float] | None:
        for client_item, quality in self:
            if self._value_matches(match, client_item):
                # self is sorted by specificity descending, we can exit
                return client_item, quality
        return None

    @t.overload
    def best_match(self, matches: cabc.Iterable[str]) -> str | None: ...
    @t.overload
    def best_match(self, matches: cabc.Iterable[str], default: str = ...) -> str: ...
    def best_match(
        self, matches: cabc.Iterable[str], default: str | None = None
    ) -> str | None:
        """Returns the best match from a list of possible matches based
        on the specificity and quality of the client. If two items have the
        same quality and specificity, the one is returned that comes first.

        :param matches: a list of matches to check for
        :param default: the value that is returned if none match
        """
        result = default
        best_quality: float = -1
        best_specificity: tuple[float, ...] = (-1,)
        for server_item in matches:
            match = self._best_single_match(server_item)
            if not match:
                continue
            client_item, quality = match
            specificity = self._specificity(client_item)
            if quality <= 0 or quality < best_quality:
                continue
            # better quality or same quality but more specific => better match
            if quality > best_quality or specificity > best_specificity:
                result = server_item
                best_quality = quality
                best_specificity = specificity
        return result

    @property
    def best(self) -> str | None:
        """The best match as value."""
        if self:
            return self[0][0]

        return None


_mime_split_re = re.compile(r"/|(?:\s*;\s*)")


def _normalize_mime(value: str) -> list[str]:
    return _mime_split_re.split(value.lower())


class MIMEAccept(Accept):
    """Like :class:`Accept` but with special methods and behavior for
    mimetypes.
    """

    def _specificity(self, value: str) -> tuple[bool, ...]:
        return tuple(x != "*" for x in _mime_split_re.split(value))

    def _value_matches(self, value: str, item: str) -> bool:
        # item comes from the client, can't match if it's invalid.
        if "/" not in item:
            return False

        # value comes from the application, tell the developer when it
        # doesn't look valid.
        if "/" not in value:
            raise ValueError(f"invalid mimetype {value!r}")

        # Split the match value into type, subtype, and a sorted list of parameters.
        normalized_value = _normalize_mime(value)
        value_type, value_subtype = normalized_value[:2]
        value_params = sorted(normalized_value[2:])

        # "*/*" is the only valid value that can start with "*".
        if value_type == "*" and value_subtype != "*":
            raise ValueError(f"invalid mimetype {value!r}")

        # Split the accept item into type, subtype, and parameters.
        normalized_item = _normalize_mime(item)
        item_type, item_subtype = normalized_item[:2]
        item_params = sorted(normalized_item[2:])

        # "*/not-*" from the client is invalid, can't match.
        if item_type == "*" and item_subtype != "*":
            return False

        return (
            (item_type == "*" and item_subtype == "*")
            or (value_type == "*" and value_subtype == "*")
        ) or (
            item_type == value_type
            and (
                item_subtype == "*"
                or value_subtype == "*"
                or (item_subtype == value_subtype and item_params == value_params)
            )
        )

    @property
    def accept_html(self) -> bool:
        """True if this object accepts HTML."""
        return "text/html" in self or self.accept_xhtml  # type: ignore[comparison-overlap]

    @property
    def accept_xhtml(self) -> bool:
        """True if this object accepts XHTML."""
        return "application/xhtml+xml" in self or "application/xml" in self  # type: ignore[comparison-overlap]

    @property
    def accept_json(self) -> bool:
        """True if this object accepts JSON."""
        return "application/json" in self  # type: ignore[comparison-overlap]


_locale_delim_re = re.compile(r"[_-]")


def _normalize_lang(value: str) -> list[str]:
    """Process a language tag for matching."""
    return _locale_delim_re.split(value.lower())


class LanguageAccept(Accept):
    """Like :class:`Accept` but with normalization for language tags."""

    def _value_matches(self, value: str, item: str) -> bool:
        return item == "*" or _normalize_lang(value) == _normalize_lang(item)

    @t.overload
    def best_match(self, matches: cabc.Iterable[str]) -> str | None: ...
    @t.overload
    def best_match(self, matches: cabc.Iterable[str], default: str = ...) -> str: ...
    def best_match(
        self, matches: cabc.Iterable[str], default: str | None = None
    ) -> str | None:
        """Given a list of supported values, finds the best match from
        the list of accepted values.

        Language tags are normalized for the purpose of matching, but
        are returned unchanged.

        If no exact match is found, this will fall back to matching
        the first subtag (primary language only), first with the
        accepted values then with the match values. This partial is not
        applied to any other language subtags.

        The default is returned if no exact or fallback match is found.

        :param matches: A list of supported languages to find a match.
        :param default: The value that is returned if none match.
        """
        # Look for an exact match first. If a client accepts "en-US",
        # "en-US" is a valid match at this point.
        result = super().best_match(matches)

        if result is not None:
            return result

        # Fall back to accepting primary tags. If a client accepts
        # "en-US", "en" is a valid match at this point. Need to use
        # re.split to account for 2 or 3 letter codes.
        fallback = Accept(
            [(_locale_delim_re.split(item[0], 1)[0], item[1]) for item in self]
        )
        result = fallback.best_match(matches)

        if result is not None:
            return result

        # Fall back to matching primary tags. If the client accepts
        # "en", "en-US" is a valid match at this point.
        fallback_matches = [_locale_delim_re.split(item, 1)[0] for item in matches]
        result = super().best_match(fallback_matches)

        # Return a value from the original match list. Find the first
        # original value that starts with the matched primary tag.
        if result is not None:
            return next(
                item
                for item in matches
                if _locale_delim_re.split(item, 1)[0] == result
            )

        return default


class CharsetAccept(Accept):
    """Like :class:`Accept` but with normalization for charsets."""

    def _value_matches(self, value: str, item: str) -> bool:
        def _normalize(name: str) -> str:
            try:
                return codecs.lookup(name).name
            except (LookupError, ValueError):
                # ValueError: the name contains a null character.
                return name.lower()

        return item == "*" or _normalize(value) == _normalize(item)
'''


# ---- load the ORIGINAL module text above as a separate module ----
import math
import random
import sys
import types

import werkzeug.datastructures  # noqa: F401  (parent package for the relative import)
import werkzeug.datastructures.accept as new
from werkzeug.http import parse_accept_header

orig = types.ModuleType("werkzeug.datastructures._orig_accept")
orig.__package__ = "werkzeug.datastructures"
sys.modules[orig.__name__] = orig
exec(compile(ORIGINAL_SOURCE, "<original accept.py>", "exec"), orig.__dict__)

rng = random.Random(SEED)
NAN = float("nan")

MIMES = [
    "text/html", "text/*", "*/*", "text/plain", "application/json", "application/*",
    "application/xhtml+xml", "application/xml", "image/png", "TEXT/HTML", "Text/Plain",
    "text/html;level=1", "text/html; level=1", "text/html;level=2", "text/html;a=1;b=2",
    "text/html;b=2;a=1", "text/html ; LEVEL=1", "*/html", "*", "text", "", "a/b/c",
    "text/", "/html", "/", "*/*;x=1", "text/*;x=1", "*/", "/*",
]
LANGS = [
    "en", "en-US", "en_US", "en-us", "EN", "en-GB", "de", "de-DE", "de_AT", "fr", "fr-CA",
    "zh-Hant-TW", "zh-Hant", "zh", "*", "", "-", "en-", "_us", "es-419", "pt_BR", "pt",
]
CHARSETS = [
    "utf-8", "UTF8", "utf_8", "U8", "latin1", "iso-8859-1", "ISO_8859-1", "l1", "ascii",
    "us-ascii", "646", "cp1252", "windows-1252", "utf-16", "unknown-cs", "*", "", "a\x00b",
    "utf7", "UTF-7", "x" * 40, "é",
]
TOKENS = ["gzip", "GZIP", "br", "deflate", "identity", "*", "", "compress", "x-gzip"]
QVALS = [1, 1.0, 0, 0.0, 0.5, 0.5, 0.7, 0.3, 0.9, 0.001, 1, 1, 0.8, 0.8, -1, -0.0, 2, 1.5, NAN]

FAMILIES = [
    ("Accept", TOKENS + LANGS[:6] + MIMES[:6]),
    ("MIMEAccept", MIMES),
    ("LanguageAccept", LANGS),
    ("CharsetAccept", CHARSETS),
]


def gen_pairs(pool):
    n = rng.choice([0, 1, 1, 2, 3, 3, 4, 5, 7])
    out = []
    for _ in range(n):
        v = rng.choice(pool)
        if rng.random() < 0.75:
            q = rng.choice([1, 0, 0.5, 0.7, 0.3, 0.9, 0.8, 1.0, 0.0, 0.25])
        else:
            q = rng.choice(QVALS)
        out.append((v, q))
    return out


def gen_header(pool):
    parts = []
    for v, q in gen_pairs(pool):
        if isinstance(q, float) and math.isnan(q):
            q = "nan"
        r = rng.random()
        if r < 0.3:
            parts.append(v)
        else:
            parts.append(f"{v};q={q}")
    return ", ".join(parts)


def gen_offers(pool):
    n = rng.choice([0, 1, 2, 2, 3, 4, 6])
    return [rng.choice(pool) for _ in range(n)]


def norm(x):
    """Make results comparable (NaN-safe, type-aware)."""
    if isinstance(x, float):
        return ("float", repr(x))
    if isinstance(x, bool) or x is None or isinstance(x, (int, str)):
        return (type(x).__name__, x)
    if isinstance(x, (list, tuple)):
        return (type(x).__name__, [norm(i) for i in x])
    return ("obj", repr(x))


def call(fn, *a, **kw):
    try:
        return ("ok", norm(fn(*a, **kw)))
    except BaseException as e:  # noqa: B036
        return ("exc", type(e).__name__)


def observe(acc, offers, probes):
    out = []
    out.append(("items", norm(list(list.__iter__(acc)))))
    out.append(("provided", acc.provided))
    out.append(("best", call(lambda: acc.best)))
    out.append(("header", call(acc.to_header)))
    out.append(("str", call(str, acc)))
    out.append(("repr", call(repr, acc)))
    out.append(("values", call(lambda: list(acc.values()))))
    out.append(("bm", call(acc.best_match, offers)))
    out.append(("bm_t", call(acc.best_match, tuple(offers))))
    out.append(("bm_d", call(acc.best_match, offers, "DEFAULT")))
    out.append(("bm_kw", call(acc.best_match, offers, default=None)))
    for o in offers:
        out.append(("bm1", o, call(acc.best_match, [o])))
        out.append(("bsm", o, call(acc._best_single_match, o)))
    for p in probes:
        out.append(("q", p, call(acc.quality, p)))
        out.append(("getitem", p, call(acc.__getitem__, p)))
        out.append(("in", p, call(acc.__contains__, p)))
        out.append(("index", p, call(acc.index, p)))
        out.append(("find", p, call(acc.find, p)))
        out.append(("spec", p, call(acc._specificity, p)))
    for v, _q in list(list.__iter__(acc))[:3]:
        for p in probes[:3]:
            out.append(("vm", p, v, call(acc._value_matches, p, v)))
    out.append(("getitem0", call(acc.__getitem__, 0)))
    out.append(("slice", call(acc.__getitem__, slice(0, 2))))
    if isinstance(acc, (new.MIMEAccept, orig.MIMEAccept)):
        out.append(("html", call(lambda: acc.accept_html)))
        out.append(("xhtml", call(lambda: acc.accept_xhtml)))
        out.append(("json", call(lambda: acc.accept_json)))
    return out


bad = 0
cases = 0
for i in range(N_CASES):
    name, pool = FAMILIES[i % len(FAMILIES)]
    ncls, ocls = getattr(new, name), getattr(orig, name)
    offers = gen_offers(pool)
    probes = gen_offers(pool) + [rng.choice(pool)]
    mode = rng.random()
    if mode < 0.6:
        pairs = gen_pairs(pool)
        src = pairs
        try:
            a, b = ncls(pairs), ocls(pairs)
        except BaseException:  # noqa: B036
            ra, rb = call(ncls, pairs), call(ocls, pairs)
            if ra[0] != rb[0] or (ra[0] == "exc" and ra != rb):
                bad += 1
                print("MISMATCH ctor", name, pairs, ra, rb)
            continue
    elif mode < 0.63:
        src = None
        a, b = ncls(None), ocls(None)
    elif mode < 0.68:
        pairs = gen_pairs(pool)
        src = ("copy", pairs)
        a, b = ncls(ncls(pairs)), ocls(ocls(pairs))
    else:
        src = gen_header(pool)
        a, b = parse_accept_header(src, ncls), parse_accept_header(src, ocls)
    cases += 1
    oa, ob = observe(a, offers, probes), observe(b, offers, probes)
    if oa != ob:
        bad += 1
        if bad <= 10:
            print("MISMATCH", name, repr(src), offers, probes)
            for x, y in zip(oa, ob):
                if x != y:
                    print("   new:", x)
                    print("  orig:", y)

print(f"compared {cases} accept objects (4 header families); mismatches: {bad}")
print("PASS" if bad == 0 else "FAIL")
