"""Differential check for refactoring 3 (ETags.__init__/contains, FileWrapper.seekable/seek/tell).

Run: cd /tmp/wt14-C11 && PYTHONPATH=/tmp/wt14-C11/src /venv/bin/python /tmp/twin9-C11/3/diff_check.py
"""
import io
import random

from werkzeug.datastructures import ETags
from werkzeug.test import EnvironBuilder
from werkzeug.wrappers import Response
from werkzeug.wsgi import FileWrapper


# ---- original implementations (only the methods that were edited) ----------
class OrigETags(ETags):
    def __init__(self, strong_etags=None, weak_etags=None, star_tag=False):
        if not star_tag and strong_etags:
            self._strong = frozenset(strong_etags)
        else:
            self._strong = frozenset()

        self._weak = frozenset(weak_etags or ())
        self.star_tag = star_tag

    def contains(self, etag):
        if self.star_tag:
            return True
        return self.is_strong(etag)


class OrigFileWrapper(FileWrapper):
    def seekable(self):
        if hasattr(self.file, "seekable"):
            return self.file.seekable()
        if hasattr(self.file, "seek"):
            return True
        return False

    def seek(self, *args):
        if hasattr(self.file, "seek"):
            self.file.seek(*args)

    def tell(self):
        if hasattr(self.file, "tell"):
            return self.file.tell()
        return None


def call(fn, *args, **kwargs):
    try:
        rv = fn(*args, **kwargs)
    except Exception as e:  # noqa: BLE001
        return ("EXC", type(e).__name__, str(e))
    return (type(rv).__name__, repr(rv))


# ---- ETags ------------------------------------------------------------------
class Truthy:
    """Iterable whose truthiness is independent of its content; logs usage."""

    def __init__(self, items, truth, log):
        self.items, self.truth, self.log = items, truth, log

    def __bool__(self):
        self.log.append("bool")
        return self.truth

    def __iter__(self):
        self.log.append("iter")
        return iter(self.items)


TAGS = ["a", "b", "abc", "", "*", "W/", None, 0, "é", "a,b"]


def make_arg(rng, log):
    k = rng.randint(0, 8)
    items = [rng.choice(TAGS) for _ in range(rng.randint(0, 4))]
    if k == 0:
        return lambda: None
    if k == 1:
        return lambda: list(items)
    if k == 2:
        return lambda: tuple(items)
    if k == 3:
        return lambda: set(items)
    if k == 4:
        return lambda: iter(items)  # always truthy
    if k == 5:
        return lambda: Truthy(items, rng_truth, log)
    if k == 6:
        return lambda: "".join(str(i) for i in items if isinstance(i, str))  # a str: iterates chars
    if k == 7:
        return lambda: 5  # truthy non-iterable -> TypeError
    return lambda: [["unhashable"]]  # TypeError from frozenset


rng_truth = True


def etags_snapshot(cls, mk_strong, mk_weak, star, probes, log):
    del log[:]
    try:
        e = cls(mk_strong(), mk_weak(), star)
    except Exception as ex:  # noqa: BLE001
        return ("EXC", type(ex).__name__, str(ex), list(log))
    out = [
        sorted(map(repr, e._strong)), sorted(map(repr, e._weak)), repr(e.star_tag),
        type(e._strong).__name__, type(e._weak).__name__, list(log),
        call(bool, e), call(len, e), sorted(map(repr, e.as_set(True))),
    ]
    for p in probes:
        out.append((
            call(e.contains, p), call(e.contains_weak, p), call(e.is_strong, p), call(e.is_weak, p),
            call(lambda: p in e), call(e, p) if p is not None else None, call(e, p, include_weak=True) if p is not None else None,
            call(e.contains_raw, p) if isinstance(p, str) else None,
            call(e.contains_raw, f'W/"{p}"'), call(e.contains_raw, f'"{p}"'),
        ))
    if None not in e._strong | e._weak:
        out.append(sorted(call(e.to_header)[1].split(", ")))
    return out


# ---- FileWrapper --------------------------------------------------------------
def make_file(spec, log):
    """Build a file-like object having exactly the attributes named in spec."""
    ns = {}
    state = {"pos": 0}

    def read(self, n=-1):
        log.append(("read", n))
        return b""

    ns["read"] = read
    if "seekable" in spec:
        val = spec["seekable"]

        def seekable(self):
            log.append(("seekable",))
            if isinstance(val, type) and issubclass(val, Exception):
                raise val("boom")
            return val

        ns["seekable"] = seekable
    if "seek" in spec:
        def seek(self, *args):
            log.append(("seek", args))
            if spec["seek"] == "raise":
                raise OSError("no seek")
            if not args:
                raise TypeError("seek needs an argument")
            state["pos"] = args[0]
            return args[0]

        ns["seek"] = seek
    if "tell" in spec:
        def tell(self):
            log.append(("tell",))
            if spec["tell"] == "raise":
                raise OSError("no tell")
            return state["pos"] if spec["tell"] == "pos" else spec["tell"]

        ns["tell"] = tell
    if spec.get("prop_raises"):
        # attribute access itself raises something hasattr does not swallow
        def boom(self):
            log.append(("prop",))
            raise RuntimeError("prop")

        ns[spec["prop_raises"]] = property(boom)
    return type("F", (), ns)()


def gen_spec(rng):
    spec = {}
    if rng.random() < 0.6:
        spec["seekable"] = rng.choice([True, False, None, 0, 1, "yes", "", OSError, ValueError])
    if rng.random() < 0.6:
        spec["seek"] = rng.choice(["ok", "raise"])
    if rng.random() < 0.6:
        spec["tell"] = rng.choice(["pos", "raise", None, 7, "x"])
    if rng.random() < 0.1:
        spec["prop_raises"] = rng.choice(["seekable", "seek", "tell"])
    return spec


def fw_snapshot(cls, spec, ops):
    log = []
    w = cls(make_file(spec, log), 16)
    out = []
    for op, args in ops:
        out.append(call(getattr(w, op), *args))
    return out, log


# ---- end to end: range + conditional requests over wrapped files ------------------
class NoSeek(io.RawIOBase):
    def __init__(self, data):
        self._b = io.BytesIO(data)

    def readable(self):
        return True

    def readinto(self, b):
        return self._b.readinto(b)


class OnlyRead:
    def __init__(self, data):
        self._b = io.BytesIO(data)

    def read(self, n=-1):
        return self._b.read(n)


def e2e(fw_cls, etags_cls, kind, data, bufsize, headers, method, etag, cl):
    import werkzeug.datastructures as ds
    import werkzeug.http as http

    saved = ds.ETags
    ds.ETags = etags_cls
    try:
        f = {"bytesio": io.BytesIO, "noseek": NoSeek, "onlyread": OnlyRead}[kind](data)
        resp = Response(fw_cls(f, bufsize), direct_passthrough=True)
        if etag is not None:
            resp.set_etag(etag)
        env = EnvironBuilder(method=method, headers=headers).get_environ()
        try:
            resp.make_conditional(env, accept_ranges=True, complete_length=cl)
            body = b"".join(resp.response) if resp.status_code != 304 else b""
        except Exception as ex:  # noqa: BLE001
            return ("EXC", type(ex).__name__, getattr(ex, "code", None))
        return (resp.status_code, sorted(resp.headers.items()), body)
    finally:
        ds.ETags = saved


def main():
    global rng_truth
    rng = random.Random(1103)
    bad = 0

    # ETags
    n1 = 0
    log = []
    for _ in range(12000):
        seed = rng.random()
        star = rng.choice([False, False, True, 0, 1, None, "", "x"])
        rng_truth = rng.choice([True, False])
        probes = [rng.choice(TAGS) for _ in range(3)]
        r1 = random.Random(seed)
        a_s, a_w = make_arg(r1, log), make_arg(r1, log)
        a = etags_snapshot(OrigETags, a_s, a_w, star, probes, log)
        b = etags_snapshot(ETags, a_s, a_w, star, probes, log)
        n1 += 1
        if a != b:
            bad += 1
            if bad < 10:
                print("MISMATCH ETags", star, a, b)

    # FileWrapper
    n2 = 0
    OPS = [("seekable", ()), ("tell", ()), ("seek", (0,)), ("seek", (5,)), ("seek", (3, 1)),
           ("seek", ()), ("seek", (-1, 2))]
    for _ in range(12000):
        spec = gen_spec(rng)
        ops = [rng.choice(OPS) for _ in range(rng.randint(1, 6))]
        a = fw_snapshot(OrigFileWrapper, spec, ops)
        b = fw_snapshot(FileWrapper, spec, ops)
        n2 += 1
        if a != b:
            bad += 1
            if bad < 10:
                print("MISMATCH FileWrapper", spec, ops, a, b)
    # real file objects
    for f_mk in (lambda: io.BytesIO(b"0123456789"), lambda: NoSeek(b"0123456789"), lambda: OnlyRead(b"0123456789")):
        for ops in ([("seekable", ()), ("seek", (4,)), ("tell", ())], [("tell", ()), ("seek", (2, 0)), ("seek", (99,)), ("tell", ())]):
            res = []
            for cls in (OrigFileWrapper, FileWrapper):
                w = cls(f_mk())
                res.append([call(getattr(w, op), *args) for op, args in ops] + [call(lambda: list(w))])
            n2 += 1
            if res[0] != res[1]:
                bad += 1
                print("MISMATCH real file", res)

    # end to end
    n3 = 0
    RANGES = [None, "bytes=0-3", "bytes=2-", "bytes=-4", "bytes=5-5", "bytes=0-", "bytes=9-20", "bytes=10-",
              "bytes=30-", "bytes=4-2", "bytes=0-1,3-4", "items=0-3", "bytes=abc", "bytes=-0", "bytes=-", "bytes=-100"]
    VALIDATORS = [None, '"abc"', 'W/"abc"', '"x"', "*", 'W/"x", "abc"', "abc", '""', ", ", 'w/"abc"']
    for _ in range(3000):
        data = bytes(rng.randrange(256) for _ in range(rng.choice([0, 1, 10, 17, 40])))
        kind = rng.choice(["bytesio", "noseek", "onlyread"])
        bufsize = rng.choice([1, 3, 7, 16, 8192])
        headers = {}
        rg = rng.choice(RANGES)
        if rg:
            headers["Range"] = rg
        for h in ("If-None-Match", "If-Match", "If-Range"):
            v = rng.choice(VALIDATORS) if rng.random() < 0.4 else None
            if v:
                headers[h] = v
        method = rng.choice(["GET", "GET", "HEAD", "POST"])
        etag = rng.choice([None, "abc", "abc", "x"])
        cl = rng.choice([len(data), len(data), None, len(data) + 3])
        a = e2e(OrigFileWrapper, OrigETags, kind, data, bufsize, headers, method, etag, cl)
        b = e2e(FileWrapper, ETags, kind, data, bufsize, headers, method, etag, cl)
        n3 += 1
        if a != b:
            bad += 1
            if bad < 10:
                print("MISMATCH e2e", kind, headers, method, etag, cl, a, b)

    print(f"checked {n1} ETags cases, {n2} FileWrapper cases, {n3} end-to-end requests")
    print("PASS" if bad == 0 else f"FAIL ({bad})")


if __name__ == "__main__":
    main()
