"""Differential check for refactoring 3 (Rule._parse_rule).

Run as: cd /tmp/wt9-C03 && PYTHONPATH=/tmp/wt9-C03/src /venv/bin/python /tmp/twin5-C03/3/diff_check.py

The ORIGINAL Rule._parse_rule is pasted below on a subclass. Checks:
  (a) direct: _parse_rule on thousands of random (also malformed / junk) rule
      strings gives identical RulePart lists, _trace, _converters, arguments,
      or the identical exception type + message;
  (b) the regex fact the if -> elif rewrite relies on (exactly one of the
      slash/static/variable groups participates in any _part_re match);
  (c) end to end: identical compiled maps, state trees, raw matcher outcomes
      and MapAdapter.match outcomes on random maps / paths.
"""
import inspect
import re
import typing as t

from werkzeug.routing import Rule
from werkzeug.routing.rules import _part_re
from werkzeug.routing.rules import parse_converter_args
from werkzeug.routing.rules import RulePart
from werkzeug.routing.rules import Weighting


class OrigRule(Rule):
    def _parse_rule(self, rule: str) -> t.Iterable[RulePart]:
        content = ""
        static = True
        argument_weights = []
        static_weights: list[tuple[int, int]] = []
        final = False
        convertor_number = 0

        pos = 0
        while pos < len(rule):
            match = _part_re.match(rule, pos)
            if match is None:
                raise ValueError(f"malformed url rule: {rule!r}")

            data = match.groupdict()
            if data["static"] is not None:
                static_weights.append((len(static_weights), -len(data["static"])))
                self._trace.append((False, data["static"]))
                content += data["static"] if static else re.escape(data["static"])

            if data["variable"] is not None:
                if static:
                    # Switching content to represent regex, hence the need to escape
                    content = re.escape(content)
                static = False
                c_args, c_kwargs = parse_converter_args(data["arguments"] or "")
                convobj = self.get_converter(
                    data["variable"], data["converter"] or "default", c_args, c_kwargs
                )
                self._converters[data["variable"]] = convobj
                self.arguments.add(data["variable"])
                if not convobj.part_isolating:
                    final = True
                content += f"(?P<__werkzeug_{convertor_number}>{convobj.regex})"
                convertor_number += 1
                argument_weights.append(convobj.weight)
                self._trace.append((True, data["variable"]))

            if data["slash"] is not None:
                self._trace.append((False, "/"))
                if final:
                    content += "/"
                else:
                    if not static:
                        content += r"\Z"
                    weight = Weighting(
                        -len(static_weights),
                        static_weights,
                        -len(argument_weights),
                        argument_weights,
                    )
                    yield RulePart(
                        content=content,
                        final=final,
                        static=static,
                        suffixed=False,
                        weight=weight,
                    )
                    content = ""
                    static = True
                    argument_weights = []
                    static_weights = []
                    final = False
                    convertor_number = 0

            pos = match.end()

        suffixed = False
        if final and content[-1] == "/":
            # If a converter is part_isolating=False (matches slashes) and ends with a
            # slash, augment the regex to support slash redirects.
            suffixed = True
            content = content[:-1] + "(?<!/)(/?)"
        if not static:
            content += r"\Z"
        weight = Weighting(
            -len(static_weights),
            static_weights,
            -len(argument_weights),
            argument_weights,
        )
        yield RulePart(
            content=content,
            final=final,
            static=static,
            suffixed=suffixed,
            weight=weight,
        )
        if suffixed:
            yield RulePart(
                content="", final=False, static=True, suffixed=False, weight=weight
            )


# ---------------------------------------------------------------------------
# Generic differential harness: builds the same random URL maps twice, once
# with the worktree classes ("new") and once with subclasses that carry the
# pasted ORIGINAL implementations ("old"), then compares compiled parts,
# matcher state trees, raw matcher results and MapAdapter.match outcomes.
# ---------------------------------------------------------------------------
import random
import sys

from werkzeug.exceptions import HTTPException
from werkzeug.routing import Map
from werkzeug.routing.exceptions import NoMatch as _NoMatch
from werkzeug.routing.exceptions import RequestAliasRedirect as _RAR
from werkzeug.routing.exceptions import RequestPath as _RP

LITERALS = ["a", "b", "foo", "bar", "x.y", "a-b", "1", "12", "1.5", "index", "A"]
CONVERTERS = [
    "<{n}>",
    "<string:{n}>",
    "<string(length=2):{n}>",
    "<string(minlength=2, maxlength=3):{n}>",
    "<int:{n}>",
    "<int(fixed_digits=2):{n}>",
    "<int(signed=True):{n}>",
    "<int(min=2, max=20):{n}>",
    "<float:{n}>",
    "<float(signed=True):{n}>",
    "<path:{n}>",
    "<any(a, b, foo):{n}>",
    "<any('x.y', \"12\"):{n}>",
    "<uuid:{n}>",
]
MALFORMED = ["/foo/<bar", "/a/<int:>", "/<nope:x>", "/a/<int(:x>/b", "/x/<1a>", "/<a>/<"]
VALUES = [
    "a", "b", "foo", "bar", "x.y", "a-b", "1", "12", "1.5", "-3", "-2.5", "007",
    "ab", "abc", "abcd", "", "A", "20", "21", "index", "a/b", "foo/1",
    "6ba7b810-9dad-11d1-80b4-00c04fd430c8", "x y", "%41", "é",
]
METHODS = [None, ["GET"], ["POST"], ["GET", "POST"], ["PUT"], ["DELETE", "GET"]]
REQ_METHODS = ["GET", "POST", "HEAD", "PUT", "DELETE", "OPTIONS"]


def gen_segment(rng, names):
    k = rng.random()
    if k < 0.35:
        return rng.choice(LITERALS)
    if k < 0.8:
        n = names.pop()
        return rng.choice(CONVERTERS).format(n=n)
    # mixed static/dynamic segment
    out = ""
    for _ in range(rng.randint(2, 3)):
        if rng.random() < 0.5 and names:
            out += rng.choice(CONVERTERS).format(n=names.pop())
        else:
            out += rng.choice(["pre", "-", ".", "v", "_x"])
    return out


def gen_rule_string(rng):
    if rng.random() < 0.02:
        return rng.choice(MALFORMED)
    names = ["p", "q", "r", "s", "u", "v", "w", "z"]
    rng.shuffle(names)
    nseg = rng.choice([0, 1, 1, 2, 2, 2, 3, 3, 4])
    segs = [gen_segment(rng, names) for _ in range(nseg)]
    s = "/" + "/".join(segs)
    if segs and rng.random() < 0.45:
        s += "/"
    if rng.random() < 0.08:
        s = s.replace("/", "//", 1)
    return s


def gen_rule_spec(rng, host_matching, idx):
    kw = {}
    kw["endpoint"] = f"ep{idx}"
    ws = rng.random() < 0.12
    m = rng.choice(METHODS)
    if ws:
        m = rng.choice([None, ["GET"], ["GET", "OPTIONS"]])
        kw["websocket"] = True
    if m is not None:
        kw["methods"] = m
    kw["strict_slashes"] = rng.choice([None, None, True, False])
    kw["merge_slashes"] = rng.choice([None, None, True, False])
    if rng.random() < 0.15:
        kw["defaults"] = {"dflt": rng.choice([1, "x"])}
    if rng.random() < 0.1:
        kw["alias"] = True
    if host_matching:
        r = rng.random()
        if r < 0.4:
            kw["host"] = rng.choice(
                ["example.org", "<h>.example.org", "api.example.org", "<path:h>"]
            )
    else:
        r = rng.random()
        if r < 0.3:
            kw["subdomain"] = rng.choice(["", "api", "<sub>", "<int:sub>", "a.<sub>"])
    return gen_rule_string(rng), kw


def gen_map_spec(rng):
    host_matching = rng.random() < 0.2
    mkw = {
        "strict_slashes": rng.random() < 0.7,
        "merge_slashes": rng.random() < 0.7,
        "redirect_defaults": rng.random() < 0.7,
        "host_matching": host_matching,
    }
    if not host_matching and rng.random() < 0.2:
        mkw["default_subdomain"] = rng.choice(["", "www"])
    rules = [gen_rule_spec(rng, host_matching, i) for i in range(rng.randint(1, 9))]
    return mkw, rules


def fill(rng, rule_string):
    import re as _re

    def sub(_m):
        spec = _m.group(0)
        if rng.random() < 0.1:
            return rng.choice(VALUES)
        if spec.startswith("<int(fixed"):
            return rng.choice(["12", "07", "12", "1"])
        if spec.startswith("<int(signed"):
            return rng.choice(["-3", "12", "1"])
        if spec.startswith("<int"):
            return rng.choice(["2", "12", "20", "21", "007"])
        if spec.startswith("<float(signed"):
            return rng.choice(["-2.5", "1.5"])
        if spec.startswith("<float"):
            return rng.choice(["1.5", "12.0", "1"])
        if spec.startswith("<path"):
            return rng.choice(["a/b", "foo/1", "a", "a/b/"])
        if spec.startswith("<any('x"):
            return rng.choice(["x.y", "12"])
        if spec.startswith("<any"):
            return rng.choice(["a", "b", "foo"])
        if spec.startswith("<uuid"):
            return "6ba7b810-9dad-11d1-80b4-00c04fd430c8"
        if spec.startswith("<string(length"):
            return rng.choice(["ab", "12"])
        if spec.startswith("<string(min"):
            return rng.choice(["ab", "abc", "abcd"])
        return rng.choice(["a", "foo", "12", "1.5", "x y", "index"])

    return _re.sub(r"<[^>]*>", sub, rule_string)


def gen_paths(rng, rules):
    paths = []
    for s, _ in rules:
        for _ in range(3):
            p = fill(rng, s)
            paths.append(p)
            k = rng.random()
            if k < 0.3:
                paths.append(p[:-1] if p.endswith("/") and len(p) > 1 else p + "/")
            elif k < 0.45:
                paths.append(p.replace("/", "//", 1))
            elif k < 0.55:
                paths.append(p + "//")
            elif k < 0.65:
                paths.append(p + "/" + rng.choice(VALUES))
    for _ in range(4):
        n = rng.randint(0, 4)
        p = "/" + "/".join(rng.choice(VALUES) for _ in range(n))
        if rng.random() < 0.4:
            p += "/"
        paths.append(p)
    return paths


def dump_state(state, rule_index):
    return (
        [rule_index[id(r)] for r in state.rules],
        [(k, dump_state(v, rule_index)) for k, v in state.static.items()],
        [
            (p.content, p.final, p.static, p.suffixed, tuple(p.weight),
             dump_state(s, rule_index))
            for p, s in state.dynamic
        ],
    )


def build(map_cls, rule_cls, matcher_cls, mkw, rules):
    """Returns ("ok", map) or ("err", exception type name, progress)."""
    m = map_cls(**mkw)
    if matcher_cls is not None:
        m._matcher = matcher_cls(m._matcher.merge_slashes)
    added = 0
    try:
        for s, kw in rules:
            m.add(rule_cls(s, **kw))
            added += 1
        m.update()
    except Exception as e:  # noqa: BLE001 - any construction error is compared
        return ("err", type(e).__name__, str(e), added), None
    return ("ok",), m


def describe_map(m):
    rule_index = {id(r): i for i, r in enumerate(m._rules)}
    per_rule = []
    for r in m._rules:
        per_rule.append(
            (
                r.endpoint,
                [(p.content, p.final, p.static, p.suffixed, tuple(p.weight)) for p in r._parts],
                list(r._trace),
                [(k, type(v).__name__, v.regex, v.weight) for k, v in r._converters.items()],
                sorted(r.arguments),
                r.strict_slashes,
                r.merge_slashes,
            )
        )
    return per_rule, dump_state(m._matcher._root, rule_index)


def raw_match(m, domain, path, method, websocket):
    rule_index = {id(r): i for i, r in enumerate(m._rules)}
    try:
        rule, values = m._matcher.match(domain, path, method, websocket)
    except _NoMatch as e:
        return ("NoMatch", sorted(e.have_match_for), e.websocket_mismatch)
    except _RP as e:
        return ("RequestPath", e.path_info)
    except _RAR as e:
        return ("Alias", sorted(e.matched_values.items(), key=repr), e.endpoint)
    except Exception as e:  # noqa: BLE001
        return ("EXC", type(e).__name__, str(e))
    return ("ok", rule_index[id(rule)], list(values.items()),
            [type(v).__name__ for v in values.values()])


def adapter_match(m, host_matching, server_name, subdomain, path, method, websocket):
    try:
        if host_matching:
            a = m.bind(server_name)
        else:
            a = m.bind("example.org", subdomain=subdomain)
        rv = a.match(path, method=method, websocket=websocket)
    except HTTPException as e:
        return (
            type(e).__name__,
            getattr(e, "new_url", None),
            sorted(getattr(e, "valid_methods", None) or []),
        )
    except Exception as e:  # noqa: BLE001
        return ("EXC", type(e).__name__, str(e))
    return ("ok", rv[0], list(rv[1].items()), [type(v).__name__ for v in rv[1].values()])


def run(old_classes, new_classes, n_maps=700, seed=20260311):
    """old_classes/new_classes: (Map, Rule, MatcherOrNone)."""
    rng = random.Random(seed)
    checked = 0
    outcomes = {}
    for i in range(n_maps):
        mkw, rules = gen_map_spec(rng)
        so, mo = build(*old_classes, mkw, rules)
        sn, mn = build(*new_classes, mkw, rules)
        if so != sn:
            print("FAIL build outcome differs", mkw, rules, so, sn)
            return False
        outcomes[so[0]] = outcomes.get(so[0], 0) + 1
        if mo is None:
            continue
        do, dn = describe_map(mo), describe_map(mn)
        if do != dn:
            print("FAIL compiled structures differ", mkw, rules)
            print(do)
            print(dn)
            return False
        host_matching = mkw["host_matching"]
        for path in gen_paths(rng, rules):
            method = rng.choice(REQ_METHODS[:3] if rng.random() < 0.7 else REQ_METHODS)
            websocket = rng.random() < 0.12
            if host_matching:
                domain = rng.choice(
                    ["example.org", "example.org", "api.example.org", "x.example.org", "a/b"]
                )
                sub = None
            else:
                pool = [mkw.get("default_subdomain", "")] * 10
                pool += [fill(rng, kw["subdomain"]) for _, kw in rules if "subdomain" in kw]
                pool += ["api", "7"]
                sub = rng.choice(pool)
                domain = sub
            ro = raw_match(mo, domain, path, method, websocket)
            rn = raw_match(mn, domain, path, method, websocket)
            if ro != rn:
                print("FAIL raw match differs", mkw, rules, domain, path, method, websocket)
                print(ro)
                print(rn)
                return False
            ao = adapter_match(mo, host_matching, domain, sub, path, method, websocket)
            an = adapter_match(mn, host_matching, domain, sub, path, method, websocket)
            if ao != an:
                print("FAIL adapter match differs", mkw, rules, domain, path, method, websocket)
                print(ao)
                print(an)
                return False
            key = ro[0] + "/" + ao[0]
            outcomes[key] = outcomes.get(key, 0) + 1
            checked += 1
    print("maps:", n_maps, "match comparisons:", checked)
    print("outcome distribution:", dict(sorted(outcomes.items())))
    return checked >= 3000


JUNK_ALPHABET = ["/", "/", "<", ">", ":", "(", ")", "a", "b1", "_", ".", "-", ",", "=",
                 "int", "path", "string", "any", "float", " ", "'", '"', "2", "\\", "+", "é"]


def gen_parse_input(rng):
    k = rng.random()
    if k < 0.6:
        s = gen_rule_string(rng)
    elif k < 0.75:
        s = gen_rule_string(rng)
        # damage it a little
        i = rng.randrange(len(s) + 1)
        s = s[:i] + rng.choice(JUNK_ALPHABET) + s[i + rng.choice([0, 1]):]
    elif k < 0.9:
        s = "".join(rng.choice(JUNK_ALPHABET) for _ in range(rng.randint(0, 10)))
    else:
        s = rng.choice(["", "api", "<sub>", "<int:sub>.x", "a.<sub>", "<path:h>/", "<path:h>/x/",
                        "/<path:p>/", "/<path:p>/<q>/", "/<path:p>//", "/<path:p>/a/<int:q>/"])
    return s


def parse_outcome(rule_cls, s):
    m = Map()
    r = rule_cls("/placeholder", endpoint="e")
    m.add(r)
    r._trace = []
    r._converters = {}
    r.arguments = set()
    try:
        parts = list(r._parse_rule(s))
    except Exception as e:  # noqa: BLE001
        res = ("err", type(e).__name__, str(e))
    else:
        res = ("ok", [(p.content, p.final, p.static, p.suffixed, tuple(p.weight)) for p in parts])
    return (
        res,
        list(r._trace),
        [(k, type(v).__name__, v.regex, v.weight) for k, v in r._converters.items()],
        sorted(r.arguments),
    )


def direct_check(n=6000, seed=4242):
    rng = random.Random(seed)
    stats = {}
    for _ in range(n):
        s = gen_parse_input(rng)
        o = parse_outcome(OrigRule, s)
        nw = parse_outcome(Rule, s)
        if o != nw:
            print("FAIL _parse_rule differs on", repr(s))
            print(o)
            print(nw)
            return False
        key = o[0][0] if o[0][0] == "ok" else o[0][1]
        stats[key] = stats.get(key, 0) + 1
    print("direct _parse_rule comparisons:", n, stats)
    return True


def exclusivity_check(n=6000, seed=77):
    rng = random.Random(seed)
    seen = 0
    for _ in range(n):
        s = gen_parse_input(rng)
        for pos in range(len(s)):
            mt = _part_re.match(s, pos)
            if mt is None:
                continue
            seen += 1
            present = [g for g in ("slash", "static", "variable") if mt.group(g) is not None]
            if len(present) != 1:
                print("FAIL groups not exclusive", repr(s), pos, present)
                return False
            if mt.groupdict()["arguments"] != mt.group("arguments") or mt.groupdict()[
                "converter"
            ] != mt.group("converter"):
                print("FAIL groupdict/group mismatch")
                return False
    print("regex matches inspected:", seen)
    return True


if __name__ == "__main__":
    assert "groupdict" not in inspect.getsource(Rule._parse_rule), (
        "refactoring 3 is not applied in the imported worktree"
    )
    ok = direct_check() and exclusivity_check()
    ok = ok and run((Map, OrigRule, None), (Map, Rule, None), n_maps=600)
    print("PASS" if ok else "FAIL")
    sys.exit(0 if ok else 1)
