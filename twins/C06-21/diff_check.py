"""Differential check for refactoring 3 (parse_list_header / parse_dict_header,
and their users parse_set_header / WWWAuthenticate / Authorization parsing).

Run: cd /tmp/wt15-C06 && PYTHONPATH=/tmp/wt15-C06/src /venv/bin/python /tmp/twin10-C06/3/diff_check.py
"""
import itertools
import random

import werkzeug.http as H

ORIG = '''
def parse_list_header(value):
    result = []

    for item in _parse_list_header(value):
        if len(item) >= 2 and item[0] == item[-1] == '"':
            item = item[1:-1]

        result.append(item)

    return result


def parse_dict_header(value):
    result = {}

    for item in parse_list_header(value):
        key, has_value, value = item.partition("=")
        key = key.strip()

        if not key:
            # =value is not valid
            continue

        if not has_value:
            result[key] = None
            continue

        value = value.strip()
        encoding = None

        if key[-1] == "*":
            key = key[:-1]
            match = _charset_value_re.match(value)

            if match:
                encoding, value = match.groups()
                encoding = encoding.lower()

            if encoding in {"ascii", "us-ascii", "utf-8", "iso-8859-1"}:
                value = unquote(value, encoding=encoding)

        if len(value) >= 2 and value[0] == value[-1] == '"':
            value = value[1:-1]

        result[key] = value

    return result
'''
ns = dict(vars(H))
exec(ORIG, ns)
assert ns["parse_list_header"] is not H.parse_list_header
assert ns["parse_dict_header"] is not H.parse_dict_header


def run(fn, *args):
    try:
        r = fn(*args)
    except BaseException as e:  # noqa: B036
        return ("exc", type(e), str(e))
    if isinstance(r, dict):
        return ("ok", "dict", list(r.items()))
    return ("ok", type(r), r)


rnd = random.Random(3606)
ALPHA = ['a', 'b', 'K', '1', '=', '=', ',', ',', '"', '"', '\\', ' ', '*', "'", '%', ';', '\t', 'é', '-']
CHARSETS = ["UTF-8", "utf-8", "ascii", "US-ASCII", "iso-8859-1", "ISO-8859-1", "latin-1", "utf-16", "", "x"]
PCT = ["%E2%82%AC", "%20", "%FF", "%", "%zz", "a%20b", "rates", "%22q%22", "%22"]


def rstr(n=8):
    return "".join(rnd.choice(ALPHA) for _ in range(rnd.randint(0, n)))


def ritem():
    r = rnd.random()
    if r < 0.25:
        return rstr()
    if r < 0.4:
        return f'k{rnd.randint(0, 3)}="{rstr()}"'
    if r < 0.5:
        return f"k{rnd.randint(0, 3)}={rstr(4)}"
    if r < 0.8:
        lang = rnd.choice(["", "", "en", "x y"])
        val = "".join(rnd.choice(PCT) for _ in range(rnd.randint(0, 3)))
        q = rnd.choice(["", "", '"'])
        return f"k{rnd.randint(0, 3)}*={q}{rnd.choice(CHARSETS)}'{lang}'{val}{q}"
    if r < 0.9:
        return f"k*={rstr(5)}"
    return rnd.choice(['""', '"', '"a', 'a"', '"\\""', "=v", " = ", "*", "*=", "*=utf-8''x", "k", ""])


n = bad = 0


def check(v):
    global n, bad
    for name in ("parse_list_header", "parse_dict_header"):
        n += 1
        a, b = run(getattr(H, name), v), run(ns[name], v)
        if a != b:
            bad += 1
            if bad < 10:
                print("MISMATCH", name, repr(v), a, b)


for v in [None, "", b"a, b", 5, ["a"], 'token, "quoted value"', 'a=b, c="d, e", f',
          "a*=UTF-8''%E2%82%AC", "a*=\"UTF-8''%22x%22\"", "a*=bogus''%22x%22", "a*=\"x\""]:
    check(v)

for k in range(0, 6):
    for combo in itertools.product(['"', "a", ",", "=", "\\", " "], repeat=k):
        check("".join(combo))

for _ in range(8000):
    check(rnd.choice([", ", ",", " , "]).join(ritem() for _ in range(rnd.randint(0, 4))))

# users of the two parsers + round trips through the (unchanged) dumper
from werkzeug.datastructures import WWWAuthenticate, Authorization, HeaderSet  # noqa: E402

for _ in range(2000):
    items = [rstr(6) for _ in range(rnd.randint(0, 4))]
    n += 1
    if H.parse_list_header(H.dump_header(items)) != ns["parse_list_header"](H.dump_header(items)):
        bad += 1
    n += 1
    dumped = H.dump_header(items)
    exp_set = HeaderSet(ns["parse_list_header"](dumped)) if dumped else HeaderSet()
    if list(H.parse_set_header(dumped)) != list(exp_set):
        bad += 1
        print("MISMATCH set", repr(dumped))
    d = {f"k{i}": rnd.choice([None, rstr(6)]) for i in range(rnd.randint(0, 4))}
    n += 1
    if run(H.parse_dict_header, H.dump_header(d)) != run(ns["parse_dict_header"], H.dump_header(d)):
        bad += 1
    hdr = "Digest " + ", ".join(ritem() for _ in range(rnd.randint(0, 3)))
    for cls in (WWWAuthenticate, Authorization):
        n += 1
        got = cls.from_header(hdr)
        exp = ns["parse_dict_header"](hdr.partition(" ")[2])
        if got is not None and got.token is None and dict(got.parameters) != exp:
            bad += 1
            print("MISMATCH auth", cls.__name__, repr(hdr))

print(f"{n} cases, {bad} mismatches")
print("PASS" if bad == 0 else "FAIL")
