"""Differential check for refactoring 1 (MultipartEncoder.send_event).

Run: cd /tmp/wt10-C02 && PYTHONPATH=/tmp/wt10-C02/src /venv/bin/python /tmp/twin6-C02/1/diff_check.py
"""
from __future__ import annotations

import random
import typing as t

from werkzeug.datastructures import Headers
from werkzeug.sansio.multipart import Data
from werkzeug.sansio.multipart import Epilogue
from werkzeug.sansio.multipart import Event
from werkzeug.sansio.multipart import Field
from werkzeug.sansio.multipart import File
from werkzeug.sansio.multipart import MultipartDecoder
from werkzeug.sansio.multipart import MultipartEncoder
from werkzeug.sansio.multipart import NEED_DATA
from werkzeug.sansio.multipart import Preamble
from werkzeug.sansio.multipart import State


class OrigMultipartEncoder:
    """Verbatim copy of the unmodified implementation."""

    def __init__(self, boundary: bytes) -> None:
        self.boundary = boundary
        self.state = State.PREAMBLE

    def send_event(self, event: Event) -> bytes:
        if isinstance(event, Preamble) and self.state == State.PREAMBLE:
            self.state = State.PART
            return event.data
        elif isinstance(event, (Field, File)) and self.state in {
            State.PREAMBLE,
            State.PART,
            State.DATA,
        }:
            data = b"\r\n--" + self.boundary + b"\r\n"
            data += b'Content-Disposition: form-data; name="%s"' % event.name.encode()
            if isinstance(event, File):
                data += b'; filename="%s"' % event.filename.encode()
            data += b"\r\n"
            for name, value in t.cast(Field, event).headers:
                if name.lower() != "content-disposition":
                    data += f"{name}: {value}\r\n".encode()
            self.state = State.DATA_START
            return data
        elif isinstance(event, Data) and self.state == State.DATA_START:
            self.state = State.DATA
            if len(event.data) > 0:
                return b"\r\n" + event.data
            else:
                return event.data
        elif isinstance(event, Data) and self.state == State.DATA:
            return event.data
        elif isinstance(event, Epilogue):
            self.state = State.COMPLETE
            return b"\r\n--" + self.boundary + b"--\r\n" + event.data
        else:
            raise ValueError(f"Cannot generate {event} in state: {self.state}")


ALPHABETS = [
    "abcXYZ019 _-.",
    "äöüßéñ€",
    "日本語テキスト",
    "😀🎉\U0001f600",
    "\u0000\t ;=:,'%&+/",
    "\u0085  \x0b\x0c\x1c",
    '"\\\r\n',  # out of the property's domain, still must be byte identical
    "\ud800\udfff",  # lone surrogates -> UnicodeEncodeError in both
]


def rand_text(rng: random.Random, maxlen: int = 12) -> str:
    n = rng.choice([0, 1, 1, 2, 3, 5, 8, maxlen])
    alpha = "".join(rng.sample(ALPHABETS, rng.randint(1, 3)))
    return "".join(rng.choice(alpha) for _ in range(n))


def rand_boundary(rng: random.Random) -> bytes:
    n = rng.choice([1, 2, 5, 16, 40, 70])
    return bytes(rng.choice(b"abcXYZ0123456789-_'()+,./:=?") for _ in range(n))


def rand_bytes(rng: random.Random, boundary: bytes) -> bytes:
    pieces = [
        b"",
        b"\r",
        b"\n",
        b"\r\n",
        b"\r\n\r\n",
        b"--",
        b"----",
        b"--" + boundary,
        b"\r\n--" + boundary[:-1],
        b"\r\n--" + boundary + b"x",
        b"\n--" + boundary[: len(boundary) // 2],
        bytes(rng.randrange(256) for _ in range(rng.randint(0, 20))),
        b"hello world",
    ]
    return b"".join(rng.choice(pieces) for _ in range(rng.randint(0, 5)))


def rand_headers(rng: random.Random) -> Headers:
    h = Headers()
    names = [
        "Content-Type",
        "content-type",
        "Content-Disposition",
        "CONTENT-DISPOSITION",
        "content-disposition",
        "Content-Length",
        "X-Custom",
        "X-Ünï",
        "Content-Transfer-Encoding",
    ]
    values = [
        "text/plain",
        "text/plain; charset=utf-8",
        "application/octet-stream",
        'form-data; name="zzz"',
        "12",
        "ünïcödé",
        "",
        "a b  c",
    ]
    for _ in range(rng.choice([0, 0, 1, 2, 4])):
        try:
            h.add(rng.choice(names), rng.choice(values))
        except (ValueError, TypeError):
            pass
    return h


def rand_event(rng: random.Random, boundary: bytes) -> t.Any:
    k = rng.random()
    if k < 0.08:
        return Preamble(data=rand_bytes(rng, boundary))
    if k < 0.33:
        return Field(name=rand_text(rng), headers=rand_headers(rng))
    if k < 0.55:
        fn: t.Any = rand_text(rng)
        if rng.random() < 0.03:
            fn = None  # AttributeError in both
        return File(name=rand_text(rng), filename=fn, headers=rand_headers(rng))
    if k < 0.9:
        d: t.Any = rand_bytes(rng, boundary)
        r = rng.random()
        if r < 0.05:
            d = bytearray(d)
        elif r < 0.07:
            d = None  # TypeError in DATA_START for both
        return Data(data=d, more_data=rng.random() < 0.5)
    if k < 0.97:
        return Epilogue(data=rand_bytes(rng, boundary))
    return rng.choice([NEED_DATA, Event(), None, "field", 0])


def valid_sequence(rng: random.Random, boundary: bytes) -> list[t.Any]:
    events: list[t.Any] = [Preamble(data=rng.choice([b"", b"pre", b"pre\r\n"]))]
    for _ in range(rng.randint(0, 6)):
        name = rand_text(rng)
        if rng.random() < 0.5:
            events.append(Field(name=name, headers=rand_headers(rng)))
        else:
            events.append(
                File(name=name, filename=rand_text(rng), headers=rand_headers(rng))
            )
        nchunks = rng.randint(1, 3)
        for i in range(nchunks):
            events.append(
                Data(data=rand_bytes(rng, boundary), more_data=i < nchunks - 1)
            )
    events.append(Epilogue(data=rng.choice([b"", b"epi", b"\r\nepi"])))
    return events


def call(enc: t.Any, event: t.Any) -> tuple[str, t.Any, t.Any, State]:
    try:
        out = enc.send_event(event)
    except Exception as e:
        return ("exc", type(e), str(e), enc.state)
    return ("ok", type(out), bytes(out) if out is not None else None, enc.state)


def decode_all(boundary: bytes, body: bytes) -> t.Any:
    dec = MultipartDecoder(boundary)
    dec.receive_data(body)
    dec.receive_data(None)
    out = []
    try:
        while True:
            ev = dec.next_event()
            out.append(ev)
            if isinstance(ev, Epilogue):
                break
    except Exception as e:
        out.append(("exc", type(e), str(e)))
    return out


def main() -> None:
    rng = random.Random(20260102)
    n_seq = 0
    n_events = 0
    n_exc = 0
    mismatches = 0

    for i in range(6000):
        boundary = rand_boundary(rng)
        if i % 2 == 0:
            events = valid_sequence(rng, boundary)
        else:
            events = [rand_event(rng, boundary) for _ in range(rng.randint(1, 12))]
        if rng.random() < 0.01:
            bnd: t.Any = boundary.decode()  # wrong type -> TypeError in both
        else:
            bnd = boundary

        new = MultipartEncoder(bnd)
        old = OrigMultipartEncoder(bnd)
        body_new = b""
        body_old = b""
        clean = True
        for ev in events:
            rn = call(new, ev)
            ro = call(old, ev)
            n_events += 1
            if rn[0] == "exc":
                n_exc += 1
                clean = False
            if rn != ro:
                mismatches += 1
                if mismatches <= 10:
                    print("MISMATCH", bnd, ev, rn, ro)
            if rn[0] == "ok" and rn[2] is not None:
                body_new += rn[2]
            if ro[0] == "ok" and ro[2] is not None:
                body_old += ro[2]
        n_seq += 1
        if body_new != body_old:
            mismatches += 1
            print("BODY MISMATCH", boundary, events)
        elif clean and isinstance(bnd, bytes) and i % 2 == 0:
            # the bytes also decode to the same events
            if decode_all(boundary, body_new) != decode_all(boundary, body_old):
                mismatches += 1
                print("DECODE MISMATCH", boundary, events)

    print(f"sequences={n_seq} events={n_events} raising={n_exc}")
    print("PASS" if mismatches == 0 else f"FAIL ({mismatches} mismatches)")


if __name__ == "__main__":
    main()
