"""Differential check for refactoring 2 (formparser.MultiPartParser.parse,
FormDataParser._parse_urlencoded).

Run: cd /tmp/wt12-C10 && PYTHONPATH=/tmp/wt12-C10/src /venv/bin/python /tmp/twin7-C10/2/diff_check.py
"""
import io
import random
import typing as t
from urllib.parse import parse_qsl

from werkzeug.datastructures import FileStorage
from werkzeug.datastructures import MultiDict
from werkzeug.exceptions import RequestEntityTooLarge
from werkzeug.formparser import _chunk_iter
from werkzeug.formparser import FormDataParser
from werkzeug.formparser import MultiPartParser
from werkzeug.sansio.multipart import Data
from werkzeug.sansio.multipart import Epilogue
from werkzeug.sansio.multipart import Field
from werkzeug.sansio.multipart import File
from werkzeug.sansio.multipart import MultipartDecoder
from werkzeug.sansio.multipart import NeedData


class OrigMultiPartParser(MultiPartParser):
    """Original (pre-refactoring) parse, pasted verbatim."""

    def parse(
        self, stream: t.IO[bytes], boundary: bytes, content_length: int | None
    ) -> tuple[MultiDict[str, str], MultiDict[str, FileStorage]]:
        current_part: Field | File
        field_size: int | None = None
        container: t.IO[bytes] | list[bytes]
        _write: t.Callable[[bytes], t.Any]

        parser = MultipartDecoder(
            boundary,
            max_form_memory_size=self.max_form_memory_size,
            max_parts=self.max_form_parts,
        )

        fields = []
        files = []

        for data in _chunk_iter(stream.read, self.buffer_size):
            parser.receive_data(data)
            event = parser.next_event()
            while not isinstance(event, (Epilogue, NeedData)):
                if isinstance(event, Field):
                    current_part = event
                    field_size = 0
                    container = []
                    _write = container.append
                elif isinstance(event, File):
                    current_part = event
                    field_size = None
                    container = self.start_file_streaming(event, content_length)
                    _write = container.write
                elif isinstance(event, Data):
                    if self.max_form_memory_size is not None and field_size is not None:
                        # Ensure that accumulated data events do not exceed limit.
                        # Also checked within single event in MultipartDecoder.
                        field_size += len(event.data)

                        if field_size > self.max_form_memory_size:
                            raise RequestEntityTooLarge()

                    _write(event.data)
                    if not event.more_data:
                        if isinstance(current_part, Field):
                            value = b"".join(container).decode(
                                self.get_part_charset(current_part.headers), "replace"
                            )
                            fields.append((current_part.name, value))
                        else:
                            container = t.cast(t.IO[bytes], container)
                            container.seek(0)
                            files.append(
                                (
                                    current_part.name,
                                    FileStorage(
                                        container,
                                        current_part.filename,
                                        current_part.name,
                                        headers=current_part.headers,
                                    ),
                                )
                            )

                event = parser.next_event()

        return self.cls(fields), self.cls(files)


class OrigFormDataParser(FormDataParser):
    """Original _parse_urlencoded pasted verbatim; _parse_multipart is the unchanged
    code but instantiating OrigMultiPartParser."""

    def _parse_multipart(self, stream, mimetype, content_length, options):
        parser = OrigMultiPartParser(
            stream_factory=self.stream_factory,
            max_form_memory_size=self.max_form_memory_size,
            max_form_parts=self.max_form_parts,
            cls=self.cls,
        )
        boundary = options.get("boundary", "").encode("ascii")

        if not boundary:
            raise ValueError("Missing boundary")

        form, files = parser.parse(stream, boundary, content_length)
        return stream, form, files

    def _parse_urlencoded(self, stream, mimetype, content_length, options):
        if (
            self.max_form_memory_size is not None
            and content_length is not None
            and content_length > self.max_form_memory_size
        ):
            raise RequestEntityTooLarge()

        items = parse_qsl(
            stream.read().decode(),
            keep_blank_values=True,
            errors="werkzeug.url_quote",
        )
        return stream, self.cls(items), self.cls()


NLS = [b"\r\n", b"\r\n", b"\r\n", b"\n", b"\r"]
BOUNDARIES = [b"b", b"boundary", b"----WebKitFormBoundaryX7", b"a.b+c", b"x" * 40]


def gen_value(rng: random.Random) -> bytes:
    kind = rng.randrange(6)
    n = rng.choice([0, 1, 2, 5, 17, 60, 200, 900])
    if kind == 0:
        return bytes(rng.choice(b"abc xyz") for _ in range(n))
    if kind == 1:
        return bytes(rng.choice(b"a\r\n-") for _ in range(n))
    if kind == 2:
        return bytes(rng.randrange(256) for _ in range(n))
    if kind == 3:
        return ("é中" * (n // 4)).encode()
    if kind == 4:
        return b"\r\n--" + bytes(rng.choice(b"bx-") for _ in range(n))
    return b"line\r\n" * (n // 6)


def gen_body(rng: random.Random, boundary: bytes) -> bytes:
    nl = rng.choice(NLS)
    out = bytearray()
    if rng.random() < 0.3:
        out += gen_value(rng)[:30].replace(b"--", b"__")
    if rng.random() < 0.8:
        out += nl
    nparts = rng.choice([0, 1, 1, 2, 3, 4, 6, 10])
    for i in range(nparts):
        out += b"--" + boundary
        if rng.random() < 0.1:
            out += b" \t"
        out += nl
        r = rng.random()
        if r < 0.05:
            pass  # missing content-disposition
        elif r < 0.45:
            out += b'Content-Disposition: form-data; name="f%d"; filename="n%d.txt"' % (
                i,
                i,
            )
            out += nl
            if rng.random() < 0.5:
                out += b"Content-Type: text/plain" + nl
            if rng.random() < 0.3:
                out += b"Content-Length: %d" % rng.randrange(100) + nl
        else:
            out += b'Content-Disposition: form-data; name="v%d"' % (i % 3)
            out += nl
            if rng.random() < 0.3:
                out += b"Content-Type: text/plain;" + nl + b" charset=" + rng.choice(
                    [b"utf-8", b"iso-8859-1", b"ascii", b"utf-16", b"bogus"]
                ) + nl
            if rng.random() < 0.1:
                out += b"X-Junk" + nl
        out += nl
        out += gen_value(rng)
        out += nl
    r = rng.random()
    if r < 0.8:
        out += b"--" + boundary + b"--"
        if rng.random() < 0.7:
            out += nl
        if rng.random() < 0.2:
            out += gen_value(rng)[:20]
    elif r < 0.9:
        out += b"--" + boundary + nl  # unterminated
    # else: truncated
    if rng.random() < 0.08 and out:
        out = out[: rng.randrange(len(out))]
    return bytes(out)


def gen_case(rng: random.Random):
    boundary = rng.choice(BOUNDARIES)
    body = gen_body(rng, boundary)
    if rng.random() < 0.05:
        body = bytes(rng.randrange(256) for _ in range(rng.randrange(300)))
    max_mem = rng.choice([None, None, 0, 1, 5, 17, 50, 100, 250, 1000, 5000, 10**6])
    max_parts = rng.choice([None, None, 0, 1, 2, 3, 5, 10, 1000])
    chunk = rng.choice([1, 2, 3, 7, 16, 64, 257, 1024, 64 * 1024])
    return boundary, body, max_mem, max_parts, chunk


class LogStream(io.BytesIO):
    """File container that records every call made on it."""

    def __init__(self, log):
        super().__init__()
        self.log = log

    def write(self, b):
        self.log.append(("write", bytes(b)))
        return super().write(b)

    def seek(self, *a):
        self.log.append(("seek", a))
        return super().seek(*a)


def make_factory(log, mode):
    def factory(total_content_length, content_type, filename, content_length=None):
        log.append(("factory", total_content_length, content_type, filename, content_length))
        if mode == 2:
            raise OSError("no space")
        return LogStream(log)

    return factory


class CharsetLogMixin:
    def get_part_charset(self, headers):
        rv = super().get_part_charset(headers)
        self.cs_log.append(rv)
        return rv


class NewLogged(CharsetLogMixin, MultiPartParser):
    pass


class OrigLogged(CharsetLogMixin, OrigMultiPartParser):
    pass


def summarize(form, files, stream):
    return (
        type(form),
        list(form.items(multi=True)),
        type(files),
        [
            (k, type(v), v.filename, v.name, list(v.headers), v.stream.tell(), v.stream.read())
            for k, v in files.items(multi=True)
        ],
        stream.tell(),
    )


def run_mpp(cls, boundary, body, max_mem, max_parts, chunk, fmode, content_length):
    log = []
    kwargs = dict(max_form_memory_size=max_mem, max_form_parts=max_parts, buffer_size=chunk)
    if fmode:
        kwargs["stream_factory"] = make_factory(log, fmode)
    parser = cls(**kwargs)
    parser.cs_log = log
    stream = io.BytesIO(body)
    try:
        form, files = parser.parse(stream, boundary, content_length)
    except Exception as e:  # noqa: B902
        return ("exc", type(e), str(e), stream.tell(), log)
    return ("ok", summarize(form, files, stream), log)


def run_fdp(cls, mimetype, options, body, max_mem, max_parts, content_length, silent):
    parser = cls(
        max_form_memory_size=max_mem, max_form_parts=max_parts, silent=silent
    )
    stream = io.BytesIO(body)
    try:
        rv_stream, form, files = parser.parse(stream, mimetype, content_length, options)
    except Exception as e:  # noqa: B902
        return ("exc", type(e), str(e), stream.tell())
    return ("ok", rv_stream is stream, summarize(form, files, stream))


def gen_urlencoded(rng):
    n = rng.choice([0, 1, 2, 5, 20])
    pieces = []
    for _ in range(n):
        k = "".join(rng.choice("ab%+é=&;1 ") for _ in range(rng.randrange(6)))
        v = "".join(rng.choice("xy%2+é=1 \xff") for _ in range(rng.choice([0, 1, 5, 40, 300])))
        pieces.append(k + "=" + v if rng.random() < 0.8 else k)
    body = "&".join(pieces).encode("utf-8")
    if rng.random() < 0.1:
        body += bytes(rng.randrange(256) for _ in range(5))
    return body


def main() -> None:
    assert OrigMultiPartParser.parse is not MultiPartParser.parse
    rng = random.Random(77123)
    outcomes: dict[str, int] = {}
    n = 0
    for i in range(5000):
        boundary, body, max_mem, max_parts, chunk = gen_case(rng)
        fmode = rng.choice([0, 0, 1, 1, 1, 2])
        cl = rng.choice([None, len(body), 0, 10**7])
        a = run_mpp(OrigLogged, boundary, body, max_mem, max_parts, chunk, fmode, cl)
        b = run_mpp(NewLogged, boundary, body, max_mem, max_parts, chunk, fmode, cl)
        if a != b:
            print("FAIL MultiPartParser.parse", (boundary, body, max_mem, max_parts, chunk))
            print(a)
            print(b)
            return
        key = a[0] if a[0] == "ok" else a[1].__name__
        outcomes[key] = outcomes.get(key, 0) + 1
        n += 1

        # Through FormDataParser.parse (multipart), silent and not.
        silent = rng.random() < 0.5
        opts = rng.choice([{"boundary": boundary.decode()}, {"boundary": boundary.decode()}, {}, None])
        a = run_fdp(OrigFormDataParser, "multipart/form-data", opts, body, max_mem, max_parts, cl, silent)
        b = run_fdp(FormDataParser, "multipart/form-data", opts, body, max_mem, max_parts, cl, silent)
        if a != b:
            print("FAIL FormDataParser multipart", a, b)
            return
        n += 1

    uoutcomes: dict[str, int] = {}
    for i in range(4000):
        body = gen_urlencoded(rng)
        max_mem = rng.choice([None, 0, 1, 5, 20, 100, 1000, 10**6])
        cl = rng.choice(
            [None, len(body), len(body), 0, len(body) + 1, max(0, len(body) - 1), 10**7]
            + ([max_mem, max_mem + 1, max(0, max_mem - 1)] if max_mem is not None else [])
        )
        silent = rng.random() < 0.5
        mt = rng.choice(["application/x-www-form-urlencoded"] * 4 + ["text/plain"])
        a = run_fdp(OrigFormDataParser, mt, None, body, max_mem, None, cl, silent)
        b = run_fdp(FormDataParser, mt, None, body, max_mem, None, cl, silent)
        if a != b:
            print("FAIL urlencoded", body, max_mem, cl, a, b)
            return
        key = a[0] if a[0] == "ok" else a[1].__name__
        uoutcomes[key] = uoutcomes.get(key, 0) + 1
        n += 1

    print("cases", n, "multipart outcomes", outcomes, "urlencoded outcomes", uoutcomes)
    assert outcomes.get("ok", 0) > 500 and outcomes.get("RequestEntityTooLarge", 0) > 500
    assert uoutcomes.get("ok", 0) > 500 and uoutcomes.get("RequestEntityTooLarge", 0) > 300
    print("PASS")


if __name__ == "__main__":
    main()
