"""Differential check for refactoring 2 (secure_filename / send_from_directory).

Run: cd /tmp/wt6-C14 && PYTHONPATH=/tmp/wt6-C14/src /venv/bin/python /tmp/twin4-C14/2/diff_check.py
"""
from __future__ import annotations

import os
import random
import shutil
import tempfile
import unicodedata

import werkzeug.utils as wu
from werkzeug.exceptions import NotFound
from werkzeug.security import safe_join
from werkzeug.test import EnvironBuilder
from werkzeug.utils import _filename_ascii_strip_re
from werkzeug.utils import _windows_device_files
from werkzeug.utils import secure_filename as new_secure_filename
from werkzeug.utils import send_file
from werkzeug.utils import send_from_directory as new_send_from_directory


# ---- ORIGINAL implementations (copied verbatim from the unmodified tree) ----
def orig_secure_filename(filename):
    filename = unicodedata.normalize("NFKD", filename)
    filename = filename.encode("ascii", "ignore").decode("ascii")

    for sep in os.sep, os.path.altsep:
        if sep:
            filename = filename.replace(sep, " ")
    filename = str(_filename_ascii_strip_re.sub("", "_".join(filename.split()))).strip(
        "._"
    )

    # on nt a couple of special files are present in each folder.  We
    # have to ensure that the target file is not such a filename.  In
    # this case we prepend an underline
    if (
        os.name == "nt"
        and filename
        and filename.split(".")[0].upper() in _windows_device_files
    ):
        filename = f"_{filename}"

    return filename


def orig_send_from_directory(directory, path, environ, **kwargs):
    path_str = safe_join(os.fspath(directory), os.fspath(path))

    if path_str is None:
        raise NotFound()

    # Flask will pass app.root_path, allowing its send_from_directory
    # wrapper to not have to deal with paths.
    if "_root_path" in kwargs:
        path_str = os.path.join(kwargs["_root_path"], path_str)

    if not os.path.isfile(path_str):
        raise NotFound()

    return send_file(path_str, environ, **kwargs)


# ---------------------------------------------------------------------------

ATOMS = [
    "", ".", "..", "/", "\\", " ", "\t", "\n", "_", "-", "a", "B", "7", "foo",
    ".txt", "\x00", "é", "ü", "ß", "∕", "．", "ﬁ", " ",
    "　", "Å", "\U0001f600", "CON", "con", "NUL", "prn", "COM1", "LPT9",
    "aux", "COM0", ":", "~", "%", "..", "._", "_.",
]
ODD = [None, b"abc", 1, 1.5, ("a",), ["a"], object()]


def run_sf(fn, arg):
    try:
        return ("ok", fn(arg))
    except BaseException as e:  # noqa: BLE001
        return ("exc", type(e))


def check_secure_filename():
    rng = random.Random(1402)
    inputs = list(ATOMS)
    inputs += [a + b for a in ATOMS for b in ATOMS]
    inputs += [a + "." + b for a in ATOMS for b in ATOMS]
    for _ in range(20000):
        inputs.append("".join(rng.choice(ATOMS) for _ in range(rng.randint(0, 8))))
    for _ in range(5000):
        inputs.append(
            "".join(chr(rng.randint(0, 0x2FFF)) for _ in range(rng.randint(0, 10)))
        )
    inputs += ODD

    total = bad = 0
    saved = (os.name, os.path.altsep)
    try:
        for name, altsep in (saved, ("nt", None), ("nt", "\\"), ("posix", "\\")):
            os.name = name
            os.path.altsep = altsep
            for x in inputs:
                total += 1
                a = run_sf(orig_secure_filename, x)
                b = run_sf(new_secure_filename, x)
                if a != b:
                    bad += 1
                    if bad < 10:
                        print("MISMATCH secure_filename", name, altsep, repr(x), a, b)
                # idempotence parity as well
                if a[0] == "ok":
                    total += 1
                    if run_sf(orig_secure_filename, a[1]) != run_sf(
                        new_secure_filename, a[1]
                    ):
                        bad += 1
    finally:
        os.name, os.path.altsep = saved
    return total, bad


def run_sfd(fn, directory, path, kwargs):
    environ = EnvironBuilder().get_environ()
    try:
        rv = fn(directory, path, environ, **kwargs)
    except BaseException as e:  # noqa: BLE001
        return ("exc", type(e), getattr(e, "code", None))
    rv.direct_passthrough = False
    data = rv.get_data()
    headers = sorted((k, v) for k, v in rv.headers if k != "Date")
    rv.close()
    return ("ok", rv.status, headers, data)


def check_send_from_directory():
    rng = random.Random(1403)
    tmp = tempfile.mkdtemp(prefix="twin4c14_")
    total = bad = 0
    try:
        root = os.path.join(tmp, "root")
        os.makedirs(os.path.join(root, "sub", "deep"))
        os.makedirs(os.path.join(root, "rel"))
        for rel, content in {
            "root/index.html": "index",
            "root/a.txt": "aaa",
            "root/sub/b.txt": "bbb",
            "root/sub/deep/c.bin": "ccc",
            "root/rel/r.txt": "rrr",
            "root/..hidden": "dots",
            "secret.txt": "SECRET",
        }.items():
            with open(os.path.join(tmp, rel), "w") as f:
                f.write(content)

        segs = [
            "", ".", "..", "a.txt", "index.html", "sub", "deep", "b.txt", "c.bin",
            "secret.txt", "root", "\x00", "..hidden", "rel", "r.txt", "nope",
            "a.txt\x00", "\\", "..\\", tmp.lstrip("/"), "~",
        ]
        seps = ["/", "//", "\\", "/./", "/../"]

        def gen_path():
            n = rng.randint(0, 4)
            out = rng.choice(["", "", "/", "./", "../"])
            for i in range(n):
                out += rng.choice(segs)
                if i != n - 1 or rng.random() < 0.2:
                    out += rng.choice(seps)
            return out

        paths = list(segs)
        paths += [a + s + b for a in segs for b in segs for s in ("/", "/../")]
        paths += [gen_path() for _ in range(3000)]
        paths += [os.path.join(tmp, "secret.txt"), os.path.join(root, "a.txt")]

        cwd = os.getcwd()
        os.chdir(tmp)
        try:
            configs = [
                (root, {}),
                (root + "/", {}),
                ("root", {}),
                ("", {}),
                ("root", {"_root_path": tmp}),
                ("rel", {"_root_path": root}),
                (root, {"_root_path": "/nonexistent"}),
                (os.path.join(root, "sub"), {"as_attachment": True}),
            ]
            for directory, kwargs in configs:
                for p in paths:
                    total += 1
                    a = run_sfd(orig_send_from_directory, directory, p, kwargs)
                    b = run_sfd(new_send_from_directory, directory, p, kwargs)
                    if a != b:
                        bad += 1
                        if bad < 10:
                            print("MISMATCH sfd", directory, repr(p), kwargs, a, b)
            # odd typed args -> exception type parity
            for directory in (root, None, b"x", 1):
                for p in (None, b"a.txt", 1, ("a",)):
                    total += 1
                    a = run_sfd(orig_send_from_directory, directory, p, {})
                    b = run_sfd(new_send_from_directory, directory, p, {})
                    if a != b:
                        bad += 1
                        print("MISMATCH sfd odd", directory, p, a, b)
        finally:
            os.chdir(cwd)
    finally:
        shutil.rmtree(tmp, ignore_errors=True)
    return total, bad


def main():
    assert wu.secure_filename is new_secure_filename
    t1, b1 = check_secure_filename()
    print("secure_filename cases:", t1, "mismatches:", b1)
    t2, b2 = check_send_from_directory()
    print("send_from_directory cases:", t2, "mismatches:", b2)
    print("PASS" if (b1 + b2) == 0 else "FAIL")


if __name__ == "__main__":
    main()
