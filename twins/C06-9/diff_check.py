"""Differential check for refactoring 3 (C06).

Compares the refactored werkzeug.http.quote_header_value,
unquote_header_value, http_date, parse_age and dump_age (imported from the
worktree) against verbatim copies of the ORIGINAL implementations pasted below.

Run: cd /tmp/wt9-C06 && PYTHONPATH=/tmp/wt9-C06/src /venv/bin/python /tmp/twin5-C06/3/diff_check.py
"""

from __future__ import annotations

import email.utils
import math
import random
import sys
from datetime import date
from datetime import datetime
from datetime import time
from datetime import timedelta
from datetime import timezone
from time import gmtime
from time import mktime
from time import struct_time

from werkzeug import http
from werkzeug._internal import _dt_as_utc

# ---------------------------------------------------------------- ORIGINALS
_token_chars = frozenset(
    "!#$%&'*+-.0123456789ABCDEFGHIJKLMNOPQRSTUVWXYZ^_`abcdefghijklmnopqrstuvwxyz|~"
)
assert _token_chars == http._token_chars


def orig_quote_header_value(value, allow_token=True):
    value_str = str(value)

    if not value_str:
        return '""'

    if allow_token:
        token_chars = _token_chars

        if token_chars.issuperset(value_str):
            return value_str

    value_str = value_str.replace("\\", "\\\\").replace('"', '\\"')
    return f'"{value_str}"'


def orig_unquote_header_value(value):
    if len(value) >= 2 and value[0] == value[-1] == '"':
        value = value[1:-1]
        return value.replace("\\\\", "\\").replace('\\"', '"')

    return value


def orig_http_date(timestamp=None):
    if isinstance(timestamp, date):
        if not isinstance(timestamp, datetime):
            # Assume plain date is midnight UTC.
            timestamp = datetime.combine(timestamp, time(), tzinfo=timezone.utc)
        else:
            # Ensure datetime is timezone-aware.
            timestamp = _dt_as_utc(timestamp)

        return email.utils.format_datetime(timestamp, usegmt=True)

    if isinstance(timestamp, struct_time):
        timestamp = mktime(timestamp)

    return email.utils.formatdate(timestamp, usegmt=True)


def orig_parse_age(value=None):
    if not value:
        return None
    try:
        seconds = int(value)
    except ValueError:
        return None
    if seconds < 0:
        return None
    try:
        return timedelta(seconds=seconds)
    except OverflowError:
        return None


def orig_dump_age(age=None):
    if age is None:
        return None
    if isinstance(age, timedelta):
        age = int(age.total_seconds())
    else:
        age = int(age)

    if age < 0:
        raise ValueError("age cannot be negative")

    return str(age)


# ---------------------------------------------------------------- helpers
def run(fn, *args, **kwargs):
    try:
        r = fn(*args, **kwargs)
    except BaseException as e:  # noqa: B036
        return ("exc", type(e), str(e))
    return ("ok", type(r), r)


failures = 0
n = 0


def check(label, fa, fb, *args, **kwargs):
    global failures, n
    a = run(fa, *args, **kwargs)
    b = run(fb, *args, **kwargs)
    n += 1
    if a != b:
        failures += 1
        if failures < 15:
            print("MISMATCH", label, args, kwargs, a, b)
    return b


rnd = random.Random(60603)
ALPHA = 'ab"\\\\"" ,;=%\t\'~!09é€\udc80'


def gen_str():
    r = rnd.random()
    if r < 0.3:
        return "".join(rnd.choice('"\\a') for _ in range(rnd.randint(0, 9)))
    if r < 0.4:
        return "".join(rnd.choice(sorted(_token_chars)) for _ in range(rnd.randint(0, 6)))
    return "".join(rnd.choice(ALPHA) for _ in range(rnd.randint(0, 10)))


# 1) quoting / unquoting and their round trip
for _ in range(40000):
    s = gen_str()
    for allow in (True, False, 0, 1, None):
        q = check("quote", orig_quote_header_value, http.quote_header_value, s, allow)
    check("quote-kw", orig_quote_header_value, http.quote_header_value, s, allow_token=False)
    u = check("unquote", orig_unquote_header_value, http.unquote_header_value, s)
    q = http.quote_header_value(s, allow_token=False)
    u = check("unquote(quote)", orig_unquote_header_value, http.unquote_header_value, q)
    n += 1
    if u[2] != s:
        failures += 1
        print("ROUNDTRIP broken", repr(s), repr(q), u)
    # normal form
    check("quote(unquote)", orig_quote_header_value, http.quote_header_value, u[2])

for v in [None, 0, 5, 1.5, True, b"x", b'"x"', b"", [], ['"', '"'], ("a",), {"a": 1}, object]:
    check("quote non-str", orig_quote_header_value, http.quote_header_value, v)
    check("quote non-str", orig_quote_header_value, http.quote_header_value, v, False)
    check("unquote non-str", orig_unquote_header_value, http.unquote_header_value, v)

# 2) Age codec
AGE_STR = ["", "0", "1", "-1", "-0", "+5", " 7 ", "1_0", "١٢", "1.5", "abc", "0x10", "1e3",
           "999999999", "86399999999999", "86400000000000", "99999999999999999999", "9" * 5000,
           "٣", "\t4\n", "--1", "- 1"]
for s in AGE_STR:
    check("parse_age", orig_parse_age, http.parse_age, s)
check("parse_age", orig_parse_age, http.parse_age)
check("parse_age", orig_parse_age, http.parse_age, None)
for v in [0, 1, -1, 5, 2.7, -2.7, True, False, b"12", b"-1", b"x", [], [1], 10**20,
          float("nan"), float("inf"), -float("inf"), 86400000000000]:
    check("parse_age non-str", orig_parse_age, http.parse_age, v)
    check("dump_age", orig_dump_age, http.dump_age, v)
for s in AGE_STR + ["12", "-3"]:
    check("dump_age str", orig_dump_age, http.dump_age, s)
check("dump_age", orig_dump_age, http.dump_age)

for _ in range(20000):
    k = rnd.choice([rnd.randint(-50, 5000), rnd.randint(-(10**15), 10**15)])
    check("parse_age", orig_parse_age, http.parse_age, str(k))
    check("parse_age", orig_parse_age, http.parse_age, rnd.choice(["", " ", "+"]) + str(k))
    d = check("dump_age int", orig_dump_age, http.dump_age, k)
    td = timedelta(
        days=rnd.randint(-3, 1000),
        seconds=rnd.randint(-100, 86399),
        microseconds=rnd.randint(0, 999999),
    )
    d = check("dump_age td", orig_dump_age, http.dump_age, td)
    if d[0] == "ok":
        p = check("parse_age(dump_age)", orig_parse_age, http.parse_age, d[2])
        n += 1
        if p[2] != timedelta(seconds=int(td.total_seconds())):
            failures += 1
            print("ROUNDTRIP age broken", td, d, p)
    check("dump_age float", orig_dump_age, http.dump_age, rnd.uniform(-10, 1000))

# 3) HTTP dates
tzs = [None, timezone.utc, timezone(timedelta(hours=2)), timezone(timedelta(hours=-7, minutes=-30)),
       timezone(timedelta(0)), timezone(timedelta(0), "GMT")]
for _ in range(20000):
    ts = rnd.randint(0, 4102444800)
    check("http_date int", orig_http_date, http.http_date, ts)
    check("http_date float", orig_http_date, http.http_date, ts + rnd.random())
    check("http_date struct", orig_http_date, http.http_date, gmtime(ts))
    naive = datetime(1970, 1, 1) + timedelta(seconds=ts, microseconds=rnd.randint(0, 999999))
    dt = naive.replace(tzinfo=rnd.choice(tzs))
    h = check("http_date datetime", orig_http_date, http.http_date, dt)
    check("http_date date", orig_http_date, http.http_date, naive.date())
    if h[0] == "ok":
        back = http.parse_date(h[2])
        n += 1
        expect = _dt_as_utc(dt).replace(microsecond=0)
        if back != expect or orig_http_date(back) != http.http_date(back) or http.http_date(back) != h[2]:
            failures += 1
            print("ROUNDTRIP date broken", dt, h, back)

for v in ["x", 1.5, -1, b"1", [], (2020, 1, 1), date.min, date.max, datetime.min, datetime.max,
          datetime.max.replace(tzinfo=timezone(timedelta(hours=-5))), float("nan"), 10**30,
          time(), True]:
    check("http_date odd", orig_http_date, http.http_date, v)

# None -> current time: compare to the second, retry on a tick boundary
for _ in range(3):
    a, b = orig_http_date(), http.http_date()
    if a == b:
        break
n += 1
if a != b:
    failures += 1
    print("MISMATCH http_date()", a, b)

# sanity
assert not math.isnan(n)
print(f"{n} comparisons, {failures} mismatches")
print("PASS" if failures == 0 else "FAIL")
sys.exit(0 if failures == 0 else 1)
