"""Differential check for refactoring 3 (CombinedMultiDict.get / .items).

``OrigCombined`` is the refactored ``CombinedMultiDict`` with the ORIGINAL
bodies of ``get`` and ``items`` pasted back in (nothing else changed in this
refactoring).  Randomly generated stacks of wrapped dicts are read through
both classes with every reader that reaches ``get`` / ``items`` and all
results / exception types+messages are compared.
"""

from __future__ import annotations

import copy
import pickle
import random
import re
import sys

from werkzeug.datastructures import CombinedMultiDict
from werkzeug.datastructures import ImmutableMultiDict
from werkzeug.datastructures import MultiDict


class OrigCombined(CombinedMultiDict):
    # --- original implementation, pasted verbatim -------------------------
    def get(self, key, default=None, type=None):
        for d in self.dicts:
            if key in d:
                if type is not None:
                    try:
                        return type(d[key])
                    except (ValueError, TypeError):
                        continue
                return d[key]
        return default

    def items(self, multi=False):
        found = set()
        for d in self.dicts:
            for key, value in d.items(multi):
                if multi:
                    yield key, value
                elif key not in found:
                    found.add(key)
                    yield key, value


# same class name so that reprs / messages mentioning the type compare equal
OrigCombined.__name__ = OrigCombined.__qualname__ = "CombinedMultiDict"

KEYS = ["a", "b", "c", "A", "", 1, 1.0, True, 0, None, ("t", 1), "x-y"]
BAD_KEYS = [[], {}, ["a"]]
VALUES = ["1", "2", "x", "", "3.5", " 7 ", None, 4, 2.5, b"5", [1], ("a",), "nan"]


class CountingFlag:
    """Truthiness flag that records how often it is evaluated."""

    def __init__(self, value):
        self.value = value
        self.calls = 0

    def __bool__(self):
        self.calls += 1
        return self.value


def conv_key_error(v):
    raise KeyError(v)


def conv_lookup_error(v):
    raise LookupError("lookup")


def conv_stop(v):
    raise StopIteration


class MyValueError(ValueError):
    pass


def conv_sub_value_error(v):
    raise MyValueError("sub")


def conv_type_error(v):
    raise TypeError("te")


def conv_picky(v):
    if v in ("1", "x", None):
        raise ValueError("picky")
    return ("picked", v)


TYPES = [None, None, int, float, str, conv_key_error, conv_lookup_error, conv_stop,
         conv_sub_value_error, conv_type_error, conv_picky, len, bytes, "notcallable"]

_ADDR = re.compile(r"0x[0-9a-f]+")


def norm(obj):
    return _ADDR.sub("0x?", repr(obj))


def run(fn):
    try:
        return ("ok", norm(fn()))
    except BaseException as e:  # noqa: B036
        return ("exc", type(e).__name__, norm(str(e)), type(e.__context__).__name__,
                e.__suppress_context__)


def rand_dict(rng, depth=0):
    pairs = [(rng.choice(KEYS), rng.choice(VALUES)) for _ in range(rng.randint(0, 6))]
    kind = rng.random()
    if kind < 0.55:
        d = MultiDict(pairs)
    elif kind < 0.75:
        d = ImmutableMultiDict(pairs)
    elif kind < 0.87 and depth < 2:
        d = CombinedMultiDict([rand_dict(rng, depth + 1) for _ in range(rng.randint(0, 3))])
        return d
    else:
        d = MultiDict(pairs)
        # key present but with an empty value list: ``key in d`` is true while
        # ``d[key]`` raises and ``d.items()`` hits IndexError
        d.setlist(rng.choice(KEYS), [])
        return d
    if rng.random() < 0.1 and isinstance(d, MultiDict) and not isinstance(d, ImmutableMultiDict):
        d.setlist(rng.choice(KEYS), [])
    return d


def drain_partially(cmd, multi, n):
    it = cmd.items(multi)
    out = []
    for _ in range(n):
        try:
            out.append(next(it))
        except StopIteration:
            out.append("stop")
            break
    it.close()
    out.append(list(it))
    return out


def main():
    seed = int(sys.argv[1]) if len(sys.argv) > 1 else 20261003
    rng = random.Random(seed)
    checks = 0

    def compare(label, fa, fb):
        nonlocal checks
        a, b = run(fa), run(fb)
        checks += 1
        if a != b:
            print("FAIL", seed, label, a, b)
            raise SystemExit(1)

    for case in range(3000):
        dicts = [rand_dict(rng) for _ in range(rng.randint(0, 4))]
        new, old = CombinedMultiDict(dicts), OrigCombined(dicts)

        for _ in range(6):
            key = rng.choice(KEYS + BAD_KEYS) if rng.random() < 0.1 else rng.choice(KEYS)
            default = rng.choice([None, "dflt", 0, ()])
            typ = rng.choice(TYPES)
            form = rng.randint(0, 3)
            if form == 0:
                compare(("get", case, key), lambda: new.get(key), lambda: old.get(key))
            elif form == 1:
                compare(("get-d", case, key, default), lambda: new.get(key, default),
                        lambda: old.get(key, default))
            elif form == 2:
                compare(("get-t", case, key, typ), lambda: new.get(key, type=typ),
                        lambda: old.get(key, type=typ))
            else:
                compare(("get-dt", case, key, default, typ),
                        lambda: new.get(key, default, typ), lambda: old.get(key, default, typ))

        for multi in (False, True, 0, 1, "", "x", None):
            compare(("items", case, multi), lambda: list(new.items(multi)),
                    lambda: list(old.items(multi)))
        compare(("items-kw", case), lambda: list(new.items(multi=True)),
                lambda: list(old.items(multi=True)))
        for value in (True, False):
            fa, fb = CountingFlag(value), CountingFlag(value)
            compare(("items-flag", case, value),
                    lambda: (list(new.items(fa)), fa.calls),
                    lambda: (list(old.items(fb)), fb.calls))
        n = rng.randint(0, 4)
        for multi in (False, True):
            compare(("items-partial", case, multi, n), lambda: drain_partially(new, multi, n),
                    lambda: drain_partially(old, multi, n))

        compare(("values", case), lambda: list(new.values()), lambda: list(old.values()))
        compare(("to_dict", case), lambda: new.to_dict(), lambda: old.to_dict())
        compare(("to_dict-nf", case), lambda: new.to_dict(flat=False),
                lambda: old.to_dict(flat=False))
        compare(("hash", case), lambda: hash(new), lambda: hash(old))
        compare(("copy", case), lambda: new.copy(), lambda: old.copy())
        compare(("multidict", case), lambda: MultiDict(new), lambda: MultiDict(old))
        compare(("immd", case), lambda: ImmutableMultiDict(new), lambda: ImmutableMultiDict(old))
        compare(("lists", case), lambda: list(new.lists()), lambda: list(old.lists()))
        compare(("listvalues", case), lambda: list(new.listvalues()),
                lambda: list(old.listvalues()))
        compare(("keys", case), lambda: sorted(map(repr, new.keys())),
                lambda: sorted(map(repr, old.keys())))
        compare(("len", case), lambda: len(new), lambda: len(old))
        compare(("repr", case), lambda: repr(new), lambda: repr(old))
        compare(("deepcopy", case),
                lambda: (lambda c: (list(c.items(multi=True)), c.dicts))(copy.deepcopy(new)),
                lambda: (lambda c: (list(c.items(multi=True)), c.dicts))(copy.deepcopy(old)))
        compare(("pickle-state", case), lambda: new.__reduce_ex__(2)[1],
                lambda: old.__reduce_ex__(2)[1])
        compare(("pickle", case),
                lambda: list(pickle.loads(pickle.dumps(new)).items(multi=True)),
                # OrigCombined lives in __main__ under a borrowed name and cannot be
                # pickled itself; its reduce state (compared above) is ``dicts``
                lambda: list(
                    OrigCombined(
                        pickle.loads(pickle.dumps(CombinedMultiDict(old.dicts))).dicts
                    ).items(multi=True)
                ))
        compare(("eq", case), lambda: (new == MultiDict(new), new == new.copy()),
                lambda: (old == MultiDict(old), old == old.copy()))
        compare(("mutators", case),
                lambda: [run(lambda: new.add("a", 1)), run(lambda: new.update({"a": 1}))],
                lambda: [run(lambda: old.add("a", 1)), run(lambda: old.update({"a": 1}))])
        # nesting: the refactored / original object wrapped in a plain combined dict
        outer_new = CombinedMultiDict([MultiDict({"a": "outer"}), new])
        outer_old = CombinedMultiDict([MultiDict({"a": "outer"}), old])
        compare(("nested-lists", case), lambda: list(outer_new.lists()),
                lambda: list(outer_old.lists()))
        compare(("nested-items", case), lambda: list(outer_new.items(multi=True)),
                lambda: list(outer_old.items(multi=True)))

    print(f"PASS ({checks} comparisons, seed {seed})")
    return 0


if __name__ == "__main__":
    sys.exit(main())
