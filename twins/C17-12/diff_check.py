"""Differential check for refactoring 3 (LanguageAccept.best_match).

Run: cd /tmp/wt10-C17 && PYTHONPATH=/tmp/wt10-C17/src /venv/bin/python /tmp/twin6-C17/3/diff_check.py
"""
import random

from werkzeug.datastructures import Accept
from werkzeug.datastructures import LanguageAccept
from werkzeug.datastructures.accept import _locale_delim_re
from werkzeug.http import parse_accept_header


class OrigLanguageAccept(LanguageAccept):
    # verbatim copy of the ORIGINAL LanguageAccept.best_match; the zero-argument
    # super() calls resolve to Accept.best_match, spelled out explicitly here
    # because this class sits one level lower in the MRO.
    def best_match(self, matches, default=None):
        # Look for an exact match first. If a client accepts "en-US",
        # "en-US" is a valid match at this point.
        result = Accept.best_match(self, matches)

        if result is not None:
            return result

        # Fall back to accepting primary tags. If a client accepts
        # "en-US", "en" is a valid match at this point. Need to use
        # re.split to account for 2 or 3 letter codes.
        fallback = Accept(
            [(_locale_delim_re.split(item[0], 1)[0], item[1]) for item in self]
        )
        result = fallback.best_match(matches)

        if result is not None:
            return result

        # Fall back to matching primary tags. If the client accepts
        # "en", "en-US" is a valid match at this point.
        fallback_matches = [_locale_delim_re.split(item, 1)[0] for item in matches]
        result = Accept.best_match(self, fallback_matches)

        # Return a value from the original match list. Find the first
        # original value that starts with the matched primary tag.
        if result is not None:
            return next(
                item
                for item in matches
                if _locale_delim_re.split(item, 1)[0] == result
            )

        return default


rnd = random.Random(170003)

TAGS = [
    "en", "en-US", "en_US", "en-GB", "EN-us", "EN", "En_gb", "de", "de-DE",
    "de_CH", "DE-at", "fr", "fr-CA", "fr_FR", "zh-Hans-CN", "zh_Hant", "zh",
    "es-419", "es", "pt-BR", "pt", "*", "", "-", "_", "-en", "en-", "e",
    "eng", "eng-US", "x-klingon", "i_default", "*-US", "en-*",
]
QUALS = [
    0, 1, 0.5, 0.8, 0.1, 0.3, 0.9, 1.0, 0.0, 0.001, 0.5, 1, 1, 1,
    -0.0, -1, 2, float("nan"), float("inf"),
]
HEADER_QS = ["0", "1", "0.5", "0.8", "0.1", "0.9", "0.001", "1.0", "0.0", "-0", "2", "x"]


def gen_client():
    r = rnd.random()
    n = rnd.randint(0, 5)
    if r < 0.04:
        return ("raw", None)
    if r < 0.5:
        parts = []
        for _ in range(n):
            v = rnd.choice(TAGS)
            if rnd.random() < 0.7:
                v += ";q=" + rnd.choice(HEADER_QS)
            parts.append(v)
        return ("header", ", ".join(parts))
    quals = QUALS if rnd.random() < 0.25 else QUALS[:14]
    items = [(rnd.choice(TAGS), rnd.choice(quals)) for _ in range(n)]
    if rnd.random() < 0.03:
        # odd shaped entries that only indexing (not unpacking) tolerates
        items.append((rnd.choice(TAGS), rnd.choice(QUALS[:14]), "extra"))
    return ("raw", items)


def build(kind, data, cls):
    if kind == "header":
        return parse_accept_header(data, cls)
    return cls(data)


def gen_offers():
    n = rnd.choice([0, 0, 1, 1, 2, 2, 3, 4, 5, 6])
    offers = [rnd.choice(TAGS) for _ in range(n)]
    if rnd.random() < 0.03:
        offers.insert(rnd.randint(0, len(offers)), rnd.choice([None, 1, b"en"]))
    return offers


def call(obj, *args, **kwargs):
    try:
        res = obj.best_match(*args, **kwargs)
    except Exception as e:  # noqa: B902
        return ("exc", type(e), str(e))
    return ("ok", res, type(res))


class Counting(list):
    """A list that records how many times it is iterated."""

    def __init__(self, *a):
        super().__init__(*a)
        self.iters = 0

    def __iter__(self):
        self.iters += 1
        return super().__iter__()


def observe(obj, offers, default):
    counting = Counting(offers)
    out = [
        call(obj, list(offers)),
        call(obj, list(offers), default),
        call(obj, tuple(offers), default=default),
        # one-shot iterables: exhausted after the first pass
        call(obj, iter(offers), default),
        call(obj, (x for x in offers), default),
        call(obj, counting, default),
    ]
    out.append(("iters", counting.iters))
    return out


def main():
    n = 0
    for _ in range(15000):
        kind, data = gen_client()
        new_obj = build(kind, data, LanguageAccept)
        old_obj = build(kind, data, OrigLanguageAccept)
        for _ in range(3):
            offers = gen_offers()
            default = rnd.choice([None, None, "DEFAULT", "en", offers[0] if offers else "x"])
            a = observe(new_obj, offers, default)
            b = observe(old_obj, offers, default)
            if repr(a) != repr(b):
                print("MISMATCH", kind, data, offers, default)
                for x, y in zip(a, b):
                    if repr(x) != repr(y):
                        print("  new:", x)
                        print("  old:", y)
                print("FAIL")
                return
            n += len(a)

    # sanity: every stage of the fallback chain is reachable
    la = parse_accept_header("en-US;q=0.8, de", LanguageAccept)
    assert la.best_match(["en-US", "fr"]) == "en-US"  # exact
    assert la.best_match(["en", "fr"]) == "en"  # client primary tag
    assert parse_accept_header("en", LanguageAccept).best_match(["fr", "en_GB"]) == "en_GB"
    assert la.best_match(["fr"], "dflt") == "dflt"
    print(f"PASS ({n} comparisons)")


main()
