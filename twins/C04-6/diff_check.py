"""Differential check for refactoring 3 (converter to_url / to_python pairs,
Rule._encode_query_vars, urls._urlencode).

Compares the refactored code from the worktree against copies of the ORIGINAL
implementations pasted below (converter classes renamed ``Orig*``):

  A1. every converter class: construction with many argument combinations
      (valid and invalid), then regex / weight / part_isolating and the outcomes
      (value or exception type and message) of to_url / to_python on thousands
      of values (canonical and odd ones);
  A2. ``_urlencode`` on random mappings, MultiDicts and pair iterables (with
      None values, bytes, numbers, malformed items);
  A3. ``Rule._encode_query_vars`` with sort_parameters on/off and sort keys;
  B.  end-to-end: the same randomly generated maps are built once with the
      refactored code and once with OrigRule + Orig* converters + original
      ``_urlencode``; every MapAdapter.build / MapAdapter.match outcome must be
      identical;
  C.  optionally, the outcomes are compared with ``baseline.json`` recorded from
      the unmodified tree (``diff_check.py --record`` on the clean tree).

Run: cd /tmp/wt9-C04 && PYTHONPATH=/tmp/wt9-C04/src /venv/bin/python \
         /tmp/twin5-C04/3/diff_check.py
"""
from __future__ import annotations


# ---------------------------------------------------------------------------
# Shared scenario generator / runner (identical in all three diff_check.py).
#
# Everything below is pure data generation plus a runner that is parameterised
# by two factories so that the same scenarios can be executed against the
# refactored code and against the pasted ORIGINAL implementation:
#   make_map(rule_factories_builder, map_kwargs) -> Map
#   make_adapter(map, bind_kwargs)               -> MapAdapter
# ---------------------------------------------------------------------------
import json
import os
import random
import sys
import uuid
from urllib.parse import unquote
from urllib.parse import urlsplit

from werkzeug.datastructures import MultiDict
from werkzeug.routing import EndpointPrefix
from werkzeug.routing import Map
from werkzeug.routing import Rule
from werkzeug.routing import Subdomain
from werkzeug.routing import Submount

HERE = os.path.dirname(os.path.abspath(__file__))

TEXT_ALPHABET = list("abcXYZ019 ;?#%&=+@:,!$'()*~-._|<>\"\\^`{}[]") + [
    "ä",
    "ü",
    "€",
    "日本",
    "\U0001f600",
    "%20",
    "%2F",
    "\t",
]
LITERAL_ALPHABET = list("abcxyz019-._~;,=@:!$'()*+& %") + ["ä", "日", "|"]

CONVS = [
    ("default", ""),
    ("string", ""),
    ("string", "(length=3)"),
    ("string", "(minlength=2, maxlength=5)"),
    ("int", ""),
    ("int", "(signed=True)"),
    ("int", "(fixed_digits=4)"),
    ("int", "(fixed_digits=3, signed=True)"),
    ("int", "(min=5, max=500)"),
    ("float", ""),
    ("float", "(signed=True)"),
    ("float", "(min=1.5, max=99.5)"),
    ("any", "(foo, bar, 'b z', \"x;y\", ü)"),
    ("uuid", ""),
    ("path", ""),
]
ANY_ITEMS = ["foo", "bar", "b z", "x;y", "ü"]


def gen_text(rng, lo=1, hi=6, alphabet=TEXT_ALPHABET):
    return "".join(rng.choice(alphabet) for _ in range(rng.randint(lo, hi)))


def gen_value(rng, conv, args):
    """A value for converter ``conv``; mostly canonical, sometimes odd/invalid."""
    odd = rng.random() < 0.15
    if odd:
        return rng.choice(
            [None, "", "a/b", [], ["x"], ["x", "y"], 0, -1, 1.5, "abc", True, "007"]
        )
    if conv in ("default", "string"):
        if "length=3" in args and rng.random() < 0.8:
            return gen_text(rng, 3, 3)
        if "minlength" in args and rng.random() < 0.8:
            return gen_text(rng, 2, 5)
        return gen_text(rng)
    if conv == "int":
        v = rng.randint(0, 10 ** rng.randint(0, 7))
        if "signed" in args and rng.random() < 0.5:
            v = -v
        elif rng.random() < 0.05:
            v = -v
        r = rng.random()
        if r < 0.1:
            return str(v)
        if r < 0.15:
            return float(v)
        return v
    if conv == "float":
        v = round(rng.uniform(0, 10 ** rng.randint(0, 5)), rng.randint(0, 6))
        if "signed" in args and rng.random() < 0.5:
            v = -v
        r = rng.random()
        if r < 0.05:
            return rng.choice([1e-7, 1e22, float("inf"), float("nan"), -0.0])
        if r < 0.15:
            return int(v)
        if r < 0.2:
            return str(v)
        return v
    if conv == "any":
        if rng.random() < 0.85:
            return rng.choice(ANY_ITEMS)
        return gen_text(rng)
    if conv == "uuid":
        u = uuid.UUID(int=rng.getrandbits(128))
        r = rng.random()
        if r < 0.15:
            return str(u)
        if r < 0.25:
            return str(u).upper()
        if r < 0.3:
            return "not-a-uuid"
        return u
    if conv == "path":
        segs = [gen_text(rng, 1, 4) for _ in range(rng.randint(1, 4))]
        p = "/".join(segs)
        r = rng.random()
        if r < 0.05:
            p = "/" + p
        elif r < 0.1:
            p = p + "/"
        elif r < 0.15:
            p = p.replace("/", "//", 1)
        return p
    raise AssertionError(conv)


def gen_rule_spec(rng, idx, host_matching):
    """Pure-data description of one endpoint (one or two Rule objects)."""
    first = f"r{idx}"
    names = ["a", "b", "c", "d"]
    rng.shuffle(names)
    nparts = rng.randint(0, 3)
    variables = []  # (name, conv, args)
    text = "/" + first
    used_path = False
    for _ in range(nparts):
        sep = rng.choice(["/", "/", "/", "-", ".", ""]) if variables else "/"
        kind = rng.random()
        if kind < 0.25:
            text += "/" + gen_text(rng, 1, 4, LITERAL_ALPHABET)
        else:
            conv, args = rng.choice(CONVS)
            if conv == "path":
                if used_path:
                    conv, args = "int", ""
                used_path = True
            name = names.pop()
            variables.append((name, conv, args))
            if conv == "default":
                text += f"{sep or '/'}<{name}>"
            else:
                text += f"{sep or '/'}<{conv}{args}:{name}>"
    r = rng.random()
    if r < 0.3:
        text += "/"
    elif r < 0.4:
        text += "/" + gen_text(rng, 1, 3, LITERAL_ALPHABET)
    elif r < 0.45:
        text += "//x"

    spec = {
        "endpoint": f"e{idx}",
        "rule": text,
        "vars": variables,
        "kwargs": {},
        "extra_rules": [],
        "wrap": None,
    }
    kw = spec["kwargs"]
    r = rng.random()
    if r < 0.2:
        kw["methods"] = rng.choice([["GET"], ["POST"], ["GET", "POST"], ["DELETE"]])
    if rng.random() < 0.08:
        kw["websocket"] = True
        kw.pop("methods", None)
    if rng.random() < 0.1:
        kw["strict_slashes"] = rng.choice([True, False])
    if rng.random() < 0.1:
        kw["merge_slashes"] = rng.choice([True, False])
    if rng.random() < 0.05:
        kw["build_only"] = True

    # domain part
    if host_matching:
        r = rng.random()
        if r < 0.4:
            kw["host"] = "example.org"
        elif r < 0.6:
            kw["host"] = "api.example.org"
        elif r < 0.75:
            kw["host"] = "<dv>.example.org"
            variables.append(("dv", "default", ""))
        elif r < 0.85:
            kw["host"] = "<any(foo, bar):dv>.ex|am.org"
            variables.append(("dv", "any", "(foo, bar)"))
    else:
        r = rng.random()
        if r < 0.15:
            kw["subdomain"] = rng.choice(["sd", "api", "äb", "a|b"])
        elif r < 0.25:
            kw["subdomain"] = "<dv>"
            variables.append(("dv", "default", ""))
        elif r < 0.3:
            kw["subdomain"] = "<dv>|<int:dn>"
            variables.append(("dv", "default", ""))
            variables.append(("dn", "int", ""))

    # defaults
    r = rng.random()
    if variables and r < 0.25:
        # classic pair: a rule without the last path variable + defaults, and the
        # full rule.
        name, conv, args = variables[0]
        if name not in ("dv", "dn"):
            dval = gen_default(rng, conv)
            short = "/" + first + "/dflt"
            skw = dict(kw)
            # only valid when the short rule has the same argument set
            if len([v for v in variables]) == 1:
                skw["defaults"] = {name: dval}
                spec["extra_rules"].append((short, skw, True))
    elif variables and r < 0.35:
        # the "silly case": default for a value that appears in the rule
        name, conv, args = variables[0]
        kw["defaults"] = {name: gen_default(rng, conv)}
    elif r < 0.45:
        kw["defaults"] = {"extra": rng.choice([1, "x", None, "ä"])}
    if rng.random() < 0.08:
        # alias rule for the same endpoint
        akw = dict(kw)
        akw["alias"] = True
        akw.pop("defaults", None)
        spec["extra_rules"].append(
            (text.replace("/" + first, "/" + first + "/alias", 1), akw, False)
        )

    r = rng.random()
    if r < 0.12:
        spec["wrap"] = ("submount", rng.choice(["/sm", "/s m/ä", "/sm/"]))
    elif r < 0.2 and not host_matching:
        spec["wrap"] = ("subdomain", rng.choice(["wrapped", "<dv2>"]))
        if spec["wrap"][1] == "<dv2>":
            # replaces the rule's own subdomain variables
            spec["vars"] = [v for v in variables if v[0] not in ("dv", "dn")]
            spec["vars"].append(("dv2", "default", ""))
    elif r < 0.25:
        spec["wrap"] = ("prefix", "pre.")
        spec["endpoint_built"] = "pre." + spec["endpoint"]
    return spec


def gen_default(rng, conv):
    if conv == "int":
        return rng.choice([1, 7, 42])
    if conv == "float":
        return rng.choice([1.5, 2.0, 42.25])
    if conv == "any":
        return rng.choice(ANY_ITEMS)
    if conv == "uuid":
        return uuid.UUID(int=rng.getrandbits(128))
    if conv == "path":
        return rng.choice(["x/y", "dä f/;z"])
    return rng.choice(["dfl", "d f", "d;ä?", "abc"])


def gen_map_spec(rng):
    host_matching = rng.random() < 0.25
    spec = {
        "kwargs": {
            "host_matching": host_matching,
            "sort_parameters": rng.random() < 0.3,
            "strict_slashes": rng.random() < 0.8,
            "merge_slashes": rng.random() < 0.8,
            "redirect_defaults": rng.random() < 0.8,
        },
        "rules": [],
    }
    if not host_matching and rng.random() < 0.2:
        spec["kwargs"]["default_subdomain"] = "www"
    for i in range(rng.randint(2, 7)):
        spec["rules"].append(gen_rule_spec(rng, i, host_matching))
    # fixed edge cases that stress the builder compilation
    spec["rules"].append(
        {
            "endpoint": "edge1",
            "rule": "/edge1/x|y/<a>|<b>/ä ;/<int:c>",
            "vars": [("a", "default", ""), ("b", "default", ""), ("c", "int", "")],
            "kwargs": {"defaults": {"c": 5}},
            "extra_rules": [],
            "wrap": None,
        }
    )
    spec["rules"].append(
        {
            "endpoint": "edge2",
            "rule": "/edge2",
            "vars": [],
            "kwargs": {},
            "extra_rules": [("/edge2/<int:n>", {"defaults": None}, False)],
            "wrap": None,
        }
    )
    return spec


def rule_factories(spec, rule_cls):
    out = []
    for rs in spec["rules"]:
        rules = []
        for text, kw, _ in rs["extra_rules"]:
            rules.append(rule_cls(text, endpoint=rs["endpoint"], **kw))
        rules.append(rule_cls(rs["rule"], endpoint=rs["endpoint"], **rs["kwargs"]))
        wrap = rs["wrap"]
        if wrap is None:
            out.extend(rules)
        elif wrap[0] == "submount":
            out.append(Submount(wrap[1], rules))
        elif wrap[0] == "subdomain":
            out.append(Subdomain(wrap[1], rules))
        else:
            out.append(EndpointPrefix(wrap[1], rules))
    return out


def gen_bind(rng, host_matching):
    kw = {
        "server_name": rng.choice(
            ["example.org", "example.org", "api.example.org", "foo.example.org"]
            if host_matching
            else ["example.org", "example.org:8080"]
        ),
        "script_name": rng.choice(["/", "/app", "/app/", None, "/a b/ä"]),
        "url_scheme": rng.choice(
            ["http"] * 6 + ["https"] * 3 + ["ws", "wss", ""]
        ),
        "default_method": rng.choice(["GET", "GET", "GET", "POST"]),
    }
    if not host_matching:
        kw["subdomain"] = rng.choice([None, None, "", "sd", "www", "api", "foo"])
    if rng.random() < 0.2:
        kw["query_args"] = rng.choice([{"z": "1"}, "z=1&y=%C3%A4", {}])
    return kw


def gen_query(rng):
    out = {}
    for _ in range(rng.randint(0, 3)):
        key = rng.choice(["q", "page", "ü k", "a", "z;", "b&c", "extra"])
        out[key] = rng.choice(
            [
                "v",
                gen_text(rng),
                7,
                1.5,
                None,
                "",
                ["x", "y"],
                ("t", 2),
                [],
                [None, "n"],
                True,
                b"by\xc3\xa4",
            ]
        )
    return out


def gen_build_op(rng, spec):
    r = rng.random()
    if r < 0.03:
        return {"endpoint": "nope", "values": {"a": 1}, "kw": {}}
    rs = rng.choice(spec["rules"])
    values = {}
    for name, conv, args in rs["vars"]:
        if rng.random() < 0.04:
            continue  # missing value
        values[name] = gen_value(rng, conv, args)
    # rules with defaults: sometimes give the default value explicitly,
    # sometimes a different one
    for text, kw, _ in [*rs["extra_rules"], (None, rs["kwargs"], None)]:
        for k, v in (kw.get("defaults") or {}).items():
            r = rng.random()
            if r < 0.35:
                values[k] = v
            elif r < 0.5:
                values.pop(k, None)
    if rs["endpoint"] == "edge2" and rng.random() < 0.6:
        values["n"] = rng.choice([0, 3, "4", -1, None])
    if rng.random() < 0.45:
        values.update(gen_query(rng))
    container = rng.random()
    if container < 0.1:
        md = MultiDict()
        for k, v in values.items():
            if isinstance(v, (list, tuple)):
                md.setlist(k, list(v))
            else:
                md.add(k, v)
        if rng.random() < 0.3:
            md.add("q", "second")
        values = md
    elif container < 0.13:
        values = None
    kw = {}
    if rng.random() < 0.4:
        kw["force_external"] = rng.random() < 0.8
    if rng.random() < 0.25:
        kw["append_unknown"] = rng.random() < 0.3
    if rng.random() < 0.3:
        kw["method"] = rng.choice(["GET", "POST", "DELETE", "HEAD", None])
    if rng.random() < 0.15:
        kw["url_scheme"] = rng.choice(["https", "http", "ws", "wss", "", "ftp", None])
    return {
        "endpoint": rs.get("endpoint_built", rs["endpoint"]),
        "values": values,
        "kw": kw,
    }


def freeze(obj):
    """Deterministic, comparable representation of results."""
    if isinstance(obj, dict):
        return {"__dict__": [[freeze(k), freeze(v)] for k, v in obj.items()]}
    if isinstance(obj, (list, tuple)):
        return [type(obj).__name__, [freeze(x) for x in obj]]
    if isinstance(obj, float):
        return ["float", repr(obj)]
    if isinstance(obj, (str, int, bool)) or obj is None:
        return [type(obj).__name__, obj]
    if isinstance(obj, uuid.UUID):
        return ["uuid", str(obj)]
    return [type(obj).__name__, repr(obj)]


def outcome(fn):
    try:
        return ["ok", freeze(fn())]
    except RecursionError:
        raise
    except Exception as e:  # noqa: B902
        info = [type(e).__name__]
        for attr in ("new_url", "code", "valid_methods", "endpoint", "method"):
            if hasattr(e, attr):
                val = getattr(e, attr)
                if attr == "valid_methods" and val is not None:
                    val = sorted(val)
                info.append([attr, freeze(val)])
        if type(e).__name__ == "BuildError":
            info.append(["values", freeze(dict(e.values))])
            info.append(["suggested", freeze(getattr(e.suggested, "rule", None))])
        elif not hasattr(e, "code"):
            info.append(["str", str(e)])
        return ["exc", info]


def split_built_url(url, bind_kw, host_matching):
    """Turn a built URL into bind kwargs + path_info as a server would see it."""
    parts = urlsplit(url if "//" in url[:8] else url)
    new_kw = dict(bind_kw)
    server_name = bind_kw["server_name"]
    if parts.netloc:
        host = parts.netloc
        if host_matching:
            new_kw["server_name"] = host
        elif host == server_name:
            new_kw["subdomain"] = ""
        elif host.endswith("." + server_name):
            new_kw["subdomain"] = host[: -len(server_name) - 1]
    script = (bind_kw.get("script_name") or "/").rstrip("/")
    path = parts.path
    if script and path.startswith(script):
        path = path[len(script) :]
    new_kw["path_info"] = unquote(path)
    new_kw["query_args"] = parts.query
    return new_kw


def run_scenarios(make_map, make_adapter, seed, n_maps, n_ops, collect_rules=None):
    """Run all scenarios; returns a JSON-able list of results.

    Generation of specs/ops uses its own RNG streams that never depend on the
    implementation under test.
    """
    results = []
    n_build = n_match = 0
    for mi in range(n_maps):
        rng = random.Random(f"{seed}-map-{mi}")
        spec = gen_map_spec(rng)
        host_matching = spec["kwargs"]["host_matching"]
        try:
            the_map = make_map(spec)
        except RecursionError:
            raise
        except Exception as e:  # noqa: B902
            results.append(["map-exc", mi, type(e).__name__, str(e)])
            continue
        if collect_rules is not None:
            collect_rules(mi, the_map)
        results.append(
            [
                "map",
                mi,
                [
                    [r.rule, freeze(r.endpoint), sorted(r.methods or ()), freeze(r._trace)]
                    for r in the_map.iter_rules()
                ],
            ]
        )
        binds = [gen_bind(rng, host_matching) for _ in range(3)]
        for oi in range(n_ops):
            bind_kw = rng.choice(binds)
            op = gen_build_op(rng, spec)
            adapter = make_adapter(the_map, bind_kw)
            values = op["values"]
            res = outcome(
                lambda: adapter.build(
                    op["endpoint"],
                    values.copy() if values is not None else None,
                    **op["kw"],
                )
            )
            n_build += 1
            results.append(["build", mi, oi, res])
            paths = []
            if res[0] == "ok":
                url = res[1][1]
                paths.append(split_built_url(url, bind_kw, host_matching))
            if rng.random() < 0.4:
                # random / mutated paths, to exercise redirects that build URLs
                mkw = dict(bind_kw)
                base = paths[0]["path_info"] if paths else "/" + gen_text(rng)
                mut = rng.random()
                if mut < 0.3:
                    base = base.rstrip("/") if base.endswith("/") else base + "/"
                elif mut < 0.5:
                    base = base.replace("/", "//", 1)
                elif mut < 0.7:
                    base = base.replace("/alias", "", 1) + "/alias"
                mkw["path_info"] = base
                if paths:
                    for k in ("server_name", "subdomain"):
                        if k in paths[0]:
                            mkw[k] = paths[0][k]
                paths.append(mkw)
            for pi, mkw in enumerate(paths):
                try:
                    madapter = make_adapter(the_map, mkw)
                except RecursionError:
                    raise
                except Exception as e:  # noqa: B902
                    # e.g. BadHost for a built host that is not valid IDNA
                    results.append(["bind-exc", mi, oi, pi, type(e).__name__])
                    continue
                method = rng.choice([None, None, "GET", "POST", "DELETE"])
                websocket = rng.choice([None] * 8 + [True, False])
                mres = outcome(
                    lambda: madapter.match(method=method, websocket=websocket)
                )
                n_match += 1
                results.append(["match", mi, oi, pi, mres])
                if mres[0] == "ok":
                    # converse direction: rebuild from the match result
                    try:
                        ep, mvalues = madapter.match(method=method, websocket=websocket)
                    except Exception:  # noqa: B902
                        continue
                    rres = outcome(
                        lambda: madapter.build(
                            ep, mvalues, method=method, force_external=True
                        )
                    )
                    n_build += 1
                    results.append(["rebuild", mi, oi, pi, rres])
    return results, n_build, n_match


def default_make_map(spec, rule_cls=Rule, converters=None):
    return Map(rule_factories(spec, rule_cls), converters=converters, **spec["kwargs"])


def default_make_adapter(the_map, bind_kw):
    return the_map.bind(**bind_kw)


def compare_results(name, ref, new):
    if len(ref) != len(new):
        print(f"FAIL [{name}]: result count differs {len(ref)} != {len(new)}")
        return False
    for i, (a, b) in enumerate(zip(ref, new)):
        if a != b:
            print(f"FAIL [{name}]: first difference at result #{i}")
            print("  original  :", json.dumps(a, ensure_ascii=True)[:600])
            print("  refactored:", json.dumps(b, ensure_ascii=True)[:600])
            return False
    return True


def baseline_check(results, argv):
    """Optional extra: compare with results recorded on the unmodified tree."""
    path = os.path.join(HERE, "baseline.json")
    blob = json.dumps(results, ensure_ascii=True, sort_keys=True)
    if "--record" in argv:
        with open(path, "w") as f:
            f.write(blob)
        print(f"recorded baseline with {len(results)} results -> {path}")
        return None
    if not os.path.exists(path):
        print("(no baseline.json recorded; skipping baseline comparison)")
        return True
    with open(path) as f:
        recorded = f.read()
    if recorded != blob:
        print("FAIL [baseline]: results differ from those recorded on unmodified tree")
        return False
    print(f"baseline: {len(results)} results identical to the unmodified tree")
    return True

# ---------------------------------------------------------------------------
# ORIGINAL implementations (pasted from the unmodified tree; class docstrings
# removed, converter classes renamed Orig*)
# ---------------------------------------------------------------------------
import re  # noqa: E402
import typing as t  # noqa: E402
from urllib.parse import quote  # noqa: E402
from urllib.parse import urlencode  # noqa: E402

import werkzeug.routing.map as _map_mod  # noqa: E402
import werkzeug.urls as _urls_mod  # noqa: E402
from werkzeug.datastructures import iter_multi_items  # noqa: E402
from werkzeug.routing import converters as _conv_mod  # noqa: E402
from werkzeug.routing.converters import ValidationError  # noqa: E402


def orig_urlencode(query):
    items = [x for x in iter_multi_items(query) if x[1] is not None]
    # safe = https://url.spec.whatwg.org/#percent-encoded-bytes
    return urlencode(items, safe="!$'()*,/:;?@")


class OrigRule(Rule):
    def _encode_query_vars(self, query_vars: t.Mapping[str, t.Any]) -> str:
        items: t.Iterable[tuple[str, str]] = iter_multi_items(query_vars)

        if self.map.sort_parameters:
            items = sorted(items, key=self.map.sort_key)

        return orig_urlencode(items)


class OrigBaseConverter:

    regex = "[^/]+"
    weight = 100
    part_isolating = True

    def __init_subclass__(cls, **kwargs: t.Any) -> None:
        super().__init_subclass__(**kwargs)

        # If the converter isn't inheriting its regex, disable part_isolating by default
        # if the regex contains a / character.
        if "regex" in cls.__dict__ and "part_isolating" not in cls.__dict__:
            cls.part_isolating = "/" not in cls.regex

    def __init__(self, map: Map, *args: t.Any, **kwargs: t.Any) -> None:
        self.map = map

    def to_python(self, value: str) -> t.Any:
        return value

    def to_url(self, value: t.Any) -> str:
        # safe = https://url.spec.whatwg.org/#url-path-segment-string
        return quote(str(value), safe="!$&'()*+,/:;=@")


class OrigUnicodeConverter(OrigBaseConverter):

    def __init__(
        self,
        map: Map,
        minlength: int = 1,
        maxlength: int | None = None,
        length: int | None = None,
    ) -> None:
        super().__init__(map)
        if length is not None:
            length_regex = f"{{{int(length)}}}"
        else:
            if maxlength is None:
                maxlength_value = ""
            else:
                maxlength_value = str(int(maxlength))
            length_regex = f"{{{int(minlength)},{maxlength_value}}}"
        self.regex = f"[^/]{length_regex}"


class OrigAnyConverter(OrigBaseConverter):

    def __init__(self, map: Map, *items: str) -> None:
        super().__init__(map)
        self.items = set(items)
        self.regex = f"(?:{'|'.join([re.escape(x) for x in items])})"

    def to_url(self, value: t.Any) -> str:
        if value in self.items:
            return super().to_url(value)

        valid_values = ", ".join(f"'{item}'" for item in sorted(self.items))
        raise ValueError(f"'{value}' is not one of {valid_values}")


class OrigPathConverter(OrigBaseConverter):

    part_isolating = False
    regex = "[^/].*?"
    weight = 200


class OrigNumberConverter(OrigBaseConverter):

    weight = 50
    num_convert: t.Callable[[t.Any], t.Any] = int

    def __init__(
        self,
        map: Map,
        fixed_digits: int = 0,
        min: int | None = None,
        max: int | None = None,
        signed: bool = False,
    ) -> None:
        if signed:
            self.regex = self.signed_regex
        super().__init__(map)
        self.fixed_digits = fixed_digits
        self.min = min
        self.max = max
        self.signed = signed

    def to_python(self, value: str) -> t.Any:
        if self.fixed_digits and len(value) != self.fixed_digits:
            raise ValidationError()
        value_num = self.num_convert(value)
        if (self.min is not None and value_num < self.min) or (
            self.max is not None and value_num > self.max
        ):
            raise ValidationError()
        return value_num

    def to_url(self, value: t.Any) -> str:
        value_str = str(self.num_convert(value))
        if self.fixed_digits:
            value_str = value_str.zfill(self.fixed_digits)
        return value_str

    @property
    def signed_regex(self) -> str:
        return f"-?{self.regex}"


class OrigIntegerConverter(OrigNumberConverter):

    regex = r"\d+"


class OrigFloatConverter(OrigNumberConverter):

    regex = r"\d+\.\d+"
    num_convert = float

    def __init__(
        self,
        map: Map,
        min: float | None = None,
        max: float | None = None,
        signed: bool = False,
    ) -> None:
        super().__init__(map, min=min, max=max, signed=signed)  # type: ignore


class OrigUUIDConverter(OrigBaseConverter):

    regex = (
        r"[A-Fa-f0-9]{8}-[A-Fa-f0-9]{4}-"
        r"[A-Fa-f0-9]{4}-[A-Fa-f0-9]{4}-[A-Fa-f0-9]{12}"
    )

    def to_python(self, value: str) -> uuid.UUID:
        return uuid.UUID(value)

    def to_url(self, value: uuid.UUID) -> str:
        return str(value)


ORIG_CONVERTERS = {
    "default": OrigUnicodeConverter,
    "string": OrigUnicodeConverter,
    "any": OrigAnyConverter,
    "path": OrigPathConverter,
    "int": OrigIntegerConverter,
    "float": OrigFloatConverter,
    "uuid": OrigUUIDConverter,
}
NEW_CONVERTERS = dict(_conv_mod.DEFAULT_CONVERTERS)


# ---------------------------------------------------------------------------
# checks
# ---------------------------------------------------------------------------
def part_a1(n_values):
    rng = random.Random("C04-3-A1")
    the_map = Map([])
    ctor_cases = [
        ("default", (), {}),
        ("string", (), {}),
        ("string", (), {"length": 3}),
        ("string", (), {"length": "4"}),
        ("string", (), {"length": "x"}),
        ("string", (), {"minlength": 2, "maxlength": 5}),
        ("string", (2,), {}),
        ("string", (2, 7.9), {}),
        ("string", (), {"minlength": None}),
        ("string", (), {"bogus": 1}),
        ("any", (), {}),
        ("any", ("foo", "bar"), {}),
        ("any", ("foo", "b z", "x;y", "ü", "a|b", "a.b", "(x)", ""), {}),
        ("any", (1, 2), {}),
        ("any", ("1", 2), {}),
        ("any", ("a", None), {}),
        ("path", (), {}),
        ("path", (1,), {}),
        ("int", (), {}),
        ("int", (), {"signed": True}),
        ("int", (), {"fixed_digits": 4}),
        ("int", (3,), {"signed": True}),
        ("int", (), {"fixed_digits": None}),
        ("int", (), {"min": 5, "max": 500}),
        ("int", (), {"min": -5, "signed": True}),
        ("int", (), {"max": 0}),
        ("int", (), {"min": 0}),
        ("int", (), {"min": 10, "max": 5}),
        ("int", (), {"min": "5"}),
        ("int", (), {"max": "5"}),
        ("int", (), {"min": 5.5, "max": 7.5}),
        ("int", (2, 3, 50, True), {}),
        ("float", (), {}),
        ("float", (), {"signed": True}),
        ("float", (), {"min": 1.5, "max": 99.5}),
        ("float", (), {"min": 0.0}),
        ("float", (), {"max": float("nan")}),
        ("float", (), {"min": "a"}),
        ("float", (1.0, 2.0, True), {}),
        ("float", (), {"fixed_digits": 3}),
        ("uuid", (), {}),
        ("uuid", (1,), {}),
    ]
    str_values = [
        "",
        "0",
        "7",
        "007",
        "0042",
        "-5",
        "-005",
        "+5",
        " 5",
        "5 ",
        "1_0",
        "٣",
        "1.5",
        "-1.5",
        "01.50",
        "1e5",
        "nan",
        "inf",
        "abc",
        "foo",
        "bar",
        "b z",
        "x;y",
        "ü",
        "a/b",
        "ä ö/;?#%&=+@:,!$'()*~",
        "12345678-1234-5678-1234-567812345678",
        "12345678-1234-5678-1234-56781234567G",
        "12345678123456781234567812345678",
        "{12345678-1234-5678-1234-567812345678}",
        "ABCDEF12-1234-5678-1234-567812345678",
    ]
    n = 0
    for name, args, kwargs in ctor_cases:
        pair = []
        for table in (ORIG_CONVERTERS, NEW_CONVERTERS):
            pair.append(outcome_obj(lambda: table[name](the_map, *args, **kwargs)))
        (so, oo), (sn, on) = pair
        so = [x.replace("Orig", "") for x in so]  # class names in messages
        if so != sn:
            print("FAIL [A1] constructor", name, args, kwargs, so, sn)
            return False, n
        n += 1
        if oo is None:
            continue
        attrs = ["regex", "weight", "part_isolating"]
        if [getattr(oo, a) for a in attrs] != [getattr(on, a) for a in attrs]:
            print("FAIL [A1] attributes", name, args, kwargs)
            return False, n
        if sorted(vars(oo)) != sorted(vars(on)) or any(
            vars(oo)[k] != vars(on)[k] and k != "map" for k in vars(oo)
        ):
            if not (name == "float" and "max" in kwargs):  # nan != nan
                print("FAIL [A1] instance dict", name, args, kwargs)
                return False, n
        for _ in range(n_values):
            r = rng.random()
            if r < 0.25:
                v = rng.choice(str_values)
            elif r < 0.85:
                conv, cargs = rng.choice(CONVS)
                v = gen_value(rng, conv, cargs)
            else:
                v = rng.choice(
                    [None, True, 1 + 2j, b"by", (1, 2), {"a": 1}, 10**30, -0.0, 1e300]
                )
            a = outcome(lambda: oo.to_url(v))
            b = outcome(lambda: on.to_url(v))
            n += 1
            if a != b:
                print("FAIL [A1] to_url", name, args, kwargs, repr(v), a, b)
                return False, n
            # to_python gets str input from the matcher; feed the built string
            # (unquoted) as well as raw candidate strings
            cands = [rng.choice(str_values)]
            if isinstance(v, str):
                cands.append(v)
            if a[0] == "ok" and a[1][0] == "str":
                cands.append(unquote(a[1][1]))
            for s in cands:
                a2 = outcome(lambda: oo.to_python(s))
                b2 = outcome(lambda: on.to_python(s))
                n += 1
                if a2 != b2:
                    print("FAIL [A1] to_python", name, args, kwargs, repr(s), a2, b2)
                    return False, n
    return True, n


def outcome_obj(fn):
    try:
        return ["ok"], fn()
    except Exception as e:  # noqa: B902
        return ["exc", type(e).__name__, str(e)], None


def gen_urlencode_input(rng):
    def val():
        return rng.choice(
            [
                "v",
                gen_text(rng),
                "",
                None,
                7,
                1.5,
                True,
                b"by\xc3\xa4",
                ["x", "y"],
                ("t", None, 2),
                [],
                {"s", },
                [None],
            ]
        )

    def key():
        return rng.choice(["q", "page", "ü k", "a", "z;", "b&c", 1, b"k", None])

    kind = rng.random()
    n = rng.randint(0, 5)
    if kind < 0.4:
        return {key(): val() for _ in range(n)}
    if kind < 0.6:
        md = MultiDict()
        for _ in range(n):
            v = val()
            if isinstance(v, (list, tuple)):
                md.setlist(key(), list(v))
            else:
                md.add(key(), v)
        return md
    if kind < 0.9:
        pairs = [(key(), val()) for _ in range(n)]
        r = rng.random()
        if r < 0.1 and pairs:
            # malformed items
            pairs[rng.randrange(len(pairs))] = rng.choice(
                [("only",), ("a", "b", "c"), "xy", "x", 5, None, [], ["k", None]]
            )
        if r > 0.7:
            return iter(pairs)
        if r > 0.6:
            return tuple(pairs)
        return pairs
    return rng.choice([None, 5, "ab", "abc", "", b"ab", [[]], ((),)])


def part_a2(n_cases):
    n = 0
    for case in range(n_cases):
        # generate the same input twice (iterators are consumed)
        q1 = gen_urlencode_input(random.Random(f"A2-{case}"))
        q2 = gen_urlencode_input(random.Random(f"A2-{case}"))
        a = outcome(lambda: orig_urlencode(q1))
        b = outcome(lambda: _urls_mod._urlencode(q2))
        n += 1
        if a != b:
            print("FAIL [A2] _urlencode", case, a, b)
            return False, n
    return True, n


def part_a3(n_cases):
    n = 0
    keys = [None, lambda kv: kv[0], lambda kv: str(kv[1]), lambda kv: (len(kv[0]), kv)]
    for case in range(n_cases):
        rng = random.Random(f"A3-{case}")
        sort = rng.random() < 0.6
        sort_key = rng.choice(keys)
        outs = []
        for cls in (OrigRule, Rule):
            m = Map(
                [cls("/x", endpoint="x")], sort_parameters=sort, sort_key=sort_key
            )
            rule = next(m.iter_rules())
            q = gen_urlencode_input(random.Random(f"A3q-{case}"))
            outs.append(outcome(lambda: rule._encode_query_vars(q)))
        n += 1
        if outs[0] != outs[1]:
            print("FAIL [A3] _encode_query_vars", case, outs)
            return False, n
    return True, n


def main(argv):
    ok = True
    a_ok, a_n = part_a1(250)
    print(f"A1: {a_n} converter constructor/to_url/to_python outcomes -> {a_ok}")
    ok &= a_ok
    a_ok, a_n = part_a2(6000)
    print(f"A2: {a_n} _urlencode outcomes compared -> {a_ok}")
    ok &= a_ok
    a_ok, a_n = part_a3(4000)
    print(f"A3: {a_n} _encode_query_vars outcomes compared -> {a_ok}")
    ok &= a_ok

    new_urlencode = _map_mod._urlencode
    assert new_urlencode is _urls_mod._urlencode
    _map_mod._urlencode = orig_urlencode  # used by MapAdapter.encode_query_args
    try:
        ref, nb, nm = run_scenarios(
            lambda spec: default_make_map(
                spec, rule_cls=OrigRule, converters=ORIG_CONVERTERS
            ),
            default_make_adapter,
            "C04-3",
            120,
            60,
        )
    finally:
        _map_mod._urlencode = new_urlencode
    new, nb2, nm2 = run_scenarios(
        lambda spec: default_make_map(spec, rule_cls=Rule, converters=None),
        default_make_adapter,
        "C04-3",
        120,
        60,
    )
    b_ok = compare_results("B/end-to-end", ref, new) and (nb, nm) == (nb2, nm2)
    print(f"B: {nb} build calls and {nm} match calls compared -> {b_ok}")
    ok &= b_ok

    base = baseline_check(new, argv)
    if base is None:
        return 0
    ok &= base

    print("PASS" if ok else "FAIL")
    return 0 if ok else 1


if __name__ == "__main__":
    sys.exit(main(sys.argv[1:]))
