"""Differential check for property C01 refactorings.

Compares the worktree's (possibly refactored) implementation of

    werkzeug.sansio.multipart.MultipartDecoder.{last_newline,next_event,_parse_data}
    werkzeug.formparser.MultiPartParser.parse / werkzeug.formparser._chunk_iter

against verbatim copies of the ORIGINAL implementations pasted below (installed
as overrides on subclasses, so that event classes / State / regexes are shared
and results are directly comparable).

Run:  cd /tmp/wt3-C01 && PYTHONPATH=/tmp/wt3-C01/src /venv/bin/python <this file>
Prints PASS only if every output, every piece of decoder state after every
step, and every raised exception type is identical.
"""

from __future__ import annotations

import io
import random
import sys
import typing as t

import werkzeug
from werkzeug import formparser as fp
from werkzeug.datastructures import FileStorage
from werkzeug.datastructures import Headers
from werkzeug.datastructures import MultiDict
from werkzeug.exceptions import RequestEntityTooLarge
from werkzeug.http import parse_options_header
from werkzeug.sansio import multipart as mp
from werkzeug.sansio.multipart import BLANK_LINE_RE
from werkzeug.sansio.multipart import Data
from werkzeug.sansio.multipart import Epilogue
from werkzeug.sansio.multipart import Event
from werkzeug.sansio.multipart import Field
from werkzeug.sansio.multipart import File
from werkzeug.sansio.multipart import LINE_BREAK_RE
from werkzeug.sansio.multipart import MultipartDecoder
from werkzeug.sansio.multipart import NEED_DATA
from werkzeug.sansio.multipart import NeedData
from werkzeug.sansio.multipart import Preamble
from werkzeug.sansio.multipart import SEARCH_EXTRA_LENGTH
from werkzeug.sansio.multipart import State

assert werkzeug.__file__.startswith("/tmp/wt3-C01/"), werkzeug.__file__


# --------------------------------------------------------------------------
# ORIGINAL implementations (verbatim from the unmodified tree)
# --------------------------------------------------------------------------
class OrigDecoder(MultipartDecoder):
    def last_newline(self, data: bytes) -> int:
        try:
            last_nl = data.rindex(b"\n")
        except ValueError:
            last_nl = len(data)
        try:
            last_cr = data.rindex(b"\r")
        except ValueError:
            last_cr = len(data)

        return min(last_nl, last_cr)

    def next_event(self) -> Event:
        event: Event = NEED_DATA

        if self.state == State.PREAMBLE:
            match = self.preamble_re.search(self.buffer, self._search_position)
            if match is not None:
                if match.group(1).startswith(b"--"):
                    self.state = State.EPILOGUE
                else:
                    self.state = State.PART
                data = bytes(self.buffer[: match.start()])
                del self.buffer[: match.end()]
                event = Preamble(data=data)
                self._search_position = 0
            else:
                # Update the search start position to be equal to the
                # current buffer length (already searched) minus a
                # safe buffer for part of the search target.
                self._search_position = max(
                    0, len(self.buffer) - len(self.boundary) - SEARCH_EXTRA_LENGTH
                )

        elif self.state == State.PART:
            match = BLANK_LINE_RE.search(self.buffer, self._search_position)
            if match is not None:
                headers = self._parse_headers(self.buffer[: match.start()])
                # The final header ends with a single CRLF, however a
                # blank line indicates the start of the
                # body. Therefore the end is after the first CRLF.
                headers_end = (match.start() + match.end()) // 2
                del self.buffer[:headers_end]

                if "content-disposition" not in headers:
                    raise ValueError("Missing Content-Disposition header")

                disposition, extra = parse_options_header(
                    headers["content-disposition"]
                )
                name = t.cast(str, extra.get("name"))
                filename = extra.get("filename")
                if filename is not None:
                    event = File(
                        filename=filename,
                        headers=headers,
                        name=name,
                    )
                else:
                    event = Field(
                        headers=headers,
                        name=name,
                    )
                self.state = State.DATA_START
                self._search_position = 0
                self._parts_decoded += 1

                if self.max_parts is not None and self._parts_decoded > self.max_parts:
                    raise RequestEntityTooLarge()
            else:
                # Update the search start position to be equal to the
                # current buffer length (already searched) minus a
                # safe buffer for part of the search target.
                self._search_position = max(0, len(self.buffer) - SEARCH_EXTRA_LENGTH)

        elif self.state == State.DATA_START:
            data, del_index, more_data = self._parse_data(self.buffer, start=True)
            del self.buffer[:del_index]
            event = Data(data=data, more_data=more_data)
            if more_data:
                self.state = State.DATA

        elif self.state == State.DATA:
            data, del_index, more_data = self._parse_data(self.buffer, start=False)
            del self.buffer[:del_index]
            if data or not more_data:
                event = Data(data=data, more_data=more_data)

        elif self.state == State.EPILOGUE and self.complete:
            event = Epilogue(data=bytes(self.buffer))
            del self.buffer[:]
            self.state = State.COMPLETE

        if self.complete and isinstance(event, NeedData):
            raise ValueError(f"Invalid form-data cannot parse beyond {self.state}")

        return event

    def _parse_data(self, data: bytes, *, start: bool) -> tuple[bytes, int, bool]:
        # Body parts must start with CRLF (or CR or LF)
        if start:
            match = LINE_BREAK_RE.match(data)
            data_start = t.cast(t.Match[bytes], match).end()
        else:
            data_start = 0

        boundary = b"--" + self.boundary

        if self.buffer.find(boundary) == -1:
            # No complete boundary in the buffer, but there may be
            # a partial boundary at the end. As the boundary
            # starts with either a nl or cr find the earliest and
            # return up to that as data.
            data_end = del_index = self.last_newline(data[data_start:]) + data_start
            # If amount of data after last newline is far from
            # possible length of partial boundary, we should
            # assume that there is no partial boundary in the buffer
            # and return all pending data.
            if (len(data) - data_end) > len(b"\n" + boundary):
                data_end = del_index = len(data)
            more_data = True
        else:
            match = self.boundary_re.search(data)
            if match is not None:
                if match.group(1).startswith(b"--"):
                    self.state = State.EPILOGUE
                else:
                    self.state = State.PART
                data_end = match.start()
                del_index = match.end()
            else:
                data_end = del_index = self.last_newline(data[data_start:]) + data_start
            more_data = match is None

        return bytes(data[data_start:data_end]), del_index, more_data


def orig_chunk_iter(
    read: t.Callable[[int], bytes], size: int
) -> t.Iterator[bytes | None]:
    while True:
        data = read(size)

        if not data:
            break

        yield data

    yield None


class OrigParser(fp.MultiPartParser):
    def parse(
        self, stream: t.IO[bytes], boundary: bytes, content_length: int | None
    ) -> tuple[MultiDict[str, str], MultiDict[str, FileStorage]]:
        current_part: Field | File
        field_size: int | None = None
        container: t.IO[bytes] | list[bytes]
        _write: t.Callable[[bytes], t.Any]

        parser = OrigDecoder(
            boundary,
            max_form_memory_size=self.max_form_memory_size,
            max_parts=self.max_form_parts,
        )

        fields = []
        files = []

        for data in orig_chunk_iter(stream.read, self.buffer_size):
            parser.receive_data(data)
            event = parser.next_event()
            while not isinstance(event, (Epilogue, NeedData)):
                if isinstance(event, Field):
                    current_part = event
                    field_size = 0
                    container = []
                    _write = container.append
                elif isinstance(event, File):
                    current_part = event
                    field_size = None
                    container = self.start_file_streaming(event, content_length)
                    _write = container.write
                elif isinstance(event, Data):
                    if self.max_form_memory_size is not None and field_size is not None:
                        # Ensure that accumulated data events do not exceed limit.
                        # Also checked within single event in MultipartDecoder.
                        field_size += len(event.data)

                        if field_size > self.max_form_memory_size:
                            raise RequestEntityTooLarge()

                    _write(event.data)
                    if not event.more_data:
                        if isinstance(current_part, Field):
                            value = b"".join(container).decode(
                                self.get_part_charset(current_part.headers), "replace"
                            )
                            fields.append((current_part.name, value))
                        else:
                            container = t.cast(t.IO[bytes], container)
                            container.seek(0)
                            files.append(
                                (
                                    current_part.name,
                                    FileStorage(
                                        container,
                                        current_part.filename,
                                        current_part.name,
                                        headers=current_part.headers,
                                    ),
                                )
                            )

                event = parser.next_event()

        return self.cls(fields), self.cls(files)


# --------------------------------------------------------------------------
# Input generation
# --------------------------------------------------------------------------
NLS = [b"\r\n", b"\n", b"\r"]
BOUNDARIES = [b"b", b"XyZ", b"----WebKitFormBoundaryABC123", b"a-b--c", b"--", b"x" * 40]
PAYLOAD_ATOMS = [
    b"a",
    b"hello",
    b"\r",
    b"\n",
    b"\r\n",
    b"-",
    b"--",
    b"\r\n--",
    b"\n-",
    b" ",
    b"\t",
    b"\x00\xff",
    b"z" * 50,
    b"\xc3\xa9",
    b"\r\r",
    b"\n\n",
    b":",
]


def rand_payload(rng: random.Random, boundary: bytes) -> bytes:
    atoms = PAYLOAD_ATOMS + [
        b"--" + boundary[: max(1, len(boundary) - 1)],
        b"\r\n--" + boundary[: len(boundary) // 2 + 1],
        b"--" + boundary + b"X",
    ]
    n = rng.choice([0, 0, 1, 2, 3, 5, 8, 20])
    out = b"".join(rng.choice(atoms) for _ in range(n))
    if rng.random() < 0.05:
        out += b"q" * rng.randrange(100, 400)
    return out


def rand_headers(rng: random.Random, nl: bytes) -> bytes:
    lines = []
    r = rng.random()
    name = rng.choice(["a", "field", "f\xe9", "", "x y"])
    if r < 0.45:
        lines.append(f'Content-Disposition: form-data; name="{name}"')
    elif r < 0.85:
        fn = rng.choice(["t.txt", "", "a b.bin", "\xfc.png"])
        lines.append(f'Content-Disposition: form-data; name="{name}"; filename="{fn}"')
    elif r < 0.92:
        lines.append("Content-Disposition: form-data")
    elif r < 0.96:
        lines.append("X-Other: 1")
    else:
        lines.append("content-disposition: form-data;" + nl.decode() + ' name="c"')
    if rng.random() < 0.5:
        lines.append(
            "Content-Type: "
            + rng.choice(
                [
                    "text/plain",
                    "text/plain; charset=utf-8",
                    "text/plain; charset=iso-8859-1",
                    "application/octet-stream",
                    "text/plain; charset=bogus",
                ]
            )
        )
    if rng.random() < 0.2:
        lines.append("Content-Length: " + rng.choice(["3", "x", "-1", "10"]))
    if rng.random() < 0.15:
        lines.append("X-Cont: a" + nl.decode() + "\tb")
    rng.shuffle(lines)
    return nl.join(x.encode("utf-8") for x in lines)


def rand_body(rng: random.Random) -> tuple[bytes, bytes]:
    boundary = rng.choice(BOUNDARIES)
    mixed = rng.random() < 0.2
    base_nl = rng.choice(NLS)

    def nl() -> bytes:
        return rng.choice(NLS) if mixed else base_nl

    out = bytearray()
    if rng.random() < 0.3:
        out += rand_payload(rng, boundary)
        if rng.random() < 0.7:
            out += nl()
    nparts = rng.choice([0, 1, 1, 2, 3, 4])
    first = True
    for _ in range(nparts):
        if not first or rng.random() < 0.5:
            pass
        out += b"--" + boundary
        if rng.random() < 0.2:
            out += rng.choice([b" ", b"\t", b"  "])
        out += nl()
        out += rand_headers(rng, base_nl)
        k = nl()
        out += k + (k if rng.random() < 0.95 else nl())
        out += rand_payload(rng, boundary)
        out += nl()
        first = False
    r = rng.random()
    if r < 0.8:
        out += b"--" + boundary + b"--"
        if rng.random() < 0.3:
            out += b" "
        if rng.random() < 0.8:
            out += nl()
        if rng.random() < 0.3:
            out += rand_payload(rng, boundary)
    elif r < 0.9:
        out += b"--" + boundary  # truncated closing delimiter
    # else: no closing delimiter at all

    body = bytes(out)
    # random mutations / truncations
    r = rng.random()
    if r < 0.10 and body:
        body = body[: rng.randrange(len(body))]
    elif r < 0.18 and body:
        i = rng.randrange(len(body))
        body = body[:i] + bytes([rng.randrange(256)]) + body[i + 1 :]
    elif r < 0.24 and body:
        i = rng.randrange(len(body))
        body = body[:i] + body[i + 1 :]
    return boundary, body


def rand_chunks(rng: random.Random, body: bytes) -> list[bytes]:
    mode = rng.randrange(6)
    if mode == 0:
        return [body]
    if mode == 1:
        return [body[i : i + 1] for i in range(len(body))]
    if mode == 2:
        n = rng.randrange(2, 12)
        return [body[i : i + n] for i in range(0, len(body), n)]
    out = []
    i = 0
    while i < len(body):
        n = rng.choice([1, 1, 2, 3, 5, 8, 13, 40, 200])
        out.append(body[i : i + n])
        i += n
    if mode == 5 and out:
        # sprinkle empty chunks
        for _ in range(rng.randrange(1, 4)):
            out.insert(rng.randrange(len(out) + 1), b"")
    return out


# --------------------------------------------------------------------------
# Comparators
# --------------------------------------------------------------------------
def ev_key(ev: t.Any) -> tuple:
    if isinstance(ev, (Field, File)):
        return (
            type(ev).__name__,
            ev.name,
            getattr(ev, "filename", None),
            tuple(ev.headers.items()),
        )
    if isinstance(ev, Data):
        return ("Data", ev.data, ev.more_data, type(ev.data).__name__)
    if isinstance(ev, (Preamble, Epilogue)):
        return (type(ev).__name__, ev.data, type(ev.data).__name__)
    if isinstance(ev, NeedData):
        return ("NeedData", ev is NEED_DATA)
    return ("?", repr(ev))


def dec_state(d: MultipartDecoder) -> tuple:
    return (
        bytes(d.buffer),
        d.state,
        d.complete,
        d._search_position,
        d._parts_decoded,
    )


def run_decoder(cls: type, boundary: bytes, chunks: list[bytes], mfms, mparts) -> list:
    trace: list = []
    d = cls(boundary, mfms, max_parts=mparts)
    for chunk in [*chunks, None]:
        try:
            d.receive_data(chunk)
        except Exception as e:  # noqa: BLE001
            trace.append(("recv-exc", type(e), str(e), dec_state(d)))
            return trace
        steps = 0
        while True:
            steps += 1
            if steps > 10000:
                trace.append(("runaway",))
                return trace
            try:
                ev = d.next_event()
            except Exception as e:  # noqa: BLE001
                trace.append(("exc", type(e), str(e), dec_state(d)))
                return trace
            trace.append((ev_key(ev), dec_state(d)))
            if isinstance(ev, (NeedData, Epilogue)):
                break
    # one more call after completion
    try:
        ev = d.next_event()
        trace.append((ev_key(ev), dec_state(d)))
    except Exception as e:  # noqa: BLE001
        trace.append(("exc", type(e), str(e), dec_state(d)))
    return trace


class ShortReadStream:
    """A readable whose read(n) returns at most n bytes following a scripted
    sequence of short-read sizes."""

    def __init__(self, body: bytes, sizes: list[int]) -> None:
        self.body = body
        self.pos = 0
        self.sizes = sizes
        self.i = 0
        self.calls: list[int] = []

    def read(self, n: int = -1) -> bytes:
        self.calls.append(n)
        if n is None or n < 0:
            n = len(self.body)
        k = self.sizes[self.i % len(self.sizes)] if self.sizes else n
        self.i += 1
        k = max(1, min(k, n))
        out = self.body[self.pos : self.pos + k]
        self.pos += len(out)
        return out


def run_parser(cls: type, boundary, body, bufsize, sizes, mfms, mparts, factory_log):
    def factory(total_content_length, content_type, filename, content_length=None):
        factory_log.append((total_content_length, content_type, filename, content_length))
        return io.BytesIO()

    p = cls(
        stream_factory=factory,
        max_form_memory_size=mfms,
        buffer_size=bufsize,
        max_form_parts=mparts,
    )
    s = ShortReadStream(body, sizes)
    try:
        fields, files = p.parse(s, boundary, len(body))
    except Exception as e:  # noqa: BLE001
        return ("exc", type(e), str(e), s.pos, tuple(s.calls), tuple(factory_log))
    return (
        "ok",
        type(fields),
        type(files),
        tuple(fields.items(multi=True)),
        tuple(
            (
                k,
                v.filename,
                v.name,
                tuple(v.headers.items()),
                v.stream.tell(),
                v.stream.getvalue(),
            )
            for k, v in files.items(multi=True)
        ),
        s.pos,
        tuple(s.calls),
        tuple(factory_log),
    )


def run_chunk_iter(fn, body: bytes, size: int, sizes: list[int], end_marker):
    s = ShortReadStream(body, sizes)

    def read(n):
        if s.pos >= len(s.body):
            s.calls.append(n)
            return end_marker
        return s.read(n)

    out = []
    try:
        for x in fn(read, size):
            out.append(x)
            if len(out) > 100000:
                break
    except Exception as e:  # noqa: BLE001
        out.append(("exc", type(e)))
    return out, tuple(s.calls)


def call_guarded(fn, *a, **kw):
    try:
        return ("ok", fn(*a, **kw))
    except Exception as e:  # noqa: BLE001
        return ("exc", type(e), str(e))


# --------------------------------------------------------------------------
def main() -> int:
    rng = random.Random(20261002)
    n_dec = n_par = n_pd = n_ln = n_ci = 0
    interesting = {"events": 0, "exc": 0, "complete": 0, "files": 0, "parser_ok": 0}

    excs: dict = {}
    # 1. decoder-level differential, many bodies x chunkings
    for i in range(6000):
        boundary, body = rand_body(rng)
        for _ in range(3):
            chunks = rand_chunks(rng, body)
            mfms = rng.choice([None] * 8 + [5, 30, 200])
            mparts = rng.choice([None] * 8 + [0, 1, 2])
            a = run_decoder(OrigDecoder, boundary, chunks, mfms, mparts)
            b = run_decoder(MultipartDecoder, boundary, chunks, mfms, mparts)
            n_dec += 1
            if any(x[0][0] == "Epilogue" for x in a if isinstance(x[0], tuple)):
                interesting["complete"] += 1
            else:
                interesting["exc"] += 1
                key = (a[-1][1].__name__, a[-1][2][:30])
                excs[key] = excs.get(key, 0) + 1
            interesting["events"] += len(a)
            if a != b:
                print("FAIL decoder", boundary, body, chunks, mfms, mparts)
                for x, y in zip(a, b):
                    if x != y:
                        print("  orig:", x)
                        print("  new :", y)
                        break
                return 1

    # 2. direct _parse_data / last_newline differential on raw buffers
    raw_atoms = PAYLOAD_ATOMS + [b"\r\n--B", b"\r\n--B\r\n", b"\n--B--", b"--B", b"--B--\r\n", b"\r--B \n", b"\r\n--B--  x"]
    for i in range(20000):
        buf = b"".join(rng.choice(raw_atoms) for _ in range(rng.randrange(0, 10)))
        if rng.random() < 0.1:
            buf += b"y" * rng.randrange(1, 40)
        start = rng.random() < 0.5
        da = OrigDecoder(b"B")
        db = MultipartDecoder(b"B")
        st0 = rng.choice([State.DATA, State.DATA_START])
        for d in (da, db):
            d.buffer.extend(buf)
            d.state = st0
        ra = call_guarded(da._parse_data, da.buffer, start=start)
        rb = call_guarded(db._parse_data, db.buffer, start=start)
        n_pd += 1
        if ra != rb or dec_state(da) != dec_state(db) or (
            ra[0] == "ok" and [type(x) for x in ra[1]] != [type(x) for x in rb[1]]
        ):
            print("FAIL _parse_data", buf, start, ra, rb)
            return 1
        for data in (buf, bytearray(buf)):
            la = call_guarded(da.last_newline, data)
            lb = call_guarded(db.last_newline, data)
            n_ln += 1
            if la != lb:
                print("FAIL last_newline", data, la, lb)
                return 1

    # 3. form-parser-level differential: buffer sizes x short reads
    for i in range(4000):
        boundary, body = rand_body(rng)
        for _ in range(2):
            bufsize = rng.choice([1, 2, 3, 7, 16, 64, 1024, 64 * 1024])
            sizes = rng.choice(
                [[], [1], [1, 2, 3], [5, 1, 50], [rng.randrange(1, 30) for _ in range(5)]]
            )
            mfms = rng.choice([None] * 8 + [5, 30, 200])
            mparts = rng.choice([None] * 8 + [0, 1, 2])
            la: list = []
            lb: list = []
            a = run_parser(OrigParser, boundary, body, bufsize, sizes, mfms, mparts, la)
            b = run_parser(fp.MultiPartParser, boundary, body, bufsize, sizes, mfms, mparts, lb)
            n_par += 1
            if a[0] == "ok":
                interesting["parser_ok"] += 1
                if a[4]:
                    interesting["files"] += 1
            if a != b:
                print("FAIL parser", boundary, body, bufsize, sizes, mfms, mparts)
                print("  orig:", a)
                print("  new :", b)
                return 1

    # 4. _chunk_iter differential (including odd falsy end markers)
    for i in range(3000):
        body = bytes(rng.randrange(256) for _ in range(rng.randrange(0, 60)))
        size = rng.choice([1, 2, 5, 16, 100])
        sizes = rng.choice([[], [1], [1, 2, 3], [7, 1]])
        for end in (b"", None, bytearray(), 0, ""):
            a = run_chunk_iter(orig_chunk_iter, body, size, sizes, end)
            b = run_chunk_iter(fp._chunk_iter, body, size, sizes, end)
            n_ci += 1
            if a != b:
                print("FAIL _chunk_iter", body, size, sizes, end, a, b)
                return 1

    print(
        f"cases: decoder={n_dec} parse_data={n_pd} last_newline={n_ln} "
        f"parser={n_par} chunk_iter={n_ci}; stats={interesting}"
    )
    print("decoder failure kinds:", excs)
    print("PASS")
    return 0


if __name__ == "__main__":
    sys.exit(main())
