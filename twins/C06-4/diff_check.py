"""Differential check for refactoring 1 (dump_header / dump_options_header).

Run: cd /tmp/wt6-C06 && PYTHONPATH=/tmp/wt6-C06/src /venv/bin/python /tmp/twin4-C06/1/diff_check.py
"""
from __future__ import annotations

import random
import string
from collections import OrderedDict

from werkzeug import http
from werkzeug.datastructures import Authorization
from werkzeug.datastructures import WWWAuthenticate

_token_chars = frozenset(
    "!#$%&'*+-.0123456789ABCDEFGHIJKLMNOPQRSTUVWXYZ^_`abcdefghijklmnopqrstuvwxyz|~"
)


# ---- ORIGINAL implementations (copied from the unmodified tree) ----
def orig_quote_header_value(value, allow_token=True):
    value_str = str(value)

    if not value_str:
        return '""'

    if allow_token:
        token_chars = _token_chars

        if token_chars.issuperset(value_str):
            return value_str

    value_str = value_str.replace("\\", "\\\\").replace('"', '\\"')
    return f'"{value_str}"'


def orig_dump_options_header(header, options):
    segments = []

    if header is not None:
        segments.append(header)

    for key, value in options.items():
        if value is None:
            continue

        if key[-1] == "*":
            segments.append(f"{key}={value}")
        else:
            segments.append(f"{key}={orig_quote_header_value(value)}")

    return "; ".join(segments)


def orig_dump_header(iterable):
    if isinstance(iterable, dict):
        items = []

        for key, value in iterable.items():
            if value is None:
                items.append(key)
            elif key[-1] == "*":
                items.append(f"{key}={value}")
            else:
                items.append(f"{key}={orig_quote_header_value(value)}")
    else:
        items = [orig_quote_header_value(x) for x in iterable]

    return ", ".join(items)


# ---- generators ----
ALPHABET = (
    string.ascii_letters
    + string.digits
    + "!#$%&'*+-.^_`|~"
    + ' "\\,;=:/()<>@[]{}?\t'
    + "\u00e9\u20ac\U0001f600"
)


class Boom:
    def __str__(self):
        raise KeyError("boom")


class Stop:
    def __str__(self):
        raise StopIteration


def rand_str(rng, lo=0, hi=10):
    return "".join(rng.choice(ALPHABET) for _ in range(rng.randint(lo, hi)))


def rand_key(rng):
    r = rng.random()
    if r < 0.04:
        return ""
    if r < 0.06:
        return rng.choice([None, 3, b"k", ("a",)])
    k = "".join(
        rng.choice(string.ascii_lowercase + "-_") for _ in range(rng.randint(1, 6))
    )
    if rng.random() < 0.2:
        k += "*"
    if rng.random() < 0.05:
        k = rand_str(rng, 1, 5)
    return k


def rand_value(rng):
    r = rng.random()
    if r < 0.12:
        return None
    if r < 0.2:
        return rng.choice([0, 1, -5, 3.5, True, False, b"bytes", ("a", 1), [1]])
    if r < 0.22:
        return Boom()
    if r < 0.24:
        return Stop()
    if r < 0.3:
        return ""
    if r < 0.4:
        return "UTF-8''" + rand_str(rng, 0, 5)
    return rand_str(rng)


def rand_dict(rng):
    cls = rng.choice([dict, dict, OrderedDict])
    d = cls()
    for _ in range(rng.randint(0, 5)):
        try:
            d[rand_key(rng)] = rand_value(rng)
        except TypeError:
            pass
    return d


def rand_iterable(rng):
    items = [rand_value(rng) for _ in range(rng.randint(0, 5))]
    kind = rng.random()
    if kind < 0.5:
        return items
    if kind < 0.7:
        return tuple(items)
    if kind < 0.8:
        return iter(items)
    if kind < 0.9:
        try:
            return set(items)
        except TypeError:
            return items
    return "".join(x for x in items if isinstance(x, str))


def outcome(fn, *args):
    try:
        return ("ok", fn(*args))
    except BaseException as e:  # noqa: B036
        return ("exc", type(e), str(e))


def main():
    rng = random.Random(60601)
    n = 0
    bad = 0

    # dump_header on dicts
    for _ in range(6000):
        d = rand_dict(rng)
        a = outcome(orig_dump_header, d)
        b = outcome(http.dump_header, d)
        n += 1
        if a != b:
            bad += 1
            print("MISMATCH dump_header(dict)", dict(d), a, b)

    # dump_header on other iterables (iterators must be duplicated)
    for _ in range(4000):
        it = rand_iterable(rng)
        if isinstance(it, (list, tuple, set, str)):
            it2 = it
        else:
            lst = list(it)
            it, it2 = iter(lst), iter(lst)
        a = outcome(orig_dump_header, it)
        b = outcome(http.dump_header, it2)
        n += 1
        if a != b:
            bad += 1
            print("MISMATCH dump_header(iter)", a, b)

    # non-iterables
    for x in [None, 5, 3.5, object()]:
        a = outcome(orig_dump_header, x)
        b = outcome(http.dump_header, x)
        n += 1
        if a[:2] != b[:2]:
            bad += 1
            print("MISMATCH dump_header(non-iterable)", x, a, b)

    # dump_options_header
    for _ in range(6000):
        d = rand_dict(rng)
        r = rng.random()
        if r < 0.15:
            header = None
        elif r < 0.2:
            header = ""
        elif r < 0.23:
            header = rng.choice([5, b"x"])
        else:
            header = rng.choice(
                ["text/html", "form-data", "attachment", rand_str(rng, 1, 8)]
            )
        a = outcome(orig_dump_options_header, header, d)
        b = outcome(http.dump_options_header, header, d)
        n += 1
        if a != b:
            bad += 1
            print("MISMATCH dump_options_header", header, dict(d), a, b)

    for opts in [None, 5, [("a", "b")]]:
        a = outcome(orig_dump_options_header, "x", opts)
        b = outcome(http.dump_options_header, "x", opts)
        n += 1
        if a[:2] != b[:2]:
            bad += 1
            print("MISMATCH dump_options_header(bad options)", opts, a, b)

    # property-level: round trips through the refactored dumpers are those of the
    # original dumpers
    for _ in range(3000):
        d = {
            k: v
            for k, v in rand_dict(rng).items()
            if isinstance(k, str) and k and (v is None or isinstance(v, str))
        }
        a = outcome(lambda: http.parse_dict_header(orig_dump_header(d)))
        b = outcome(lambda: http.parse_dict_header(http.dump_header(d)))
        c = outcome(
            lambda: http.parse_options_header(orig_dump_options_header("v", d))
        )
        e = outcome(
            lambda: http.parse_options_header(http.dump_options_header("v", d))
        )
        lst = [v for v in d.values() if v is not None]
        f = outcome(lambda: http.parse_list_header(orig_dump_header(lst)))
        g = outcome(lambda: http.parse_list_header(http.dump_header(lst)))
        n += 3
        if a != b or c != e or f != g:
            bad += 1
            print("MISMATCH roundtrip", d)

    # callers: Authorization / WWWAuthenticate.to_header use dump_header
    for _ in range(2000):
        d = {
            k: v
            for k, v in rand_dict(rng).items()
            if isinstance(k, str) and k and (v is None or isinstance(v, str))
        }
        scheme = rng.choice(["digest", "bearer", "custom", "negotiate"])
        for cls in (Authorization, WWWAuthenticate):
            obj = cls(scheme, dict(d))
            got = outcome(obj.to_header)
            if cls is WWWAuthenticate and scheme == "digest":
                continue
            exp = outcome(lambda: f"{scheme.title()} {orig_dump_header(d)}")
            n += 1
            if got != exp:
                bad += 1
                print("MISMATCH to_header", cls.__name__, scheme, d, got, exp)

    print(f"{n} comparisons, {bad} mismatches")
    print("PASS" if bad == 0 else "FAIL")


if __name__ == "__main__":
    main()
