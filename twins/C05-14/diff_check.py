"""Differential check for refactoring 2
(Response.get_app_iter and wsgi.ClosingIterator.__init__).

The ORIGINAL implementations are pasted below and compared against the
worktree ones on generated inputs.
"""
from __future__ import annotations

import itertools
import random
import typing as t
from functools import partial

from werkzeug.wrappers import Response
from werkzeug.wsgi import ClosingIterator


class OriginalClosingIterator:
    def __init__(self, iterable, callbacks=None) -> None:
        iterator = iter(iterable)
        self._next = t.cast(t.Callable[[], bytes], partial(next, iterator))
        if callbacks is None:
            callbacks = []
        elif callable(callbacks):
            callbacks = [callbacks]
        else:
            callbacks = list(callbacks)
        iterable_close = getattr(iterable, "close", None)
        if iterable_close:
            callbacks.insert(0, iterable_close)
        self._callbacks = callbacks

    def __iter__(self):
        return self

    def __next__(self) -> bytes:
        return self._next()

    def close(self) -> None:
        for callback in self._callbacks:
            callback()


def original_get_app_iter(self, environ):
    status = self.status_code
    if (
        environ["REQUEST_METHOD"] == "HEAD"
        or 100 <= status < 200
        or status in (204, 304)
    ):
        iterable: t.Iterable[bytes] = ()
    elif self.direct_passthrough:
        return self.response  # type: ignore
    else:
        iterable = self.iter_encoded()
    return OriginalClosingIterator(iterable, self.close)


rnd = random.Random(20505)

STATUSES = [
    0, 1, 99, 100, 101, 102, 103, 150, 199, 200, 201, 203, 204, 205, 206, 299,
    300, 301, 302, 304, 305, 307, 400, 404, 416, 500, 599, 600, 999, -1,
    "200 OK", "204 NO CONTENT", "304 Not Modified", "100 Continue", "204", "304",
    "wat", " 204 x",
]
METHODS = ["GET", "HEAD", "POST", "head", "Head", "OPTIONS", "PUT", "DELETE", "", None, "MISSING"]
CHUNKS = ["", "a", "hello", "héllo", "☃☃", b"", b"bytes", b"\xff\xfe", "x" * 300, 7]


class LoggedIter:
    """Iterable with its own close() that logs every event."""

    def __init__(self, chunks, log, close_raises=False):
        self.chunks = list(chunks)
        self.log = log
        self.close_raises = close_raises
        self.i = 0

    def __iter__(self):
        self.log.append("iter")
        return self

    def __next__(self):
        if self.i >= len(self.chunks):
            self.log.append("stop")
            raise StopIteration
        self.i += 1
        self.log.append(f"next{self.i}")
        return self.chunks[self.i - 1]

    def close(self):
        self.log.append("body.close")
        if self.close_raises:
            raise RuntimeError("close failed")


def make_body(kind, chunks, log):
    if kind == "list":
        return list(chunks)
    if kind == "tuple":
        return tuple(chunks)
    if kind == "gen":
        def gen():
            try:
                for c in chunks:
                    log.append("gen.yield")
                    yield c
            finally:
                log.append("gen.finalised")
        return gen()
    if kind == "logged":
        return LoggedIter(chunks, log)
    if kind == "logged_raises":
        return LoggedIter(chunks, log, close_raises=True)
    if kind == "iter":
        return iter(list(chunks))
    if kind == "str":
        return "".join(c for c in chunks if isinstance(c, str))
    if kind == "none":
        return None
    raise AssertionError(kind)


BODY_KINDS = ["list", "tuple", "gen", "logged", "logged_raises", "iter", "str", "none"]


def drive_response(get_app_iter, closing_cls, status, method, kind, chunks, direct,
                   n_on_close, consume, n_close, cb_raises):
    """Build a fresh response, obtain the app_iter and exercise it."""
    log: list[str] = []
    out: list[t.Any] = []
    try:
        resp = Response(make_body(kind, chunks, log), status=status)
    except Exception as e:  # noqa: BLE001
        return ("ctor-exc", type(e).__name__)
    resp.direct_passthrough = direct
    for i in range(n_on_close):
        def cb(i=i):
            log.append(f"on_close{i}")
            if cb_raises == i:
                raise KeyError(i)
        resp.call_on_close(cb)
    environ = {"wsgi.url_scheme": "http", "SERVER_NAME": "x", "SERVER_PORT": "80"}
    if method != "MISSING":
        environ["REQUEST_METHOD"] = method
    try:
        app_iter = get_app_iter(resp, environ)
    except Exception as e:  # noqa: BLE001
        return ("get-exc", type(e).__name__, str(e), tuple(log))
    out.append("closing" if type(app_iter) is closing_cls else type(app_iter).__name__)
    out.append(app_iter is resp.response)
    if type(app_iter) is closing_cls:
        out.append(len(app_iter._callbacks))
        out.append([getattr(c, "__name__", type(c).__name__) for c in app_iter._callbacks])
        out.append(iter(app_iter) is app_iter)
    try:
        it = iter(app_iter)
        for _ in range(consume):
            try:
                out.append(next(it))
            except StopIteration:
                out.append("<stop>")
                break
    except Exception as e:  # noqa: BLE001
        out.append(("iter-exc", type(e).__name__, str(e)))
    for _ in range(n_close):
        close = getattr(app_iter, "close", None)
        if close is None:
            out.append("no-close")
            continue
        try:
            out.append(("close", close()))
        except Exception as e:  # noqa: BLE001
            out.append(("close-exc", type(e).__name__, str(e)))
    return ("ok", out, tuple(log))


def drive_closing(cls, iterable_kind, callbacks_kind, chunks, consume, n_close):
    log: list[str] = []

    def mk(name, raises=False):
        def cb():
            log.append(name)
            if raises:
                raise ValueError(name)
        cb.__name__ = name
        return cb

    class CallableObj:
        def __call__(self):
            log.append("callable-obj")

    class NoClose:
        def __iter__(self_inner):
            return iter(chunks)

    class FalsyClose:
        close = None

        def __iter__(self_inner):
            return iter(chunks)

    class ZeroClose:
        close = 0

        def __iter__(self_inner):
            return iter(chunks)

    if iterable_kind == "list":
        iterable: t.Any = list(chunks)
    elif iterable_kind == "tuple":
        iterable = tuple(chunks)
    elif iterable_kind == "empty":
        iterable = ()
    elif iterable_kind == "gen":
        iterable = (c for c in chunks)
    elif iterable_kind == "logged":
        iterable = LoggedIter(chunks, log)
    elif iterable_kind == "logged_raises":
        iterable = LoggedIter(chunks, log, close_raises=True)
    elif iterable_kind == "noclose":
        iterable = NoClose()
    elif iterable_kind == "falsyclose":
        iterable = FalsyClose()
    elif iterable_kind == "zeroclose":
        iterable = ZeroClose()
    elif iterable_kind == "notiterable":
        iterable = 42
    elif iterable_kind == "none":
        iterable = None
    else:
        raise AssertionError(iterable_kind)

    src_list = [mk("l1"), mk("l2")]
    if callbacks_kind == "none":
        callbacks: t.Any = None
    elif callbacks_kind == "omitted":
        callbacks = "OMIT"
    elif callbacks_kind == "func":
        callbacks = mk("single")
    elif callbacks_kind == "func_raises":
        callbacks = mk("single", raises=True)
    elif callbacks_kind == "callable_obj":
        callbacks = CallableObj()
    elif callbacks_kind == "list":
        callbacks = src_list
    elif callbacks_kind == "empty_list":
        callbacks = []
    elif callbacks_kind == "tuple":
        callbacks = (mk("t1"), mk("t2", raises=True), mk("t3"))
    elif callbacks_kind == "gen":
        callbacks = (mk(f"g{i}") for i in range(3))
    elif callbacks_kind == "int":
        callbacks = 5
    elif callbacks_kind == "str":
        callbacks = "ab"
    elif callbacks_kind == "list_noncallable":
        callbacks = [mk("ok"), None]
    else:
        raise AssertionError(callbacks_kind)

    out: list[t.Any] = []
    try:
        ci = cls(iterable) if callbacks == "OMIT" else cls(iterable, callbacks)
    except Exception as e:  # noqa: BLE001
        return ("ctor-exc", type(e).__name__, str(e), tuple(log))
    out.append([getattr(c, "__name__", type(c).__name__) for c in ci._callbacks])
    out.append(type(ci._callbacks).__name__)
    out.append(ci._callbacks is callbacks)
    # the caller's list must not be modified
    out.append([c.__name__ for c in src_list])
    for _ in range(consume):
        try:
            out.append(next(ci))
        except StopIteration:
            out.append("<stop>")
            break
        except Exception as e:  # noqa: BLE001
            out.append(("next-exc", type(e).__name__))
            break
    for _ in range(n_close):
        try:
            out.append(("close", ci.close()))
        except Exception as e:  # noqa: BLE001
            out.append(("close-exc", type(e).__name__, str(e)))
    return ("ok", out, tuple(log))


ITERABLE_KINDS = ["list", "tuple", "empty", "gen", "logged", "logged_raises", "noclose",
                  "falsyclose", "zeroclose", "notiterable", "none"]
CALLBACK_KINDS = ["none", "omitted", "func", "func_raises", "callable_obj", "list",
                  "empty_list", "tuple", "gen", "int", "str", "list_noncallable"]


def run():
    count = mismatches = 0

    def cmp_resp(*args):
        nonlocal count, mismatches
        a = drive_response(original_get_app_iter, OriginalClosingIterator, *args)
        b = drive_response(Response.get_app_iter, ClosingIterator, *args)
        count += 1
        if a != b:
            mismatches += 1
            if mismatches <= 10:
                print("MISMATCH resp", args, a, b, sep="\n  ")

    def cmp_ci(*args):
        nonlocal count, mismatches
        a = drive_closing(OriginalClosingIterator, *args)
        b = drive_closing(ClosingIterator, *args)
        count += 1
        if a != b:
            mismatches += 1
            if mismatches <= 10:
                print("MISMATCH closing", args, a, b, sep="\n  ")

    for status, method, kind, direct in itertools.product(STATUSES, METHODS, BODY_KINDS, [False, True]):
        chunks = [rnd.choice(CHUNKS) for _ in range(rnd.randint(0, 4))]
        cmp_resp(status, method, kind, chunks, direct, rnd.randint(0, 3),
                 rnd.randint(0, 6), rnd.randint(0, 2), rnd.choice([None, None, 0, 1]))

    for _ in range(6000):
        chunks = [rnd.choice(CHUNKS) for _ in range(rnd.randint(0, 5))]
        status = rnd.choice(STATUSES) if rnd.random() < 0.7 else rnd.randint(-5, 650)
        cmp_resp(status, rnd.choice(METHODS), rnd.choice(BODY_KINDS), chunks,
                 rnd.random() < 0.3, rnd.randint(0, 3), rnd.randint(0, 7),
                 rnd.randint(0, 3), rnd.choice([None, None, 0, 1, 2]))

    for ik, ck, consume, n_close in itertools.product(ITERABLE_KINDS, CALLBACK_KINDS, [0, 2, 9], [0, 1, 2]):
        chunks = [rnd.choice(CHUNKS) for _ in range(rnd.randint(0, 4))]
        cmp_ci(ik, ck, chunks, consume, n_close)

    print(f"compared {count} cases, {mismatches} mismatches")
    print("PASS" if mismatches == 0 and count > 3000 else "FAIL")


if __name__ == "__main__":
    run()
