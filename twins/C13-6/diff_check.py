"""Differential check for refactoring 3 (test.Cookie._from_response_header params
comprehension / hoisted locals, Client._update_cookies_from_response flipped if/else).
Compares the worktree implementation against pasted copies of the ORIGINAL.

Run: cd /tmp/wt6-C13 && PYTHONPATH=/tmp/wt6-C13/src /venv/bin/python /tmp/twin4-C13/3/diff_check.py
"""
from __future__ import annotations

import dataclasses
import random
import sys
import warnings
from datetime import datetime
from datetime import timedelta
from datetime import timezone

import werkzeug.test as T
from werkzeug.http import dump_cookie
from werkzeug.http import parse_cookie
from werkzeug.http import parse_date
from werkzeug.test import Client
from werkzeug.test import Cookie

assert T.__file__.startswith("/tmp/wt6-C13/"), T.__file__


# ---------------------------------------------------------------- ORIGINAL
def orig_from_response_header(cls, server_name, path, header):
    header, _, parameters_str = header.partition(";")
    key, _, value = header.partition("=")
    decoded_key, decoded_value = next(parse_cookie(header).items())
    params = {}

    for item in parameters_str.split(";"):
        k, sep, v = item.partition("=")
        params[k.strip().lower()] = v.strip() if sep else None

    return cls(
        key=key.strip(),
        value=value.strip(),
        decoded_key=decoded_key,
        decoded_value=decoded_value,
        expires=parse_date(params.get("expires")),
        max_age=int(params["max-age"] or 0) if "max-age" in params else None,
        domain=params.get("domain") or server_name,
        origin_only="domain" not in params,
        path=params.get("path") or path.rpartition("/")[0] or "/",
        secure="secure" in params,
        http_only="httponly" in params,
        same_site=params.get("samesite"),
    )


def orig_update_cookies_from_response(self, server_name, path, headers):
    if self._cookies is None:
        return

    for header in headers:
        cookie = orig_from_response_header(Cookie, server_name, path, header)

        if cookie._should_delete:
            self._cookies.pop(cookie._storage_key, None)
        else:
            self._cookies[cookie._storage_key] = cookie


# ---------------------------------------------------------------- generators
rnd = random.Random(0xC13 + 3)
SPECIAL = list('",;\\ \t\r\n\x00\x1f\x7f\x80\xff=%/') + [
    "é", "€", "\U0001f600", "\\073", '\\"', "; Secure", "; Domain=evil.example",
    "; Max-Age=0", "\x85", " ",
]
SAFE = "abcXYZ019_!#$&'()*+-.:<>?@[]^`{|}~"
PARAMS = [
    "Secure", "HttpOnly", "secure", "HTTPONLY", "Partitioned", "Path=/", "Path=/a/b", "Path=",
    "path=/x", "Path", "Domain=example.com", "Domain=", "Domain", "domain=sub.example.com",
    "Max-Age=0", "Max-Age=10", "Max-Age=", "Max-Age", "max-age=-1", "Max-Age=abc", "Max-Age=1.5",
    "Max-Age= 7 ", "Expires=Thu, 01 Jan 1970 00:00:00 GMT", "Expires=Wed, 21 Oct 2015 07:28:00 GMT",
    "Expires=junk", "Expires=", "Expires", "expires=0", "SameSite=Lax", "SameSite=", "SameSite",
    "samesite=strict", "", " ", "=", "=x", "a=b=c", " Secure = 1 ", "Max-Age=0; Max-Age=5",
    "Max-Age=5; max-age=0", "Domain=a; Domain", "Domain; Domain=a",
]


def rand_text(maxlen=10):
    out = []
    for _ in range(rnd.randint(0, maxlen)):
        r = rnd.random()
        if r < 0.45:
            out.append(rnd.choice(SAFE))
        elif r < 0.85:
            out.append(rnd.choice(SPECIAL))
        else:
            c = rnd.randint(0, 0x10FFFF)
            if 0xD800 <= c < 0xE000:
                c = 0x41
            out.append(chr(c))
    return "".join(out)


def rand_dumped():
    kw = {}
    if rnd.random() < 0.4:
        kw["max_age"] = rnd.choice([0, 1, 3600, -5, timedelta(days=1), None])
    if rnd.random() < 0.4:
        kw["expires"] = rnd.choice(
            [0, 1700000000, "Thu, 01 Jan 1970 00:00:00 GMT", "junk",
             datetime(2030, 1, 2, 3, 4, 5, tzinfo=timezone.utc), None]
        )
    if rnd.random() < 0.5:
        kw["path"] = rnd.choice([None, "/", "", "/a b", "/x;y", "/é", "/a/b/"])
    if rnd.random() < 0.5:
        kw["domain"] = rnd.choice([None, "", "example.com", ".example.com", "localhost:80", "bücher.de"])
    if rnd.random() < 0.4:
        kw["secure"] = rnd.choice([True, False])
    if rnd.random() < 0.4:
        kw["httponly"] = rnd.choice([True, False])
    if rnd.random() < 0.5:
        kw["samesite"] = rnd.choice([None, "strict", "Lax", "NONE"])
    if rnd.random() < 0.3:
        kw["partitioned"] = rnd.choice([True, False])
    key = rnd.choice(["k", "k2", "kéy", "sess", rand_text(4) or "z"])
    with warnings.catch_warnings():
        warnings.simplefilter("ignore")
        return dump_cookie(key, rand_text(), **kw)


def rand_raw():
    pair = rnd.choice(
        ["k=v", "k", "=v", "", " ", "k=", 'k="a;b"', 'k="a\\073b"', "k = v ", rand_text(), "k=" + rand_text(),
         rand_text(4) + "=" + rand_text()]
    )
    params = [rnd.choice(PARAMS) for _ in range(rnd.randint(0, 5))]
    if rnd.random() < 0.2:
        params.append(rand_text())
    return "; ".join([pair, *params]) if rnd.random() < 0.8 else ";".join([pair, *params])


def rand_header():
    r = rnd.random()
    if r < 0.5:
        return rand_dumped()
    if r < 0.98:
        return rand_raw()
    return rnd.choice([b"k=v", None, 5])


def snapshot(cookie):
    # field-by-field incl. types, so e.g. True vs 1 or 'a' vs None differences show up
    return [(f.name, type(getattr(cookie, f.name)), getattr(cookie, f.name)) for f in dataclasses.fields(cookie)]


def call(fn, *a):
    try:
        return ("ok", snapshot(fn(*a)))
    except BaseException as e:  # noqa: BLE001
        return ("exc", type(e), str(e))


def jar_state(client):
    if client._cookies is None:
        return None
    return [(k, snapshot(v)) for k, v in client._cookies.items()]


def main():
    bad = 0
    n = 0
    servers = ["localhost", "example.com", "sub.example.com", ""]
    paths = ["/", "", "/a", "/a/b", "/a/b/", "noslash"]

    # 1. Cookie._from_response_header
    for _ in range(30000):
        n += 1
        args = (rnd.choice(servers), rnd.choice(paths), rand_header())
        r1 = call(lambda *a: orig_from_response_header(Cookie, *a), *args)
        r2 = call(Cookie._from_response_header, *args)
        if r1 != r2:
            bad += 1
            if bad < 10:
                print("MISMATCH", args, r1, r2)

    # 2. Client._update_cookies_from_response on header sequences (jar contents+order)
    for _ in range(4000):
        n += 1
        use = rnd.random() > 0.05
        c1 = Client(lambda e, s: None, use_cookies=use)
        c2 = Client(lambda e, s: None, use_cookies=use)
        for _ in range(rnd.randint(1, 4)):
            server, path = rnd.choice(servers), rnd.choice(paths)
            headers = [rand_header() for _ in range(rnd.randint(0, 6))]
            try:
                e1 = orig_update_cookies_from_response(c1, server, path, headers)
            except BaseException as e:  # noqa: BLE001
                e1 = (type(e), str(e))
            try:
                e2 = c2._update_cookies_from_response(server, path, headers)
            except BaseException as e:  # noqa: BLE001
                e2 = (type(e), str(e))
            if e1 != e2 or jar_state(c1) != jar_state(c2):
                bad += 1
                if bad < 10:
                    print("JAR MISMATCH", server, path, headers, e1, e2)
                break

    # 3. end to end: the property's round trip through a real Client
    from werkzeug.wrappers import Request, Response

    for _ in range(1500):
        n += 1
        v = rand_text()

        @Request.application
        def app(request):
            if request.path == "/set":
                rv = Response("set")
                rv.set_cookie("k", v)
                return rv
            return Response(repr(request.cookies.get("k")))

        c = Client(app)
        c.get("/set")
        got = c.get("/get").text
        stored = c.get_cookie("k")
        expect_stored = orig_from_response_header(Cookie, "localhost", "/set", dump_cookie("k", v))
        if got != repr(v) or snapshot(stored) != snapshot(expect_stored):
            bad += 1
            if bad < 10:
                print("E2E MISMATCH", repr(v), got, stored)

    print(f"{n} cases, {bad} mismatches")
    print("PASS" if bad == 0 else "FAIL")
    return 0 if bad == 0 else 1


if __name__ == "__main__":
    sys.exit(main())
