"""Differential check for refactoring 3 (SharedDataMiddleware loaders / __call__).

Run: cd /tmp/wt6-C14 && PYTHONPATH=/tmp/wt6-C14/src /venv/bin/python /tmp/twin4-C14/3/diff_check.py
"""
from __future__ import annotations

import importlib.util
import mimetypes
import os
import posixpath
import random
import shutil
import sys
import tempfile
import zipfile
from datetime import datetime
from datetime import timezone
from io import BytesIO

import werkzeug.middleware.shared_data as sd
from werkzeug.http import http_date as _real_http_date
from werkzeug.http import is_resource_modified
from werkzeug.middleware.shared_data import SharedDataMiddleware as NewSDM
from werkzeug.security import safe_join
from werkzeug.test import create_environ
from werkzeug.utils import get_content_type
from werkzeug.wsgi import get_path_info
from werkzeug.wsgi import wrap_file

# Freeze the clock for both versions so Date / Expires headers are comparable.
FIXED = 1_700_000_000.0


def time():
    return FIXED


def http_date(timestamp=None):
    return _real_http_date(FIXED if timestamp is None else timestamp)


sd.time = time
sd.http_date = http_date


# ---- ORIGINAL implementation (methods copied verbatim from the unmodified tree)
class OrigSDM(NewSDM):
    def get_package_loader(self, package, package_path):
        load_time = datetime.now(timezone.utc)
        spec = importlib.util.find_spec(package)
        reader = spec.loader.get_resource_reader(package)  # type: ignore[union-attr]

        def loader(path):
            if path is None:
                return None, None

            path = safe_join(package_path, path)

            if path is None:
                return None, None

            basename = posixpath.basename(path)

            try:
                resource = reader.open_resource(path)
            except OSError:
                return None, None

            if isinstance(resource, BytesIO):
                return (
                    basename,
                    lambda: (resource, load_time, len(resource.getvalue())),
                )

            return (
                basename,
                lambda: (
                    resource,
                    datetime.fromtimestamp(
                        os.path.getmtime(resource.name), tz=timezone.utc
                    ),
                    os.path.getsize(resource.name),
                ),
            )

        return loader

    def get_directory_loader(self, directory):
        def loader(path):
            if path is not None:
                path = safe_join(directory, path)

                if path is None:
                    return None, None
            else:
                path = directory

            if os.path.isfile(path):
                return os.path.basename(path), self._opener(path)

            return None, None

        return loader

    def __call__(self, environ, start_response):
        path = get_path_info(environ)
        file_loader = None

        for search_path, loader in self.exports:
            if search_path == path:
                real_filename, file_loader = loader(None)

                if file_loader is not None:
                    break

            if not search_path.endswith("/"):
                search_path += "/"

            if path.startswith(search_path):
                real_filename, file_loader = loader(path[len(search_path) :])

                if file_loader is not None:
                    break

        if file_loader is None or not self.is_allowed(real_filename):  # type: ignore
            return self.app(environ, start_response)

        guessed_type = mimetypes.guess_type(real_filename)  # type: ignore
        mime_type = get_content_type(guessed_type[0] or self.fallback_mimetype, "utf-8")
        f, mtime, file_size = file_loader()

        headers = [("Date", http_date())]

        if self.cache:
            timeout = self.cache_timeout
            etag = self.generate_etag(mtime, file_size, real_filename)  # type: ignore
            headers += [
                ("Etag", f'"{etag}"'),
                ("Cache-Control", f"max-age={timeout}, public"),
            ]

            if not is_resource_modified(environ, etag, last_modified=mtime):
                f.close()
                start_response("304 Not Modified", headers)
                return []

            headers.append(("Expires", http_date(time() + timeout)))
        else:
            headers.append(("Cache-Control", "public"))

        headers.extend(
            (
                ("Content-Type", mime_type),
                ("Content-Length", str(file_size)),
                ("Last-Modified", http_date(mtime)),
            )
        )
        start_response("200 OK", headers)
        return wrap_file(environ, f)


# ---------------------------------------------------------------------------


def fallback_app(environ, start_response):
    start_response("404 NOT FOUND", [("Content-Type", "text/plain")])
    return [b"FALLBACK:" + environ.get("PATH_INFO", "").encode("latin-1", "replace")]


def call(app, raw_path, extra):
    environ = create_environ("/")
    environ["PATH_INFO"] = raw_path
    environ.update(extra)
    captured = []

    def start_response(status, headers, exc_info=None):
        captured.append((status, list(headers)))

    try:
        it = app(environ, start_response)
        body = b"".join(it)
        if hasattr(it, "close"):
            it.close()
    except BaseException as e:  # noqa: BLE001
        return ("exc", type(e), captured)
    return ("ok", captured, body)


def run_loader(loader, arg, zip_pkg):
    try:
        name, opener = loader(arg)
    except BaseException as e:  # noqa: BLE001
        return ("exc", type(e))
    if opener is None:
        return ("ok", name, None)
    try:
        f, mtime, size = opener()
    except BaseException as e:  # noqa: BLE001
        # (zipimport readers on this Python hand back a non-BytesIO stream whose
        # .name is not a real file -> same OSError from both versions)
        return ("opener-exc", name, type(e))
    data = f.getvalue() if isinstance(f, BytesIO) else f.read()
    f.close()
    # load_time of zip packages is datetime.now() at construction -> not comparable
    return ("ok", name, type(f).__name__, data, None if zip_pkg else mtime, size)


def build_tree(tmp):
    root = os.path.join(tmp, "root")
    os.makedirs(os.path.join(root, "sub", "deep"))
    files = {
        "root/index.html": "<h1>index</h1>",
        "root/a.txt": "aaa",
        "root/sub/b.css": "b{}",
        "root/sub/deep/c.bin": "ccc",
        "root/noext": "noext",
        "root/..hidden": "dots",
        "single.txt": "single-file-export",
        "secret.txt": "SECRET",
        "fspkg/__init__.py": "",
        "fspkg/data/p.txt": "pkgdata",
        "fspkg/data/inner/q.js": "q()",
        "fspkg/hidden.txt": "pkg-outside-data",
    }
    for rel, content in files.items():
        full = os.path.join(tmp, rel)
        os.makedirs(os.path.dirname(full), exist_ok=True)
        with open(full, "w") as f:
            f.write(content)
    # fixed mtimes so etags are stable
    for dp, _dn, fn in os.walk(tmp):
        for n in fn:
            os.utime(os.path.join(dp, n), (1_600_000_000, 1_600_000_000))
    zpath = os.path.join(tmp, "zpkg.zip")
    with zipfile.ZipFile(zpath, "w") as z:
        z.writestr("zpkg/__init__.py", "")
        z.writestr("zpkg/data/z.txt", "zipdata")
        z.writestr("zpkg/other.txt", "zip-outside-data")
    sys.path.insert(0, tmp)
    sys.path.insert(0, zpath)
    return root


SEGS = [
    "", ".", "..", "a.txt", "index.html", "sub", "deep", "b.css", "c.bin", "noext",
    "secret.txt", "single.txt", "root", "\x00", "..hidden", "nope", "p.txt", "inner",
    "q.js", "z.txt", "data", "hidden.txt", "other.txt", "__init__.py", "\\", "..\\",
    "static", "pkg", "zip", "file", "\xe9",
]
SEPS = ["/", "/", "//", "/./", "/../", "\\"]
PREFIXES = ["", "/", "/static", "/static/", "/pkg", "/pkg/", "/zip/", "/file", "/file/",
            "/other", "static/", "//static/", "/static/sub", "/s"]


def gen_path(rng):
    out = rng.choice(PREFIXES)
    n = rng.randint(0, 4)
    for i in range(n):
        if i or (out and not out.endswith("/") and rng.random() < 0.8):
            out += rng.choice(SEPS)
        out += rng.choice(SEGS)
    if rng.random() < 0.15:
        out += "/"
    return out


def main():
    rng = random.Random(1404)
    tmp = tempfile.mkdtemp(prefix="twin4c14_")
    total = bad = 0
    served = 0
    loader_served = 0
    cwd = os.getcwd()
    try:
        root = build_tree(tmp)
        os.chdir(tmp)
        single = os.path.join(tmp, "single.txt")

        export_sets = [
            [("/static", root), ("/file", single), ("/pkg", ("fspkg", "data")),
             ("/zip/", ("zpkg", "data"))],
            [("/static/", os.path.join(root, "sub")), ("/static", root), ("/", root)],
            {"/": root},
            {"": root, "/pkg": ("fspkg", "")},
            [("/static", "root"), ("/static/sub", root), ("/s", single),
             ("/pkg", ("fspkg", "data/inner"))],
            [("/static", os.path.join(tmp, "missing")), ("/static", root),
             ("/file", single), ("/file", root)],
        ]
        option_sets = [
            {},
            {"cache": False},
            {"disallow": "*.txt"},
            {"cache_timeout": 5, "fallback_mimetype": "text/x-unknown"},
        ]

        paths = set()
        for p in PREFIXES:
            paths.add(p)
            for s in SEGS:
                paths.add(p.rstrip("/") + "/" + s)
                for s2 in SEGS[:12]:
                    paths.add(p.rstrip("/") + "/" + s + "/" + s2)
        while len(paths) < 9000:
            paths.add(gen_path(rng))
        paths = sorted(paths)

        # -- whole-middleware comparison
        for exports in export_sets:
            for opts in option_sets:
                new = NewSDM(fallback_app, exports, **opts)
                old = OrigSDM(fallback_app, exports, **opts)
                zip_cfg = any(
                    isinstance(v, tuple) and v[0] == "zpkg"
                    for _k, v in (exports.items() if isinstance(exports, dict) else exports)
                )
                for p in paths:
                    if zip_cfg and p.startswith("/zip"):
                        # zip-package load_time differs per instance; covered by
                        # the loader-level comparison below
                        continue
                    extras = [{}]
                    r = rng.random()
                    if r < 0.1:
                        extras.append({"HTTP_IF_MODIFIED_SINCE": _real_http_date(1_650_000_000)})
                    elif r < 0.2:
                        extras.append({"HTTP_IF_NONE_MATCH": '"wzsdm-1600000000.0-3-0"'})
                    for extra in extras:
                        total += 1
                        a = call(old, p, extra)
                        b = call(new, p, extra)
                        if a[0] == "ok" and a[1] and a[1][0][0].startswith(("200", "304")):
                            served += 1
                            if not extra and a[1][0][0].startswith("200"):
                                # replay with the real etag -> exercises 304 branch
                                etag = dict(a[1][0][1]).get("Etag")
                                if etag:
                                    total += 1
                                    a2 = call(old, p, {"HTTP_IF_NONE_MATCH": etag})
                                    b2 = call(new, p, {"HTTP_IF_NONE_MATCH": etag})
                                    if a2 != b2:
                                        bad += 1
                        if a != b:
                            bad += 1
                            if bad < 10:
                                print("MISMATCH call", exports, opts, repr(p), a, b)

        # -- loader-level comparison (directory, package, zip package)
        new = NewSDM(fallback_app, {})
        old = OrigSDM(fallback_app, {})
        loader_args = [None] + [p.lstrip("/") for p in paths[::3]] + paths[::7]
        loader_args += [b"a.txt", 1, ("a",)]
        loader_cfgs = [
            ("dir", (root,), False), ("dir", ("root",), False), ("dir", ("",), False),
            ("dir", (single,), False), ("dir", (os.path.join(root, "sub"),), False),
            ("pkg", ("fspkg", "data"), False), ("pkg", ("fspkg", ""), False),
            ("pkg", ("fspkg", "data/inner"), False), ("pkg", ("zpkg", "data"), True),
            ("pkg", ("zpkg", ""), True),
        ]
        for kind, cargs, is_zip in loader_cfgs:
            meth = "get_directory_loader" if kind == "dir" else "get_package_loader"
            lo = getattr(old, meth)(*cargs)
            ln = getattr(new, meth)(*cargs)
            for arg in loader_args:
                total += 1
                a = run_loader(lo, arg, is_zip)
                b = run_loader(ln, arg, is_zip)
                if a[0] == "ok" and a[2] is not None:
                    served += 1
                    loader_served += 1
                if a != b:
                    bad += 1
                    if bad < 10:
                        print("MISMATCH loader", kind, cargs, repr(arg), a, b)
    finally:
        os.chdir(cwd)
        shutil.rmtree(tmp, ignore_errors=True)

    print("cases:", total, "of which served a file:", served,
          "(loader-level:", loader_served, ") mismatches:", bad)
    print("PASS" if bad == 0 and served > 500 else "FAIL")


if __name__ == "__main__":
    main()
