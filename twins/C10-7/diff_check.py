"""Differential check for refactoring 1 (MultiPartParser.parse: countdown budget +
single next_event call site).

Run: cd /tmp/wt9-C10 && PYTHONPATH=/tmp/wt9-C10/src /venv/bin/python /tmp/twin5-C10/1/diff_check.py
"""
from __future__ import annotations

import io
import random
import typing as t

from werkzeug import formparser
from werkzeug.datastructures import FileStorage
from werkzeug.exceptions import RequestEntityTooLarge
from werkzeug.formparser import _chunk_iter
from werkzeug.formparser import MultiPartParser
from werkzeug.sansio.multipart import Data
from werkzeug.sansio.multipart import Epilogue
from werkzeug.sansio.multipart import Field
from werkzeug.sansio.multipart import File
from werkzeug.sansio.multipart import MultipartDecoder
from werkzeug.sansio.multipart import NeedData


class OriginalMultiPartParser(MultiPartParser):
    # verbatim copy of the ORIGINAL MultiPartParser.parse
    def parse(self, stream, boundary, content_length):
        current_part: Field | File
        field_size: int | None = None
        container: t.IO[bytes] | list[bytes]
        _write: t.Callable[[bytes], t.Any]

        parser = MultipartDecoder(
            boundary,
            max_form_memory_size=self.max_form_memory_size,
            max_parts=self.max_form_parts,
        )

        fields = []
        files = []

        for data in _chunk_iter(stream.read, self.buffer_size):
            parser.receive_data(data)
            event = parser.next_event()
            while not isinstance(event, (Epilogue, NeedData)):
                if isinstance(event, Field):
                    current_part = event
                    field_size = 0
                    container = []
                    _write = container.append
                elif isinstance(event, File):
                    current_part = event
                    field_size = None
                    container = self.start_file_streaming(event, content_length)
                    _write = container.write
                elif isinstance(event, Data):
                    if self.max_form_memory_size is not None and field_size is not None:
                        # Ensure that accumulated data events do not exceed limit.
                        # Also checked within single event in MultipartDecoder.
                        field_size += len(event.data)

                        if field_size > self.max_form_memory_size:
                            raise RequestEntityTooLarge()

                    _write(event.data)
                    if not event.more_data:
                        if isinstance(current_part, Field):
                            value = b"".join(container).decode(
                                self.get_part_charset(current_part.headers), "replace"
                            )
                            fields.append((current_part.name, value))
                        else:
                            container = t.cast(t.IO[bytes], container)
                            container.seek(0)
                            files.append(
                                (
                                    current_part.name,
                                    FileStorage(
                                        container,
                                        current_part.filename,
                                        current_part.name,
                                        headers=current_part.headers,
                                    ),
                                )
                            )

                event = parser.next_event()

        return self.cls(fields), self.cls(files)


class CountingStream:
    def __init__(self, data: bytes, jitter: random.Random | None) -> None:
        self._b = io.BytesIO(data)
        self.reads: list[tuple[int, int]] = []
        self._jitter = jitter

    def read(self, size: int = -1) -> bytes:
        if self._jitter is not None and size > 1:
            size = self._jitter.randint(1, size)
        out = self._b.read(size)
        self.reads.append((size, len(out)))
        return out


def gen_payload(rng: random.Random) -> bytes:
    kind = rng.random()
    if kind < 0.15:
        return rng.randbytes(rng.choice([0, 1, 5, 40, 200]))
    n = rng.choice([0, 1, 2, 3, 10, 50, 300, 2000])
    alphabet = rng.choice([b"a", b"ab\r\n", b"x\n", b"-\r\n-b", bytes(range(256))])
    return bytes(rng.choice(alphabet) for _ in range(n))


def gen_body(rng: random.Random, boundary: bytes) -> bytes:
    out = bytearray()
    if rng.random() < 0.2:
        out += gen_payload(rng)[:30]
    nparts = rng.choice([0, 1, 1, 2, 3, 5, 8])
    for i in range(nparts):
        out += b"\r\n--" + boundary + rng.choice([b"\r\n", b"  \r\n", b"\n"])
        name = rng.choice(["a", "b", "field%d" % i, "", "é"])
        r = rng.random()
        if r < 0.08:
            # no content-disposition -> ValueError
            out += b"X-Foo: bar\r\n"
        else:
            out += ('Content-Disposition: form-data; name="%s"' % name).encode()
            if rng.random() < 0.4:
                out += b'; filename="f%d.txt"' % i
            out += b"\r\n"
            if rng.random() < 0.3:
                out += b"Content-Type: text/plain; charset=%s\r\n" % rng.choice(
                    [b"utf-8", b"iso-8859-1", b"ascii", b"utf-16", b"bogus"]
                )
            if rng.random() < 0.1:
                out += b"Content-Length: %d\r\n" % rng.randint(0, 100)
        out += b"\r\n"
        out += gen_payload(rng)
    r = rng.random()
    if r < 0.75:
        out += b"\r\n--" + boundary + b"--\r\n"
        if rng.random() < 0.2:
            out += gen_payload(rng)[:20]
    elif r < 0.9:
        out += b"\r\n--" + boundary[: rng.randint(0, len(boundary))]
    return bytes(out)


def run(cls, body, boundary, limit, parts, bufsize, content_length, jitter_seed):
    factory_calls = []

    def factory(total_content_length, content_type, filename=None, content_length=None):
        factory_calls.append((total_content_length, content_type, filename, content_length))
        return io.BytesIO()

    jitter = random.Random(jitter_seed) if jitter_seed is not None else None
    stream = CountingStream(body, jitter)
    p = cls(
        stream_factory=factory,
        max_form_memory_size=limit,
        buffer_size=bufsize,
        max_form_parts=parts,
    )
    try:
        form, files = p.parse(stream, boundary, content_length)
    except Exception as e:  # noqa: B902
        res = ("EXC", type(e), str(e))
    else:
        res = (
            "OK",
            type(form),
            list(form.items(multi=True)),
            [
                (k, type(v), v.filename, v.name, list(v.headers), v.stream.read())
                for k, v in files.items(multi=True)
            ],
        )
    return res, stream.reads, factory_calls


def main() -> None:
    assert "field_budget" in open(formparser.__file__).read(), "refactoring not applied"
    rng = random.Random(101010)
    n = 0
    outcomes: dict[str, int] = {}
    mismatches = 0
    for _ in range(6000):
        boundary = rng.choice([b"bound", b"X", b"----WebKitFormBoundaryABC123", b"a-b"])
        body = gen_body(rng, boundary)
        limit = rng.choice([None, None, 0, 1, 2, 3, 5, 10, 49, 50, 51, 100, 299, 300, 301, 1999, 2000, 2500, 10**6])
        parts = rng.choice([None, None, 0, 1, 2, 3, 5, 8, 1000])
        bufsize = rng.choice([1, 2, 3, 7, 16, 64, 1000, 64 * 1024])
        cl = rng.choice([None, len(body), 0, 10**7])
        jitter_seed = rng.choice([None, rng.randint(0, 10**6)])
        a = run(OriginalMultiPartParser, body, boundary, limit, parts, bufsize, cl, jitter_seed)
        b = run(MultiPartParser, body, boundary, limit, parts, bufsize, cl, jitter_seed)
        n += 1
        key = a[0][0] if a[0][0] == "OK" else a[0][1].__name__
        outcomes[key] = outcomes.get(key, 0) + 1
        if a != b:
            mismatches += 1
            if mismatches < 5:
                print("MISMATCH", boundary, body, limit, parts, bufsize, cl, a[0][:2], b[0][:2])
        # pure-guard sanity: success under limits == result without limits
        if a[0][0] == "OK" and (limit is not None or parts is not None):
            c = run(MultiPartParser, body, boundary, None, None, bufsize, cl, jitter_seed)
            if c[0] != b[0]:
                mismatches += 1
                print("GUARD NOT PURE", body, limit, parts)
    print("cases:", n, "outcomes:", outcomes)
    print("PASS" if mismatches == 0 else "FAIL (%d mismatches)" % mismatches)


if __name__ == "__main__":
    main()
