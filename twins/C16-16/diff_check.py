"""Differential check for refactoring 1 (C16).

The on_update callbacks of the header-set properties, cache_control,
content_range and the two CSP properties of sansio.Response had their
if/else branches flipped.  ``OrigResponse`` below carries a pasted copy of
the ORIGINAL property implementations; the same random mutation sequences
are run against it and against the (refactored) ``Response`` from the
worktree, and after every step the full header list, the return value and
the raised exception type are compared.
"""

from __future__ import annotations

import random
import sys

from werkzeug.datastructures import ContentRange
from werkzeug.datastructures import ContentSecurityPolicy
from werkzeug.datastructures import HeaderSet
from werkzeug.datastructures import ResponseCacheControl
from werkzeug.http import dump_header
from werkzeug.http import parse_cache_control_header
from werkzeug.http import parse_content_range_header
from werkzeug.http import parse_csp_header
from werkzeug.http import parse_set_header
from werkzeug.sansio.response import Response


# --------------------------------------------------------------------------
# ORIGINAL implementation (pasted from the unmodified tree)
# --------------------------------------------------------------------------
def _orig_set_property(name, doc=None):
    def fget(self):
        def on_update(header_set):
            if not header_set and name in self.headers:
                del self.headers[name]
            elif header_set:
                self.headers[name] = header_set.to_header()

        return parse_set_header(self.headers.get(name), on_update)

    def fset(self, value):
        if not value:
            del self.headers[name]
        elif isinstance(value, str):
            self.headers[name] = value
        else:
            self.headers[name] = dump_header(value)

    return property(fget, fset, doc=doc)


class OrigResponse(Response):
    vary = _orig_set_property("Vary")
    content_language = _orig_set_property("Content-Language")
    allow = _orig_set_property("Allow")

    @property
    def cache_control(self):
        def on_update(cache_control):
            if not cache_control and "cache-control" in self.headers:
                del self.headers["cache-control"]
            elif cache_control:
                self.headers["Cache-Control"] = cache_control.to_header()

        return parse_cache_control_header(
            self.headers.get("cache-control"), on_update, ResponseCacheControl
        )

    @property
    def content_range(self):
        def on_update(rng):
            if not rng:
                del self.headers["content-range"]
            else:
                self.headers["Content-Range"] = rng.to_header()

        rv = parse_content_range_header(self.headers.get("content-range"), on_update)
        if rv is None:
            rv = ContentRange(None, None, None, on_update=on_update)
        return rv

    @content_range.setter
    def content_range(self, value):
        if not value:
            del self.headers["content-range"]
        elif isinstance(value, str):
            self.headers["Content-Range"] = value
        else:
            self.headers["Content-Range"] = value.to_header()

    @property
    def content_security_policy(self):
        def on_update(csp):
            if not csp:
                del self.headers["content-security-policy"]
            else:
                self.headers["Content-Security-Policy"] = csp.to_header()

        rv = parse_csp_header(self.headers.get("content-security-policy"), on_update)
        if rv is None:
            rv = ContentSecurityPolicy(None, on_update=on_update)
        return rv

    @content_security_policy.setter
    def content_security_policy(self, value):
        if not value:
            del self.headers["content-security-policy"]
        elif isinstance(value, str):
            self.headers["Content-Security-Policy"] = value
        else:
            self.headers["Content-Security-Policy"] = value.to_header()

    @property
    def content_security_policy_report_only(self):
        def on_update(csp):
            if not csp:
                del self.headers["content-security-policy-report-only"]
            else:
                self.headers["Content-Security-policy-report-only"] = csp.to_header()

        rv = parse_csp_header(
            self.headers.get("content-security-policy-report-only"), on_update
        )
        if rv is None:
            rv = ContentSecurityPolicy(None, on_update=on_update)
        return rv

    @content_security_policy_report_only.setter
    def content_security_policy_report_only(self, value):
        if not value:
            del self.headers["content-security-policy-report-only"]
        elif isinstance(value, str):
            self.headers["Content-Security-policy-report-only"] = value
        else:
            self.headers["Content-Security-policy-report-only"] = value.to_header()


# --------------------------------------------------------------------------
# random operation generation
# --------------------------------------------------------------------------
TOKENS = [
    "Cookie", "cookie", "Accept", "accept-encoding", "GET", "get", "POST",
    "en", "EN", "de-CH", "x y", 'q"uote', "a,b", "", "*", "ümlaut", "Foo", "foo",
]  # fmt: skip
SET_PROPS = ["vary", "allow", "content_language"]
SET_HEADER_TEXT = [
    "", "a", "a, b", "A, a", '"x y", z', ",", " , ,", "foo,,bar", '"unterminated',
    "Cookie, Accept", "ä, b",
]  # fmt: skip
CC_KEYS = [
    "no-cache", "no-store", "max-age", "private", "public", "s-maxage",
    "must-revalidate", "immutable", "x-ext", "stale-if-error",
]  # fmt: skip
CC_ATTRS = [
    "no_cache", "no_store", "max_age", "private", "public", "s_maxage",
    "must_revalidate", "immutable", "no_transform", "proxy_revalidate",
    "stale_while_revalidate", "stale_if_error", "must_understand",
]  # fmt: skip
CC_VALUES = [None, True, False, 0, 1, 3600, -1, "10", "abc", "", "*", "a b", 1.5]
CC_HEADER_TEXT = [
    "", "no-cache", "max-age=10", "max-age=abc, private", 'private="x, y"', ",",
    "public, max-age=0", "=", "a=b=c", "no-store,,", "MAX-AGE=5",
]  # fmt: skip
CR_INTS = [None, 0, 1, 5, 10, 100, -1]
CR_UNITS = [None, "bytes", "items", ""]
CR_HEADER_TEXT = [
    "", "bytes 0-9/100", "bytes */100", "bytes 0-9/*", "bytes 5-1/10", "junk",
    "items 1-2/3", "bytes */*", "bytes 0-0/1", " bytes 0-1/2", "bytes -1-2/3",
    "bytes 0-99/50",
]  # fmt: skip
CSP_KEYS = ["default-src", "script-src", "img-src", "x-custom", "sandbox", ""]
CSP_ATTRS = ["default_src", "script_src", "img_src", "sandbox", "report_uri"]
CSP_VALUES = [None, "'self'", "*", "", "a b", "https://x.example; evil", "ü"]
CSP_HEADER_TEXT = [
    "", "default-src 'self'", "default-src 'self'; img-src *", ";", "sandbox",
    "a b; c d; a e", " ; x y",
]  # fmt: skip
CSP_PROPS = ["content_security_policy", "content_security_policy_report_only"]
RAW_NAMES = [
    "Vary", "vary", "ALLOW", "Content-Language", "Cache-Control", "cache-control",
    "Content-Range", "content-range", "Content-Security-Policy",
    "content-security-policy-report-only",
]  # fmt: skip


def gen_op(rnd):
    kind = rnd.choice(
        ["set", "set", "cc", "cc", "cr", "cr", "csp", "csp", "raw", "assign"]
    )
    if kind == "set":
        prop = rnd.choice(SET_PROPS)
        m = rnd.choice(
            ["add", "remove", "discard", "update", "clear", "delitem", "setitem",
             "read", "two_views"]
        )  # fmt: skip
        if m in ("add", "remove", "discard"):
            args = (rnd.choice(TOKENS),)
        elif m == "update":
            args = ([rnd.choice(TOKENS) for _ in range(rnd.randint(0, 3))],)
        elif m == "delitem":
            args = (rnd.randint(-3, 3),)
        elif m == "setitem":
            args = (rnd.randint(-3, 3), rnd.choice(TOKENS))
        elif m == "two_views":
            args = (rnd.choice(TOKENS), rnd.choice(TOKENS))
        else:
            args = ()
        return ("set", prop, m, args)
    if kind == "cc":
        m = rnd.choice(
            ["setattr", "setattr", "delattr", "setitem", "delitem", "pop", "clear",
             "update", "setdefault", "popitem", "read", "ior"]
        )  # fmt: skip
        if m == "setattr":
            args = (rnd.choice(CC_ATTRS), rnd.choice(CC_VALUES))
        elif m == "delattr":
            args = (rnd.choice(CC_ATTRS),)
        elif m in ("setitem", "setdefault"):
            args = (rnd.choice(CC_KEYS), rnd.choice([None, "1", "x y", ""]))
        elif m in ("delitem", "pop"):
            args = (rnd.choice(CC_KEYS),)
        elif m in ("update", "ior"):
            args = (
                {
                    rnd.choice(CC_KEYS): rnd.choice([None, "1", "z"])
                    for _ in range(rnd.randint(0, 2))
                },
            )
        else:
            args = ()
        return ("cc", m, args)
    if kind == "cr":
        m = rnd.choice(["set", "set", "unset", "attr", "attr", "read"])
        if m == "set":
            args = (
                rnd.choice(CR_INTS), rnd.choice(CR_INTS), rnd.choice(CR_INTS),
                rnd.choice(CR_UNITS),
            )  # fmt: skip
        elif m == "attr":
            name = rnd.choice(["units", "start", "stop", "length"])
            val = rnd.choice(CR_UNITS if name == "units" else CR_INTS)
            args = (name, val)
        else:
            args = ()
        return ("cr", m, args)
    if kind == "csp":
        prop = rnd.choice(CSP_PROPS)
        m = rnd.choice(
            ["setattr", "setattr", "delattr", "setitem", "delitem", "pop", "clear",
             "update", "setdefault", "popitem", "read"]
        )  # fmt: skip
        if m == "setattr":
            args = (rnd.choice(CSP_ATTRS), rnd.choice(CSP_VALUES))
        elif m == "delattr":
            args = (rnd.choice(CSP_ATTRS),)
        elif m in ("setitem", "setdefault"):
            args = (rnd.choice(CSP_KEYS), rnd.choice(CSP_VALUES[1:]))
        elif m in ("delitem", "pop"):
            args = (rnd.choice(CSP_KEYS),)
        elif m == "update":
            args = (
                {
                    rnd.choice(CSP_KEYS): rnd.choice(CSP_VALUES[1:])
                    for _ in range(rnd.randint(0, 2))
                },
            )
        else:
            args = ()
        return ("csp", prop, m, args)
    if kind == "raw":
        name = rnd.choice(RAW_NAMES)
        low = name.lower()
        if low in ("vary", "allow", "content-language"):
            pool = SET_HEADER_TEXT
        elif low == "cache-control":
            pool = CC_HEADER_TEXT
        elif low == "content-range":
            pool = CR_HEADER_TEXT
        else:
            pool = CSP_HEADER_TEXT
        m = rnd.choice(["set", "set", "del", "add"])
        return ("raw", m, name, rnd.choice(pool))
    # assign through the property setter
    which = rnd.choice(["set", "cr", "csp"])
    if which == "set":
        return (
            "assign",
            rnd.choice(SET_PROPS),
            rnd.choice(
                [None, "", "a, b", ["x", "Y"], [], ("q r",), {"k": "v"}, HeaderSet(["m"])]
            ),
        )
    if which == "cr":
        return (
            "assign",
            "content_range",
            rnd.choice(
                [None, "", "bytes 0-1/2", "junk", ("CR", 0, 5, 10), ("CR", None, None, None)]
            ),
        )
    return (
        "assign",
        rnd.choice(CSP_PROPS),
        rnd.choice([None, "", "img-src *", ("CSP", {"a": "b"}), ("CSP", {})]),
    )


def materialise(value):
    if isinstance(value, tuple) and value and value[0] == "CR":
        return ContentRange(*value[1:])
    if isinstance(value, tuple) and value and value[0] == "CSP":
        return ContentSecurityPolicy(value[1])
    return value


def snapshot_view(v):
    if isinstance(v, HeaderSet):
        return ("HS", list(v), sorted(v.as_set()), v.to_header(), bool(v))
    if isinstance(v, ContentRange):
        return ("CR", v.units, v.start, v.stop, v.length, bool(v))
    if isinstance(v, dict):
        return (type(v).__name__, list(v.items()), getattr(v, "provided", None))
    return v


def apply_op(resp, op):
    try:
        if op[0] == "set":
            _, prop, m, args = op
            view = getattr(resp, prop)
            if m == "read":
                rv = None
            elif m == "delitem":
                del view[args[0]]
                rv = None
            elif m == "setitem":
                view[args[0]] = args[1]
                rv = None
            elif m == "two_views":
                other = getattr(resp, prop)
                view.add(args[0])
                other.discard(args[1])
                rv = snapshot_view(other)
            else:
                rv = getattr(view, m)(*args)
            return ("ok", rv, snapshot_view(view))
        if op[0] in ("cc", "csp"):
            if op[0] == "cc":
                _, m, args = op
                view = resp.cache_control
            else:
                _, prop, m, args = op
                view = getattr(resp, prop)
            if m == "read":
                rv = None
            elif m == "setattr":
                setattr(view, *args)
                rv = getattr(view, args[0])
            elif m == "delattr":
                delattr(view, args[0])
                rv = None
            elif m == "setitem":
                view[args[0]] = args[1]
                rv = None
            elif m == "delitem":
                del view[args[0]]
                rv = None
            elif m == "ior":
                view |= args[0]
                rv = None
            else:
                rv = getattr(view, m)(*args)
            return ("ok", rv, snapshot_view(view))
        if op[0] == "cr":
            _, m, args = op
            view = resp.content_range
            if m == "read":
                pass
            elif m == "set":
                view.set(*args)
            elif m == "unset":
                view.unset()
            else:
                setattr(view, *args)
            return ("ok", None, snapshot_view(view))
        if op[0] == "raw":
            _, m, name, text = op
            if m == "set":
                resp.headers[name] = text
            elif m == "add":
                resp.headers.add(name, text)
            else:
                del resp.headers[name]
            return ("ok", None, None)
        _, prop, value = op
        setattr(resp, prop, materialise(value))
        return ("ok", None, snapshot_view(getattr(resp, prop)))
    except Exception as e:  # noqa: BLE001
        return ("exc", type(e).__name__, str(e))


def observe(resp):
    out = [list(resp.headers)]
    for prop in SET_PROPS + ["cache_control", "content_range"] + CSP_PROPS:
        try:
            out.append(snapshot_view(getattr(resp, prop)))
        except Exception as e:  # noqa: BLE001
            out.append(("exc", type(e).__name__))
    return out


def main():
    rnd = random.Random(160801)
    n_seq = 3000
    n_steps = 0
    for seq in range(n_seq):
        new = Response()
        old = OrigResponse()
        for _ in range(rnd.randint(1, 12)):
            op = gen_op(rnd)
            r_new = apply_op(new, op)
            r_old = apply_op(old, op)
            o_new = observe(new)
            o_old = observe(old)
            n_steps += 1
            if r_new != r_old or o_new != o_old:
                print("FAIL at sequence", seq, "op", op)
                print(" new:", r_new, o_new)
                print(" old:", r_old, o_old)
                return 1
    print(f"checked {n_seq} sequences / {n_steps} steps")
    print("PASS")
    return 0


if __name__ == "__main__":
    sys.exit(main())
