"""Differential check for refactoring 3 (C16):
auth.WWWAuthenticate.__setitem__/__delitem__/__setattr__ and
mixins.UpdateDictMixin.setdefault/pop.

The refactored classes (worktree) are compared with pasted copies of the
ORIGINAL implementations on random mutation sequences:
  (a) CallbackDict standalone (on_update call log, return values, exceptions),
  (b) WWWAuthenticate standalone (call log, header text, parameters),
  (c) through Response.www_authenticate and Response.mimetype_params
      (the original classes are swapped into werkzeug.sansio.response).

Run: cd /tmp/wt3-C16 && PYTHONPATH=/tmp/wt3-C16/src /venv/bin/python /tmp/twin-C16/3/diff_check.py
"""
from __future__ import annotations

import random
import typing as t
from functools import update_wrapper

import werkzeug.sansio.response as resp_mod
from werkzeug._internal import _missing
from werkzeug.datastructures import CallbackDict as NewCallbackDict
from werkzeug.datastructures import WWWAuthenticate as NewWWWAuthenticate
from werkzeug.http import dump_header
from werkzeug.http import parse_dict_header
from werkzeug.http import quote_header_value
from werkzeug.sansio.response import Response


# ---------------------------------------------------------------- ORIGINAL
def _always_update(f):
    def wrapper(self, /, *args, **kwargs):
        rv = f(self, *args, **kwargs)

        if self.on_update is not None:
            self.on_update(self)

        return rv

    return update_wrapper(wrapper, f)


class OrigUpdateDictMixin(dict):
    on_update = None

    def setdefault(self, key, default=None):
        modified = key not in self
        rv = super().setdefault(key, default)
        if modified and self.on_update is not None:
            self.on_update(self)
        return rv

    def pop(self, key, default=_missing):
        modified = key in self
        if default is _missing:
            rv = super().pop(key)
        else:
            rv = super().pop(key, default)
        if modified and self.on_update is not None:
            self.on_update(self)
        return rv

    @_always_update
    def __setitem__(self, key, value) -> None:
        super().__setitem__(key, value)

    @_always_update
    def __delitem__(self, key) -> None:
        super().__delitem__(key)

    @_always_update
    def clear(self) -> None:
        super().clear()

    @_always_update
    def popitem(self):
        return super().popitem()

    @_always_update
    def update(self, arg=None, /, **kwargs) -> None:
        if arg is None:
            super().update(**kwargs)
        else:
            super().update(arg, **kwargs)

    @_always_update
    def __ior__(self, other):
        return super().__ior__(other)


class OrigCallbackDict(OrigUpdateDictMixin, dict):
    def __init__(self, initial=None, on_update=None) -> None:
        if initial is None:
            super().__init__()
        else:
            super().__init__(initial)

        self.on_update = on_update

    def __repr__(self) -> str:
        return f"<CallbackDict {dict.__repr__(self)}>"


class OrigWWWAuthenticate:
    def __init__(self, auth_type, values=None, token=None):
        self._type = auth_type.lower()
        self._parameters = OrigCallbackDict(values, lambda _: self._trigger_on_update())
        self._token = token
        self._on_update = None

    def _trigger_on_update(self) -> None:
        if self._on_update is not None:
            self._on_update(self)

    @property
    def type(self) -> str:
        return self._type

    @type.setter
    def type(self, value: str) -> None:
        self._type = value.lower()
        self._trigger_on_update()

    @property
    def parameters(self):
        return self._parameters

    @parameters.setter
    def parameters(self, value) -> None:
        self._parameters = OrigCallbackDict(value, lambda _: self._trigger_on_update())
        self._trigger_on_update()

    @property
    def token(self):
        return self._token

    @token.setter
    def token(self, value) -> None:
        self._token = value
        self._trigger_on_update()

    def __getitem__(self, key):
        return self.parameters.get(key)

    def __setitem__(self, key, value) -> None:
        if value is None:
            if key in self.parameters:
                del self.parameters[key]
        else:
            self.parameters[key] = value

        self._trigger_on_update()

    def __delitem__(self, key) -> None:
        if key in self.parameters:
            del self.parameters[key]
            self._trigger_on_update()

    def __getattr__(self, name):
        return self[name]

    def __setattr__(self, name, value) -> None:
        if name in {
            "type",
            "parameters",
            "token",
            "_type",
            "_parameters",
            "_token",
            "_on_update",
        }:
            super().__setattr__(name, value)
        else:
            self[name] = value

    def __delattr__(self, name) -> None:
        del self[name]

    def __contains__(self, key) -> bool:
        return key in self.parameters

    def __eq__(self, other):
        if not isinstance(other, OrigWWWAuthenticate):
            return NotImplemented

        return (
            other.type == self.type
            and other.token == self.token
            and other.parameters == self.parameters
        )

    def get(self, key, default=None):
        return self.parameters.get(key, default)

    @classmethod
    def from_header(cls, value):
        if not value:
            return None

        scheme, _, rest = value.partition(" ")
        scheme = scheme.lower()
        rest = rest.strip()

        if "=" in rest.rstrip("="):
            return cls(scheme, parse_dict_header(rest), None)

        return cls(scheme, None, rest)

    def to_header(self) -> str:
        if self.token is not None:
            return f"{self.type.title()} {self.token}"

        if self.type == "digest":
            items = []

            for key, value in self.parameters.items():
                if key in {"realm", "domain", "nonce", "opaque", "qop"}:
                    value = quote_header_value(value, allow_token=False)
                else:
                    value = quote_header_value(value)

                items.append(f"{key}={value}")

            return f"Digest {', '.join(items)}"

        return f"{self.type.title()} {dump_header(self.parameters)}"

    def __str__(self) -> str:
        return self.to_header()

    def __repr__(self) -> str:
        return f"<WWWAuthenticate {self.to_header()}>"


# ------------------------------------------------------------- GENERATORS
KEYS = ["realm", "nonce", "qop", "charset", "x", "a b", "", "type", "token",
        "parameters", "_type", "_token", "_on_update", "boundary", "stale"]
PLAIN_KEYS = ["realm", "nonce", "qop", "charset", "x", "a b", "", "boundary", "stale"]
VALUES = [None, None, "v", "a b", 'q"x', "", "utf-8", "AUTH", 0, 5, True, _missing]
UNHASHABLE = [[], {}]


def gen_dict_op(r: random.Random) -> tuple:
    m = r.choice(["setdefault", "setdefault", "setdefault0", "pop", "pop", "pop_d", "pop_d",
                  "setitem", "delitem", "clear", "popitem", "update", "ior", "get", "setcb"])
    key: t.Any = r.choice(PLAIN_KEYS)
    if r.random() < 0.03:
        key = r.choice(UNHASHABLE)
    return (m, key, r.choice(VALUES))


def apply_dict(d, op, rec):
    m, key, val = op
    if m == "setdefault":
        return d.setdefault(key, val)
    if m == "setdefault0":
        return d.setdefault(key)
    if m == "pop":
        return d.pop(key)
    if m == "pop_d":
        return d.pop(key, val)
    if m == "setitem":
        d[key] = val
        return None
    if m == "delitem":
        del d[key]
        return None
    if m == "clear":
        return d.clear()
    if m == "popitem":
        return d.popitem()
    if m == "update":
        return d.update({key: val}) if val is not None else d.update()
    if m == "ior":
        d |= {key: val}
        return None
    if m == "get":
        return d.get(key, val)
    if m == "setcb":
        d.on_update = None if val is None else rec
        return None
    raise AssertionError(op)


def run_dict(cls, initial, ops, with_cb):
    calls: list = []

    def rec(x):
        assert x is d
        calls.append(sorted(dict.items(x), key=repr))

    d = cls(initial, rec if with_cb else None)
    trace = []
    for op in ops:
        try:
            res = ("ok", repr(apply_dict(d, op, rec)))
        except Exception as e:  # noqa: BLE001
            res = ("exc", type(e).__name__, str(e))
        trace.append((res, list(dict.items(d)), list(calls)))
    return trace


def gen_auth_op(r: random.Random) -> tuple:
    m = r.choice(["setitem", "setitem", "delitem", "delitem", "setattr", "setattr", "setattr",
                  "delattr", "getattr", "getitem", "contains", "p_setitem", "p_pop",
                  "p_setdefault", "p_clear", "set_params", "set_type", "set_token", "rawsetattr"])
    key: t.Any = r.choice(KEYS)
    if m == "rawsetattr" and r.random() < 0.3:
        key = r.choice(UNHASHABLE + [5])
    return (m, key, r.choice(VALUES))


def apply_auth(a, op):
    m, key, val = op
    if m == "setitem":
        a[key] = val
        return None
    if m == "delitem":
        del a[key]
        return None
    if m == "setattr":
        if key in ("_on_update", "parameters", "_parameters"):
            return None  # keep the harness callback / dict type intact
        if key in ("type", "_type") and not isinstance(val, str):
            val = "digest"
        if val is _missing:
            val = "m"
        setattr(a, key, val)
        return None
    if m == "rawsetattr":
        if key in ("_on_update", "parameters", "_parameters", "type", "_type"):
            return None
        return a.__setattr__(key, "raw" if val is _missing else val)
    if m == "delattr":
        delattr(a, key)
        return None
    if m == "getattr":
        return getattr(a, key) if key not in ("_on_update", "parameters", "_parameters") else None
    if m == "getitem":
        return a[key]
    if m == "contains":
        return key in a
    if m == "p_setitem":
        a.parameters[key] = val
        return None
    if m == "p_pop":
        return a.parameters.pop(key, None)
    if m == "p_setdefault":
        return a.parameters.setdefault(key, val)
    if m == "p_clear":
        return a.parameters.clear()
    if m == "set_params":
        a.parameters = {} if val is None else {key: "p"}
        return None
    if m == "set_type":
        a.type = "Digest" if val is None else "Basic"
        return None
    if m == "set_token":
        a.token = val if (val is None or isinstance(val, str)) else "tok"
        return None
    raise AssertionError(op)


def auth_state(a):
    try:
        hdr = a.to_header()
    except Exception as e:  # noqa: BLE001
        hdr = type(e).__name__
    return (a._type, a._token, list(dict.items(a._parameters)), hdr,
            sorted(k for k in a.__dict__))


AUTH_INITIAL = [
    ("basic", None, None),
    ("Digest", {"realm": "r", "nonce": "n", "qop": "auth"}, None),
    ("bearer", None, "abc="),
    ("basic", {"realm": "x y", "charset": "UTF-8"}, None),
    ("custom", {}, ""),
]


def run_auth(cls, initial, ops, with_cb):
    calls: list = []
    a = cls(initial[0], None if initial[1] is None else dict(initial[1]), initial[2])
    if with_cb:
        def rec(x):
            assert x is a
            calls.append(auth_state(x)[:4])
        a._on_update = rec
    trace = []
    for op in ops:
        try:
            res = ("ok", repr(apply_auth(a, op)))
        except Exception as e:  # noqa: BLE001
            res = ("exc", type(e).__name__, str(e))
        trace.append((res, auth_state(a), list(calls)))
    return trace


HEADER_INITIAL = [
    [],
    [("WWW-Authenticate", 'Basic realm="r"')],
    [("www-authenticate", 'Digest realm="r", nonce="n", qop="auth"'), ("Content-Type", "text/html; charset=utf-8")],
    [("WWW-Authenticate", "Bearer abc="), ("WWW-Authenticate", 'Basic realm="second"'),
     ("Content-Type", 'multipart/x; boundary="a b"; x=1')],
    [("WWW-Authenticate", ""), ("Content-Type", "")],
]


def gen_resp_op(r: random.Random) -> tuple:
    k = r.choice(["auth", "auth", "mt", "mt", "assign", "del"])
    fresh = r.random() < 0.4
    if k == "auth":
        return (k, fresh, gen_auth_op(r))
    if k == "mt":
        op = gen_dict_op(r)
        while op[0] == "setcb" or op[2] is _missing or not (op[2] is None or isinstance(op[2], str)):
            op = gen_dict_op(r)
        return (k, fresh, op)
    if k == "assign":
        return (k, fresh, r.choice(["none", "one", "list", "empty"]))
    return (k, fresh, None)


def run_resp(auth_cls, dict_cls, initial, ops):
    saved = (resp_mod.WWWAuthenticate, resp_mod.CallbackDict)
    resp_mod.WWWAuthenticate, resp_mod.CallbackDict = auth_cls, dict_cls
    try:
        resp = Response()
        for k in [k for k, _ in list(resp.headers)]:
            del resp.headers[k]
        for k, v in initial:
            resp.headers.add(k, v)
        views: dict[str, t.Any] = {}
        trace = []
        for k, fresh, op in ops:
            try:
                if k == "auth":
                    if fresh or "a" not in views:
                        views["a"] = resp.www_authenticate
                        assert type(views["a"]) is auth_cls
                    res = ("ok", repr(apply_auth_resp(views["a"], op)))
                elif k == "mt":
                    if fresh or "m" not in views:
                        views["m"] = resp.mimetype_params
                        assert type(views["m"]) is dict_cls
                    res = ("ok", repr(apply_dict(views["m"], op, None)))
                elif k == "assign":
                    if op == "none":
                        resp.www_authenticate = None
                    elif op == "empty":
                        resp.www_authenticate = []
                    elif op == "one":
                        views["a"] = auth_cls("digest", {"realm": "new", "nonce": "z"})
                        resp.www_authenticate = views["a"]
                    else:
                        resp.www_authenticate = [auth_cls("bearer", None, "t"), auth_cls("basic", {"realm": "l"})]
                    res = ("ok", None)
                else:
                    del resp.www_authenticate
                    res = ("ok", None)
            except Exception as e:  # noqa: BLE001
                res = ("exc", type(e).__name__, str(e))
            snap: list = [list(resp.headers)]
            try:
                snap.append(auth_state(resp.www_authenticate)[:4])
            except Exception as e:  # noqa: BLE001
                snap.append(type(e).__name__)
            try:
                snap.append(list(dict.items(resp.mimetype_params)))
            except Exception as e:  # noqa: BLE001
                snap.append(type(e).__name__)
            if "a" in views:
                snap.append(auth_state(views["a"])[:4])
            if "m" in views:
                snap.append(list(dict.items(views["m"])))
            trace.append((res, snap))
        return trace
    finally:
        resp_mod.WWWAuthenticate, resp_mod.CallbackDict = saved


def apply_auth_resp(a, op):
    # the response installs its own _on_update; never overwrite it from the harness
    return apply_auth(a, op)


def first_diff(a, b, ops):
    for j, (x, y) in enumerate(zip(a, b)):
        if x != y:
            print("  step", j, ops[j])
            print("   new :", x)
            print("   orig:", y)
            return


def main() -> None:
    r = random.Random(1603)
    steps = 0
    n1 = 3000
    for i in range(n1):
        initial = {r.choice(PLAIN_KEYS): r.choice(["v", "w", None]) for _ in range(r.randint(0, 4))}
        init_arg: t.Any = r.choice([initial, list(initial.items()), None]) if r.random() < 0.5 else initial
        ops = [gen_dict_op(r) for _ in range(r.randint(1, 15))]
        with_cb = r.random() < 0.8
        a = run_dict(NewCallbackDict, init_arg, ops, with_cb)
        b = run_dict(OrigCallbackDict, init_arg, ops, with_cb)
        steps += len(ops)
        if a != b:
            print("FAIL dict seq", i, init_arg)
            first_diff(a, b, ops)
            raise SystemExit(1)
    n2 = 3000
    for i in range(n2):
        initial = r.choice(AUTH_INITIAL)
        ops = [gen_auth_op(r) for _ in range(r.randint(1, 15))]
        with_cb = r.random() < 0.8
        a = run_auth(NewWWWAuthenticate, initial, ops, with_cb)
        b = run_auth(OrigWWWAuthenticate, initial, ops, with_cb)
        steps += len(ops)
        if a != b:
            print("FAIL auth seq", i, initial)
            first_diff(a, b, ops)
            raise SystemExit(1)
    n3 = 2000
    for i in range(n3):
        initial = r.choice(HEADER_INITIAL)
        ops = [gen_resp_op(r) for _ in range(r.randint(1, 12))]
        a = run_resp(NewWWWAuthenticate, NewCallbackDict, initial, ops)
        b = run_resp(OrigWWWAuthenticate, OrigCallbackDict, initial, ops)
        steps += len(ops)
        if a != b:
            print("FAIL response seq", i, initial)
            first_diff(a, b, ops)
            raise SystemExit(1)
    assert resp_mod.WWWAuthenticate is NewWWWAuthenticate
    assert resp_mod.CallbackDict is NewCallbackDict
    print(f"PASS ({n1} dict + {n2} auth + {n3} response sequences, {steps} mutation steps; "
          "return values, exception types/messages, states, header text and on_update call logs identical)")


if __name__ == "__main__":
    main()
