# ---- shared input generation / driving helpers (copied into each diff_check) ----
import random

BOUNDARIES = [b"boundary", b"----WebKitFormBoundary7MA4YWxk", b"a", b"XX", b"b.c+d", b"--x--", b"foo-bar_1"]
LBS = [b"\r\n", b"\n", b"\r"]


def rand_payload(rng, boundary, lb):
    frags = [
        b"\r", b"\n", b"\r\n", b"-", b"--", b"a", b"xyz", b" ", b"\t", b"\x00", b"\xff\xfe",
        b"--" + boundary, lb + b"--" + boundary, lb + b"--" + boundary[:-1],
        lb + b"--" + boundary[: max(1, len(boundary) // 2)], b"\n--", b"\r\n-", b"\r\n--",
        boundary, b"--" + boundary + b"--", b"--" + boundary + b"x" + lb,
        b"\n\n", b"\r\r", b"hello world", b"0123456789" * 3,
    ]
    n = rng.choice([0, 0, 1, 2, 3, 5, 8, 12, 20, 40])
    out = b"".join(rng.choice(frags) for _ in range(n))
    if rng.random() < 0.1:
        out += bytes(rng.randrange(256) for _ in range(rng.randrange(0, 300)))
    if rng.random() < 0.05:
        out += b"z" * rng.randrange(500, 3000)
    return out


def rand_headers(rng, lb, idx):
    lines = []
    r = rng.random()
    name = rng.choice(["a", "field%d" % idx, "fü", "file", ""])
    if r < 0.08:
        pass  # missing content-disposition
    elif r < 0.55:
        lines.append(b'Content-Disposition: form-data; name="%s"' % name.encode())
    else:
        fn = rng.choice(["x.txt", "", "a b.bin", "tést.png"])
        lines.append(
            b'Content-Disposition: form-data; name="%s"; filename="%s"'
            % (name.encode(), fn.encode())
        )
    if rng.random() < 0.4:
        lines.append(b"Content-Type: " + rng.choice([b"text/plain", b"text/plain; charset=latin-1", b"application/octet-stream", b"text/plain; charset=bogus"]))
    if rng.random() < 0.15:
        lines.append(b"X-Long: part1" + lb + rng.choice([b" ", b"\t"]) + b"part2")
    if rng.random() < 0.1:
        lines.append(b"Content-Length: " + rng.choice([b"5", b"abc", b"-1"]))
    if rng.random() < 0.03:
        lines.append(b"X-Bad: \xff\xfe")
    if rng.random() < 0.05:
        lines.append(b"NoColonHeader")
    rng.shuffle(lines)
    return lines


def rand_body(rng):
    boundary = rng.choice(BOUNDARIES)
    lb = rng.choice(LBS)
    mix = rng.random() < 0.2
    def L():
        return rng.choice(LBS) if mix else lb
    out = bytearray()
    if rng.random() < 0.3:
        out += rng.choice([b"preamble", b"\r\n", b"pre\r\n--nope", b"x" * 50, b"--", b"-" * 20])
        if rng.random() < 0.7:
            out += L()
    elif rng.random() < 0.3:
        out += L()
    nparts = rng.choice([0, 1, 1, 2, 2, 3, 4])
    for i in range(nparts):
        out += b"--" + boundary
        if rng.random() < 0.1:
            out += rng.choice([b" ", b"\t", b"  "])
        out += L()
        for h in rand_headers(rng, L(), i):
            out += h + L()
        # blank line
        if rng.random() < 0.95:
            out += L()
        out += rand_payload(rng, boundary, lb)
        out += L()
    r = rng.random()
    if r < 0.85:
        out += b"--" + boundary + b"--"
        if rng.random() < 0.2:
            out += b" \t"
        if rng.random() < 0.8:
            out += L()
        if rng.random() < 0.3:
            out += rng.choice([b"epilogue", b"\r\n\r\n", b"--" + boundary, b"x" * 30])
    elif r < 0.93:
        pass  # no terminator
    else:
        out += b"--" + boundary  # dangling
    body = bytes(out)
    r = rng.random()
    if r < 0.08 and body:
        body = body[: rng.randrange(len(body))]  # truncated
    elif r < 0.16 and body:
        b = bytearray(body)
        for _ in range(rng.randrange(1, 4)):
            b[rng.randrange(len(b))] = rng.choice(b"\r\n-a \x00")
        body = bytes(b)
    elif r < 0.2:
        body = bytes(rng.randrange(256) for _ in range(rng.randrange(0, 200)))
    return boundary, body


def rand_chunks(rng, body):
    mode = rng.random()
    if mode < 0.15:
        return [body] if body else []
    if mode < 0.4:
        k = rng.choice([1, 1, 2, 3, 5, 7, 16, 64])
        return [body[i : i + k] for i in range(0, len(body), k)]
    chunks = []
    i = 0
    while i < len(body):
        k = rng.choice([1, 1, 2, 3, 4, 9, 17, 33, 100, 1000])
        k = rng.randrange(1, k + 1)
        chunks.append(body[i : i + k])
        i += k
    return chunks

# ---- ORIGINAL implementation (pasted from the unmodified tree) ----
import typing as t

from werkzeug.sansio import multipart as M
from werkzeug.sansio.multipart import LINE_BREAK_RE
from werkzeug.sansio.multipart import MultipartDecoder
from werkzeug.sansio.multipart import State


class OrigDecoder(MultipartDecoder):
    def last_newline(self, data: bytes) -> int:
        try:
            last_nl = data.rindex(b"\n")
        except ValueError:
            last_nl = len(data)
        try:
            last_cr = data.rindex(b"\r")
        except ValueError:
            last_cr = len(data)

        return min(last_nl, last_cr)

    def _parse_data(self, data: bytes, *, start: bool) -> tuple[bytes, int, bool]:
        # Body parts must start with CRLF (or CR or LF)
        if start:
            match = LINE_BREAK_RE.match(data)
            data_start = t.cast(t.Match[bytes], match).end()
        else:
            data_start = 0

        boundary = b"--" + self.boundary

        if self.buffer.find(boundary) == -1:
            # No complete boundary in the buffer, but there may be
            # a partial boundary at the end. As the boundary
            # starts with either a nl or cr find the earliest and
            # return up to that as data.
            data_end = del_index = self.last_newline(data[data_start:]) + data_start
            # If amount of data after last newline is far from
            # possible length of partial boundary, we should
            # assume that there is no partial boundary in the buffer
            # and return all pending data.
            if (len(data) - data_end) > len(b"\n" + boundary):
                data_end = del_index = len(data)
            more_data = True
        else:
            match = self.boundary_re.search(data)
            if match is not None:
                if match.group(1).startswith(b"--"):
                    self.state = State.EPILOGUE
                else:
                    self.state = State.PART
                data_end = match.start()
                del_index = match.end()
            else:
                data_end = del_index = self.last_newline(data[data_start:]) + data_start
            more_data = match is None

        return bytes(data[data_start:data_end]), del_index, more_data


def snapshot(d):
    return (d.state, bytes(d.buffer), d._search_position, d._parts_decoded, d.complete)


def drive(cls, boundary, chunks, mfms, max_parts):
    """Feed chunks, draining events after each; record everything observable."""
    d = cls(boundary, max_form_memory_size=mfms, max_parts=max_parts)
    log = []
    for chunk in list(chunks) + [None]:
        try:
            d.receive_data(chunk)
        except Exception as e:
            log.append(("recv-exc", type(e), str(e)))
            break
        stop = False
        while True:
            try:
                ev = d.next_event()
            except Exception as e:
                log.append(("exc", type(e), str(e), snapshot(d)))
                stop = True
                break
            log.append((type(ev), repr(ev), snapshot(d)))
            if isinstance(ev, (M.NeedData, M.Epilogue)):
                break
        if stop:
            break
    return log


def call(f, *a, **k):
    try:
        return ("ok", f(*a, **k))
    except Exception as e:
        return ("exc", type(e), str(e))


def main():
    rng = random.Random(20240801)
    n = 0
    fails = 0
    # 1. whole-decoder runs over generated bodies with random chunkings
    for i in range(6000):
        boundary, body = rand_body(rng)
        mfms = rng.choice([None, None, None, 10, 50, 400])
        mp = rng.choice([None, None, 1, 2])
        for _ in range(2):
            chunks = rand_chunks(rng, body)
            a = drive(OrigDecoder, boundary, chunks, mfms, mp)
            b = drive(MultipartDecoder, boundary, chunks, mfms, mp)
            n += 1
            if a != b:
                fails += 1
                if fails < 5:
                    print("MISMATCH decoder", boundary, body, chunks, mfms, mp)
    # 2. direct calls to last_newline / _parse_data on arbitrary buffers
    for i in range(20000):
        boundary = rng.choice(BOUNDARIES)
        lb = rng.choice(LBS)
        buf = rand_payload(rng, boundary, lb)
        if rng.random() < 0.5:
            buf = rng.choice(LBS + [b""]) + buf
        for typ in (bytes, bytearray):
            r1 = call(OrigDecoder(boundary).last_newline, typ(buf))
            r2 = call(MultipartDecoder(boundary).last_newline, typ(buf))
            n += 1
            if r1 != r2:
                fails += 1
                print("MISMATCH last_newline", buf)
        for start in (True, False):
            o = OrigDecoder(boundary)
            w = MultipartDecoder(boundary)
            o.state = w.state = State.DATA_START if start else State.DATA
            o.buffer.extend(buf)
            w.buffer.extend(buf)
            # as called by next_event (data is self.buffer) ...
            r1 = call(o._parse_data, o.buffer, start=start), o.state
            r2 = call(w._parse_data, w.buffer, start=start), w.state
            n += 1
            if r1 != r2:
                fails += 1
                print("MISMATCH _parse_data", boundary, buf, start, r1, r2)
            # ... and with a data argument that differs from self.buffer
            other = rand_payload(rng, boundary, lb)
            o.state = w.state = State.DATA
            r1 = call(o._parse_data, other, start=start), o.state
            r2 = call(w._parse_data, other, start=start), w.state
            n += 1
            if r1 != r2:
                fails += 1
                print("MISMATCH _parse_data(other)", boundary, buf, other, start, r1, r2)
    print("cases:", n, "failures:", fails)
    print("PASS" if fails == 0 else "FAIL")


if __name__ == "__main__":
    main()
