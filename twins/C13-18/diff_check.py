"""Differential check for refactoring 3 (werkzeug.test.Cookie._from_response_header
and Client._update_cookies_from_response).

Compares the worktree implementation against verbatim copies of the original code on
generated Set-Cookie headers (hand-built and produced by dump_cookie). Prints PASS only
if all outputs, resulting cookie-jar states and raised exception types are identical.
"""

from __future__ import annotations

import dataclasses
import random
import sys
from datetime import datetime
from datetime import timedelta
from datetime import timezone

from werkzeug.http import dump_cookie
from werkzeug.http import parse_cookie
from werkzeug.http import parse_date
from werkzeug.test import Client
from werkzeug.test import Cookie
from werkzeug.wrappers import Request
from werkzeug.wrappers import Response


# ---------------------------------------------------------------- original copies
def orig_from_response_header(cls, server_name, path, header):
    header, _, parameters_str = header.partition(";")
    key, _, value = header.partition("=")
    decoded_key, decoded_value = next(parse_cookie(header).items())
    params = {}

    for item in parameters_str.split(";"):
        k, sep, v = item.partition("=")
        params[k.strip().lower()] = v.strip() if sep else None

    return cls(
        key=key.strip(),
        value=value.strip(),
        decoded_key=decoded_key,
        decoded_value=decoded_value,
        expires=parse_date(params.get("expires")),
        max_age=int(params["max-age"] or 0) if "max-age" in params else None,
        domain=params.get("domain") or server_name,
        origin_only="domain" not in params,
        path=params.get("path") or path.rpartition("/")[0] or "/",
        secure="secure" in params,
        http_only="httponly" in params,
        same_site=params.get("samesite"),
    )


def orig_update_cookies_from_response(jar, server_name, path, headers):
    if jar is None:
        return

    for header in headers:
        cookie = orig_from_response_header(Cookie, server_name, path, header)

        if cookie._should_delete:
            jar.pop(cookie._storage_key, None)
        else:
            jar[cookie._storage_key] = cookie


# ---------------------------------------------------------------- generators
rng = random.Random(0xC133)

VALUE_CHARS = list('";,\\ \t\r\n\x00\x01\x1f\x7f\x80\xff=%abcXYZ019') + [
    "é", "€", "\U0001f600", "\ud800",
]


def gen_value(maxlen=10):
    out = []
    for _ in range(rng.randrange(0, maxlen)):
        r = rng.random()
        if r < 0.6:
            out.append(rng.choice(VALUE_CHARS))
        elif r < 0.85:
            out.append(chr(rng.randrange(0, 256)))
        else:
            out.append(chr(rng.randrange(0, 0x110000)))
    return "".join(out)


KEYS = ["k", "a", "b", "sess", "kéy", "a b", "\U0001f600"]
DOMAINS = [None, None, "example.com", ".example.com", "sub.example.com", "localhost",
           "bücher.de", "example.com:80"]
PATHS = ["/", "/", None, "/a", "/a/b", "/a b", "/é", "/a;b", ""]


def gen_dumped():
    kw = {}
    if rng.random() < 0.5:
        kw["max_age"] = rng.choice([None, 0, 1, 60, -1, timedelta(hours=1), True, False])
    if rng.random() < 0.5:
        kw["expires"] = rng.choice(
            [None, 0, 1, 1700000000, datetime(2031, 5, 6, tzinfo=timezone.utc),
             "Thu, 01 Jan 1970 00:00:00 GMT", "junk", "0"]
        )
    if rng.random() < 0.6:
        kw["path"] = rng.choice(PATHS)
    if rng.random() < 0.5:
        kw["domain"] = rng.choice(DOMAINS)
    for flag in ("secure", "httponly", "partitioned"):
        if rng.random() < 0.3:
            kw[flag] = rng.choice([True, False])
    if rng.random() < 0.4:
        kw["samesite"] = rng.choice([None, "strict", "Lax", "NONE"])
    try:
        return dump_cookie(rng.choice(KEYS), gen_value(), **kw)
    except (UnicodeEncodeError, UnicodeError):
        return "x=y; Path=/"


RAW_TOKENS = [
    ";", "; ", " ;", "=", " = ", '"', '\\"', "\\073", "\\", ",", " ", "\t", "k", "v",
    "k=v", 'k="v;w"', 'k="a\\073b"', "Path=/", "Path=", "Path", "path=/x", "PATH=/y",
    "Domain=example.com", "Domain=", "Domain", "domain=.a.b", "Max-Age=0", "Max-Age=5",
    "Max-Age=", "Max-Age", "max-age=-1", "Max-Age=x", "Max-Age=1.5", "Max-Age= 7 ",
    "Max-Age=٣", "Expires=Thu, 01 Jan 1970 00:00:00 GMT", "Expires=junk", "Expires=",
    "Expires", "Expires=Wed, 01 Jan 2031 00:00:00 GMT", "Expires=0", "Secure",
    "Secure=1", "HttpOnly", "httponly=", "SameSite=Lax", "SameSite", "samesite=bogus",
    "Partitioned", "é", "\U0001f600", "\x00", "\xa0", "\ud800", "=Secure",
]


def gen_raw():
    return "".join(
        rng.choice(RAW_TOKENS) if rng.random() < 0.85 else chr(rng.randrange(0, 0x3000))
        for _ in range(rng.randrange(0, 12))
    )


def gen_header():
    r = rng.random()
    if r < 0.45:
        return gen_dumped()
    if r < 0.6:
        # dumped header with extra/duplicate attributes appended
        return gen_dumped() + "; " + gen_raw()
    return gen_raw()


SERVERS = ["localhost", "example.com", "sub.example.com", ""]
REQ_PATHS = ["/", "", "/a", "/a/", "/a/b", "a", "/a/b/c?d"]


def run(fn, *args):
    try:
        rv = fn(*args)
    except BaseException as e:  # noqa: B036
        return ("exc", type(e), str(e))
    if dataclasses.is_dataclass(rv):
        return ("ok", type(rv), dataclasses.astuple(rv), repr(rv))
    return ("ok", rv)


def jar_state(jar):
    if jar is None:
        return None
    return [(k, dataclasses.astuple(v)) for k, v in jar.items()]


def main():
    n = 0
    fails = 0

    # 1. Cookie._from_response_header
    odd = [None, b"k=v", 5, "", ";", "=", "k", "k=", "=v", ";k=v", "k=v;", "k=v;;", " ; "]
    inputs = [(s, p, h) for h in odd for s in SERVERS[:2] for p in REQ_PATHS[:3]]
    inputs += [
        (rng.choice(SERVERS), rng.choice(REQ_PATHS), gen_header()) for _ in range(20000)
    ]
    inputs += [(None, None, "k=v"), ("localhost", None, "k=v"), ("localhost", 5, "k=v; Path=/")]

    for server_name, path, header in inputs:
        n += 1
        a = run(orig_from_response_header, Cookie, server_name, path, header)
        b = run(Cookie._from_response_header, server_name, path, header)
        if a != b:
            fails += 1
            if fails < 10:
                print("MISMATCH", repr(header), a, b, sep="\n  ")

    # 2. Client._update_cookies_from_response: same jar contents in the same order
    for _ in range(4000):
        n += 1
        headers = [gen_header() for _ in range(rng.randrange(0, 6))]
        server_name = rng.choice(SERVERS)
        path = rng.choice(REQ_PATHS)
        use_cookies = rng.random() < 0.95
        client = Client(lambda e, s: None, use_cookies=use_cookies)
        jar = {} if use_cookies else None

        # pre-populate both jars identically
        for h in [gen_dumped() for _ in range(rng.randrange(0, 3))]:
            if jar is not None:
                c = orig_from_response_header(Cookie, server_name, path, h)
                jar[c._storage_key] = c
                client._cookies[c._storage_key] = c

        try:
            a = ("ok", orig_update_cookies_from_response(jar, server_name, path, headers))
        except BaseException as e:  # noqa: B036
            a = ("exc", type(e), str(e))
        try:
            b = ("ok", client._update_cookies_from_response(server_name, path, headers))
        except BaseException as e:  # noqa: B036
            b = ("exc", type(e), str(e))

        if a != b or jar_state(jar) != jar_state(client._cookies):
            fails += 1
            if fails < 10:
                print("JAR MISMATCH", headers, a, b, jar_state(jar),
                      jar_state(client._cookies), sep="\n  ")

    # 3. End to end through the test client: values round trip, jar matches original code
    @Request.application
    def app(request):
        if request.path == "/set":
            rv = Response("set")
            rv.set_cookie("k", request.args["v"])
            return rv
        return Response(request.cookies.get("k", "<missing>"))

    for _ in range(1500):
        v = gen_value(12)
        try:
            v.encode()
        except UnicodeEncodeError:
            continue
        n += 1
        client = Client(app)
        resp = client.get("/set", query_string={"v": v})
        set_cookie_headers = resp.headers.getlist("Set-Cookie")
        jar = {}
        orig_update_cookies_from_response(jar, "localhost", "/set", set_cookie_headers)
        echoed = client.get("/").get_data(as_text=True)
        stored = client.get_cookie("k")
        if (
            jar_state(jar) != jar_state(client._cookies)
            or echoed != v
            or stored is None
            or stored.decoded_value != v
        ):
            fails += 1
            if fails < 10:
                print("E2E MISMATCH", repr(v), set_cookie_headers, repr(echoed), stored)

    print(f"checked {n} inputs, {fails} mismatches")
    print("PASS" if fails == 0 else "FAIL")
    sys.exit(0 if fails == 0 else 1)


if __name__ == "__main__":
    main()
