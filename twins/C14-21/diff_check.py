"""Differential check: refactored SharedDataMiddleware.get_directory_loader vs. original copy."""
import os
import random
import shutil
import tempfile

from werkzeug.middleware.shared_data import SharedDataMiddleware
from werkzeug.security import safe_join
from werkzeug.test import create_environ
from werkzeug.test import run_wsgi_app


class OrigMiddleware(SharedDataMiddleware):
    def get_directory_loader(self, directory):
        def loader(path):
            if path is not None:
                path = safe_join(directory, path)

                if path is None:
                    return None, None
            else:
                path = directory

            if os.path.isfile(path):
                return os.path.basename(path), self._opener(path)

            return None, None

        return loader


def fallback_app(environ, start_response):
    start_response("404 NOT FOUND", [("Content-Type", "text/plain")])
    return [b"fallback"]


def loader_result(mw, directory, path):
    try:
        loader = mw.get_directory_loader(directory)
        name, opener = loader(path)
        if opener is None:
            return ("ok", name, None)
        f, mtime, size = opener()
        with f:
            data = f.read()
        return ("ok", name, (os.path.realpath(f.name), mtime, size, data))
    except BaseException as e:  # noqa: B036
        return ("exc", type(e))


def wsgi_result(mw, path):
    try:
        environ = create_environ()
        environ["PATH_INFO"] = path
        app_iter, status, headers = run_wsgi_app(mw, environ)
        body = b"".join(app_iter)
        if hasattr(app_iter, "close"):
            app_iter.close()
        headers = [(k, v) for k, v in headers if k not in ("Date", "Expires")]
        return ("ok", status, headers, body)
    except BaseException as e:  # noqa: B036
        return ("exc", type(e))


ATOMS = ["..", ".", "", "a.txt", "sub", "deep.txt", "secret.txt", "outside", "link.txt",
         "linkdir", "\x00", "\\", "..\\", "C:", "missing", "root", "%2e%2e", " ", "ä"]


def gen_path(rng):
    n = rng.randint(0, 5)
    return rng.choice(["", "/", "//"]) + rng.choice(["/", "/", "//", "\\"]).join(
        rng.choice(ATOMS) for _ in range(n)
    )


def main():
    rng = random.Random(31414)
    base = tempfile.mkdtemp(prefix="twin10c14-")
    try:
        root = os.path.join(base, "root")
        os.makedirs(os.path.join(root, "sub"))
        os.makedirs(os.path.join(base, "outside"))
        for p, c in [("root/a.txt", b"A"), ("root/sub/deep.txt", b"DEEP"),
                     ("secret.txt", b"SECRET"), ("outside/secret.txt", b"OUT"),
                     ("root/ä", b"umlaut"), ("root/ ", b"space")]:
            with open(os.path.join(base, p), "wb") as f:
                f.write(c)
        os.symlink(os.path.join(base, "secret.txt"), os.path.join(root, "link.txt"))
        os.symlink(os.path.join(base, "outside"), os.path.join(root, "linkdir"))

        paths = [None, "", "/", ".", "..", "../secret.txt", "a.txt", "sub/deep.txt",
                 "sub/../a.txt", "sub/../../secret.txt", "/etc/passwd", "link.txt",
                 "linkdir/secret.txt", "a.txt/", "sub", "a.txt\x00", 1, b"a.txt"]
        paths += [gen_path(rng) for _ in range(2500)]
        directories = [root, root + "/", os.path.join(root, "a.txt"), os.path.join(root, "sub"),
                       os.path.join(base, "missing"), "", ".", None, 5]

        total = bad = 0
        new_mw = SharedDataMiddleware(fallback_app, {})
        old_mw = OrigMiddleware(fallback_app, {})
        cwd = os.getcwd()
        os.chdir(root)
        try:
            for d in directories:
                for p in paths:
                    total += 1
                    r1, r2 = loader_result(old_mw, d, p), loader_result(new_mw, d, p)
                    if r1 != r2:
                        bad += 1
                        if bad < 10:
                            print("MISMATCH loader", repr(d), repr(p), r1, r2)
        finally:
            os.chdir(cwd)

        exports = {"/static": root, "/sub/": os.path.join(root, "sub"), "/": root}
        for cache in (True, False):
            new_mw = SharedDataMiddleware(fallback_app, exports, cache=cache)
            old_mw = OrigMiddleware(fallback_app, exports, cache=cache)
            urls = ["/static", "/static/", "/static/a.txt", "/static/../secret.txt", "/sub", "/sub/deep.txt",
                    "/a.txt", "/", "", "/static//etc/passwd", "/static/link.txt"]
            urls += [rng.choice(["/static", "/sub", "", "/other"]) + "/" + gen_path(rng) for _ in range(1500)]
            for u in urls:
                total += 1
                r1, r2 = wsgi_result(old_mw, u), wsgi_result(new_mw, u)
                if r1 != r2:
                    bad += 1
                    if bad < 10:
                        print("MISMATCH wsgi", repr(u), r1, r2)
    finally:
        shutil.rmtree(base, ignore_errors=True)
    print(f"{total} cases, {bad} mismatches")
    print("PASS" if bad == 0 else "FAIL")


main()
