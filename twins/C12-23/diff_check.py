"""Differential check for refactoring 2 (C12):
werkzeug.routing.matcher.StateMachineMatcher.match.

Runs the worktree implementation and the ORIGINAL implementation (pasted
below verbatim from the unmodified tree, patched onto StateMachineMatcher)
on the same generated inputs - end to end via MapAdapter.match and by
calling the matcher directly - and compares results / exception types.
"""
from __future__ import annotations

import re
import typing as t

from werkzeug.routing.converters import ValidationError
from werkzeug.routing.exceptions import NoMatch
from werkzeug.routing.exceptions import RequestAliasRedirect
from werkzeug.routing.exceptions import RequestPath
from werkzeug.routing.matcher import SlashRequired
from werkzeug.routing.matcher import State
from werkzeug.routing.matcher import StateMachineMatcher
from werkzeug.routing.rules import Rule  # noqa: F811


# ----- ORIGINAL implementation (unmodified tree) -----
def orig_match(
    self, domain: str, path: str, method: str, websocket: bool
) -> tuple[Rule, t.MutableMapping[str, t.Any]]:
    # To match to a rule we need to start at the root state and
    # try to follow the transitions until we find a match, or find
    # there is no transition to follow.

    have_match_for = set()
    websocket_mismatch = False

    def _match(
        state: State, parts: list[str], values: list[str]
    ) -> tuple[Rule, list[str]] | None:
        # This function is meant to be called recursively, and will attempt
        # to match the head part to the state's transitions.
        nonlocal have_match_for, websocket_mismatch

        # The base case is when all parts have been matched via
        # transitions. Hence if there is a rule with methods &
        # websocket that work return it and the dynamic values
        # extracted.
        if parts == []:
            for rule in state.rules:
                if rule.methods is not None and method not in rule.methods:
                    have_match_for.update(rule.methods)
                elif rule.websocket != websocket:
                    websocket_mismatch = True
                else:
                    return rule, values

            # Test if there is a match with this path with a
            # trailing slash, if so raise an exception to report
            # that matching is possible with an additional slash
            if "" in state.static:
                for rule in state.static[""].rules:
                    if websocket == rule.websocket and (
                        rule.methods is None or method in rule.methods
                    ):
                        if rule.strict_slashes:
                            raise SlashRequired()
                        else:
                            return rule, values
                    elif (
                        not rule.strict_slashes
                        and rule.methods is not None
                        and method not in rule.methods
                    ):
                        have_match_for.update(rule.methods)
            return None

        part = parts[0]
        # To match this part try the static transitions first
        if part in state.static:
            rv = _match(state.static[part], parts[1:], values)
            if rv is not None:
                return rv
        # No match via the static transitions, so try the dynamic
        # ones.
        for test_part, new_state in state.dynamic:
            target = part
            remaining = parts[1:]
            # A final part indicates a transition that always
            # consumes the remaining parts i.e. transitions to a
            # final state.
            if test_part.final:
                target = "/".join(parts)
                remaining = []
            match = re.compile(test_part.content).match(target)
            if match is not None:
                if test_part.suffixed:
                    # If a part_isolating=False part has a slash suffix, remove the
                    # suffix from the match and check for the slash redirect next.
                    suffix = match.groups()[-1]
                    if suffix == "/":
                        remaining = [""]

                converter_groups = sorted(
                    match.groupdict().items(), key=lambda entry: entry[0]
                )
                groups = [
                    value
                    for key, value in converter_groups
                    if key[:11] == "__werkzeug_"
                ]
                rv = _match(new_state, remaining, values + groups)
                if rv is not None:
                    return rv

        # If there is no match and the only part left is a
        # trailing slash ("") consider rules that aren't
        # strict-slashes as these should match if there is a final
        # slash part.
        if parts == [""]:
            for rule in state.rules:
                if rule.strict_slashes:
                    continue
                if rule.methods is not None and method not in rule.methods:
                    have_match_for.update(rule.methods)
                elif rule.websocket != websocket:
                    websocket_mismatch = True
                else:
                    return rule, values

        return None

    try:
        rv = _match(self._root, [domain, *path.split("/")], [])
    except SlashRequired:
        raise RequestPath(f"{path}/") from None

    if self.merge_slashes and rv is None:
        # Try to match again, but with slashes merged
        path = re.sub("/{2,}?", "/", path)
        try:
            rv = _match(self._root, [domain, *path.split("/")], [])
        except SlashRequired:
            raise RequestPath(f"{path}/") from None
        if rv is None or rv[0].merge_slashes is False:
            raise NoMatch(have_match_for, websocket_mismatch)
        else:
            raise RequestPath(f"{path}")
    elif rv is not None:
        rule, values = rv

        result = {}
        for name, value in zip(rule._converters.keys(), values):
            try:
                value = rule._converters[name].to_python(value)
            except ValidationError:
                raise NoMatch(have_match_for, websocket_mismatch) from None
            result[str(name)] = value
        if rule.defaults:
            result.update(rule.defaults)

        if rule.alias and rule.map.redirect_defaults:
            raise RequestAliasRedirect(result, rule.endpoint)

        return rule, result

    raise NoMatch(have_match_for, websocket_mismatch)


ORIGINALS = [(StateMachineMatcher, "match", orig_match)]


def extra_checks(rng, m, adapter):
    """Direct calls of the matcher with raw (also un-normalised) paths."""
    out = []
    m.update()
    for _ in range(16):
        n = rng.randint(0, 5)
        if rng.random() < 0.8:
            segs = [
                rng.choice(VALUES) if seg == "*" else seg
                for seg in rng.choice(TEMPLATES).split("/")
            ]
            for _ in range(rng.randint(0, 2)):
                segs.insert(rng.randrange(len(segs) + 1), "")
        else:
            segs = [rng.choice(SEGMENTS) for _ in range(n)]
        path = rng.choice(["", "/", "/", "/", "//"]) + "/".join(segs)
        path += rng.choice(["", "", "/", "//"])
        if m.host_matching:
            domain = rng.choice(["example.org", "www.example.org", "x", ""])
        else:
            domain = rng.choice(["", "", "", "", "", "sub", "sub", "other"])
        method = rng.choice(["GET", "GET", "POST", "PUT", "HEAD", "--"])
        ws = rng.random() < 0.15

        def do(domain=domain, path=path, method=method, ws=ws):
            rule, values = m._matcher.match(domain, path, method, ws)
            return (rule.rule, rule.endpoint, sorted(values.items()))

        out.append((("matcher", domain, path, method, ws), outcome(do)))
    return out


# --------------------------------------------------------------------------
# shared harness: random maps / bindings / paths, run end to end twice
# (worktree code vs. ORIGINALS patched in) and compare every outcome.
# --------------------------------------------------------------------------
import contextlib
import random

from werkzeug.routing import Map
from werkzeug.routing import Rule
from werkzeug.routing import Subdomain  # noqa: F401

RULE_POOL = [
    lambda: Rule("/", endpoint="index"),
    lambda: Rule("/a", endpoint="a"),
    lambda: Rule("/a/", endpoint="a_slash"),
    lambda: Rule("/b/", endpoint="b"),
    lambda: Rule("/b/", endpoint="b_post", methods=["POST"]),
    lambda: Rule("/c", endpoint="c", strict_slashes=False),
    lambda: Rule("/c2/", endpoint="c2", strict_slashes=False, methods=["PUT"]),
    lambda: Rule("/u/<x>", endpoint="u"),
    lambda: Rule("/u/<x>/", endpoint="u_slash"),
    lambda: Rule("/v/<x>/", endpoint="v", merge_slashes=False),
    lambda: Rule("/n/<int:n>/", endpoint="n"),
    lambda: Rule("/p/<path:rest>", endpoint="p"),
    lambda: Rule("/q/<path:rest>/", endpoint="q"),
    lambda: Rule("/q/<path:rest>/edit/", endpoint="q_edit"),
    lambda: Rule("/<path:rest>/x/", endpoint="any_x"),
    lambda: Rule("/d/", endpoint="d", defaults={"page": 1}),
    lambda: Rule("/d/<int:page>/", endpoint="d"),
    lambda: Rule("/e", endpoint="e", defaults={"page": 1, "k": "z"}),
    lambda: Rule("/e/<int:page>/<k>", endpoint="e"),
    lambda: Rule("/e/<int:page>/<k>", endpoint="e", methods=["POST"]),
    lambda: Rule("/f/<int:page>", endpoint="f"),
    lambda: Rule("/f", endpoint="f", defaults={"page": 2}, build_only=True),
    lambda: Rule("/g", endpoint="g", defaults={"page": 2}),
    lambda: Rule("/g/<int:page>", endpoint="g"),
    lambda: Rule("/g/<int:page>/<extra>", endpoint="g"),
    lambda: Rule("/canon/", endpoint="canon"),
    lambda: Rule("/alias/", endpoint="canon", alias=True),
    lambda: Rule("/item/<int:id>/", endpoint="item"),
    lambda: Rule("/i/<int:id>/", endpoint="item", alias=True),
    lambda: Rule("/lonely/", endpoint="lonely", alias=True),
    lambda: Rule("/ws/", endpoint="ws", websocket=True),
    lambda: Rule("/ws2", endpoint="ws2", websocket=True),
    lambda: Rule("/s/", endpoint="s_sub", subdomain="sub"),
    lambda: Rule("/s/<x>/", endpoint="s_sub_x", subdomain="<name>"),
    lambda: Rule("/sd/", endpoint="sd", defaults={"page": 1}, subdomain="sub"),
    lambda: Rule("/sd/<int:page>/", endpoint="sd", subdomain="sub"),
    lambda: Rule("/r/", endpoint="r", redirect_to="/a/"),
    lambda: Rule("/r/<x>/", endpoint="r2", redirect_to="//other.test/<x>"),
]

HOST_RULE_POOL = [
    lambda: Rule("/", endpoint="index", host="example.org"),
    lambda: Rule("/a/", endpoint="a", host="example.org"),
    lambda: Rule("/a/<x>/", endpoint="ax", host="<h>"),
    lambda: Rule("/d/", endpoint="d", defaults={"page": 1}, host="example.org"),
    lambda: Rule("/d/<int:page>/", endpoint="d", host="example.org"),
    lambda: Rule("/d2/", endpoint="d2", defaults={"page": 1}, host="www.example.org"),
    lambda: Rule("/d2/<int:page>/", endpoint="d2", host="<h>"),
    lambda: Rule("/canon/", endpoint="canon", host="example.org"),
    lambda: Rule("/alias/", endpoint="canon", alias=True, host="example.org"),
    lambda: Rule("/p/<path:rest>/", endpoint="p", host="example.org"),
    lambda: Rule("/c", endpoint="c", strict_slashes=False, host="example.org"),
]

SEGMENTS = [
    "", "", "a", "b", "c", "c2", "u", "v", "n", "p", "q", "d", "e", "f", "g",
    "x", "edit", "canon", "alias", "item", "i", "lonely", "ws", "ws2", "s", "sd",
    "r", "1", "2", "7", "-1", "z", "foo", "example.org", "evil.test", "%2f",
    "a b", "ü", "..", "@evil.test", "d2", "?", "#h", "\\",
]

TEMPLATES = [
    "", "a", "b", "c", "c2", "u/*", "v/*", "n/*", "p/*", "p/*/*", "q/*", "q/*/*",
    "q/*/edit", "*/x", "*/*/x", "d", "d/*", "e", "e/*/*", "f", "f/*", "g", "g/*",
    "g/*/*", "canon", "alias", "item/*", "i/*", "lonely", "ws", "ws2", "s", "s/*",
    "sd", "sd/*", "r", "r/*", "a/*", "d2", "d2/*",
]
VALUES = ["1", "1", "2", "7", "z", "foo", "example.org", "evil.test", "a b", "01"]
METHODS = ["GET", "GET", "GET", "POST", "PUT", "HEAD", "get", None, None]
QUERY_ARGS = [None, None, "", "a=1&b=2", "x=%2F/&y", {}, {"a": "1"},
              {"k": ["1", "2"], "z": "ä /"}, "?"]
SCRIPT_NAMES = [None, "/", "", "/app", "/app/", "app", "//app//x/"]
SCHEMES = ["http", "http", "https", "https", "", "http", "ws", "wss"]


def make_case(rng):
    host_matching = rng.random() < 0.25
    pool = HOST_RULE_POOL if host_matching else RULE_POOL
    k = rng.randint(len(pool) // 2, len(pool))
    idx = sorted(rng.sample(range(len(pool)), k))
    if rng.random() < 0.3:
        rng.shuffle(idx)
    map_kw = dict(
        strict_slashes=rng.random() < 0.8,
        merge_slashes=rng.random() < 0.8,
        redirect_defaults=rng.random() < 0.8,
        host_matching=host_matching,
    )
    if host_matching:
        server_name = rng.choice(["example.org", "example.org", "www.example.org", "other.test"])
        subdomain = None
    else:
        server_name = rng.choice(["example.org", "localhost:5000"])
        subdomain = rng.choice([None, None, None, "", "", "sub", "sub", "other"])
    bind_kw = dict(
        server_name=server_name,
        script_name=rng.choice(SCRIPT_NAMES),
        subdomain=subdomain,
        url_scheme=rng.choice(SCHEMES),
        default_method=rng.choice(["GET", "POST"]),
        path_info=rng.choice([None, "/a", "b"]),
        query_args=rng.choice(QUERY_ARGS),
    )
    calls = []
    for _ in range(rng.randint(8, 16)):
        if rng.random() < 0.7:
            segs = rng.choice(TEMPLATES).split("/")
            segs = [
                rng.choice(VALUES) if seg == "*" else seg for seg in segs if seg
            ]
            mut = rng.random()
            if mut < 0.25 and segs:
                pos = rng.randrange(len(segs))
                segs.insert(pos, "")
            elif mut < 0.35 and segs:
                segs.insert(rng.randrange(len(segs) + 1), rng.choice(SEGMENTS))
            elif mut < 0.4:
                segs = ["", ""] + segs
        else:
            n = rng.randint(0, 5)
            segs = [rng.choice(SEGMENTS) for _ in range(n)]
        path = "/".join(segs)
        r = rng.random()
        if r < 0.6:
            path = "/" + path
        elif r < 0.7:
            path = "//" + path
        elif r < 0.75:
            path = None
        if path is not None and rng.random() < 0.3:
            path += "/"
        calls.append(
            dict(
                path_info=path,
                method=rng.choice(METHODS),
                query_args=rng.choice(QUERY_ARGS),
                websocket=rng.choice([None] * 8 + [False, True]),
                return_rule=rng.random() < 0.2,
            )
        )
    return pool, idx, map_kw, bind_kw, calls


def outcome(fn):
    try:
        rv = fn()
    except Exception as e:  # noqa: B902
        return (
            "exc",
            type(e).__module__ + "." + type(e).__qualname__,
            getattr(e, "new_url", None),
            getattr(e, "path_info", None),
            sorted(getattr(e, "valid_methods", None) or []),
            sorted(getattr(e, "have_match_for", None) or []),
            getattr(e, "websocket_mismatch", None),
            repr(getattr(e, "matched_values", None)),
            str(e) if isinstance(e, (AssertionError, TypeError, ValueError)) else "",
        )
    return ("ok", repr(rv))


def run_all(seed, n_cases):
    rng = random.Random(seed)
    out = []
    for _ in range(n_cases):
        pool, idx, map_kw, bind_kw, calls = make_case(rng)
        m = Map([pool[i]() for i in idx], **map_kw)
        adapter = m.bind(**bind_kw)
        for c in calls:
            def do(c=c):
                rv = adapter.match(**c)
                if c["return_rule"]:
                    return (rv[0].rule, rv[0].endpoint, sorted(rv[1].items()))
                return (rv[0], sorted(rv[1].items()))
            out.append(((tuple(idx), sorted(map_kw.items()), sorted(
                (k, repr(v)) for k, v in bind_kw.items()), repr(c)), outcome(do)))
        out.extend(extra_checks(rng, m, adapter))
    return out


@contextlib.contextmanager
def patched(originals):
    saved = []
    for owner, name, func in originals:
        saved.append((owner, name, owner.__dict__[name]))
        setattr(owner, name, func)
    try:
        yield
    finally:
        for owner, name, func in saved:
            setattr(owner, name, func)


def main():
    n_cases = 500
    new = run_all(20241012, n_cases)
    with patched(ORIGINALS):
        old = run_all(20241012, n_cases)
    assert len(new) == len(old)
    kinds = {}
    bad = 0
    for (k1, o1), (k2, o2) in zip(new, old):
        assert k1 == k2
        tag = o2[1] if o2[0] == "exc" else "ok"
        if o2[0] == "exc" and o2[2] is not None:
            tag += "(redirect)"
        kinds[tag] = kinds.get(tag, 0) + 1
        if o1 != o2:
            bad += 1
            if bad <= 10:
                print("MISMATCH", k1, "\n   new:", o1, "\n   old:", o2)
    print("inputs:", len(new))
    for tag, cnt in sorted(kinds.items()):
        print(f"  {tag}: {cnt}")
    print("PASS" if bad == 0 else f"FAIL ({bad} mismatches)")


if __name__ == "__main__":
    main()
