"""Differential check for refactoring 2 (Headers.get / Headers.pop).

The ORIGINAL get/pop are pasted below and grafted onto subclasses of Headers
and EnvironHeaders; random operation histories are replayed against the
worktree classes and the originals, comparing every result (value, type,
exception type + args) and the full pair list after every step.
"""

import random

from werkzeug.datastructures import EnvironHeaders
from werkzeug.datastructures import Headers
from werkzeug._internal import _missing


# --- verbatim copies of the unmodified code --------------------------------
def orig_get(self, key, default=None, type=None):
    try:
        rv = self._get_key(key)
    except KeyError:
        return default

    if type is None:
        return rv

    try:
        return type(rv)
    except ValueError:
        return default


def orig_pop(self, key=None, default=_missing):
    if key is None:
        return self._list.pop()

    if isinstance(key, int):
        return self._list.pop(key)

    try:
        rv = self._get_key(key)
    except KeyError:
        if default is not _missing:
            return default

        raise

    self.remove(key)
    return rv


class OrigHeaders(Headers):
    get = orig_get
    pop = orig_pop


class OrigEnviron(EnvironHeaders):
    get = orig_get
    # pop is blocked by ImmutableHeadersMixin in both


import werkzeug.datastructures.headers as _h

assert _h._missing is _missing

NAMES = [
    "Content-Type", "content-type", "CONTENT-TYPE", "Content-Length", "X-Foo",
    "x-foo", "X-FOO", "X-Bar", "Set-Cookie", "set-cookie", "Accept", "", "a",
    "A", "Host", "ß", "İ", "x_under", "Content_Type",
]
VALUES = ["1", "42", "text/html", "", " 7 ", "3.5", "abc", "-1", "0x10", "١٢", "a; b=c"]
ODD_KEYS = [None, 0, 1, -1, 5, -7, True, False, 1.5, b"X-Foo", ("a",), slice(0, 1), [1]]


class Boom(Exception):
    pass


def conv_boom(v):
    raise Boom(v)


def conv_key(v):
    raise KeyError(v)


def conv_type(v):
    raise TypeError(v)


class MyValueError(ValueError):
    pass


def conv_sub(v):
    raise MyValueError(v)


CONVS = [None, int, float, str, len, conv_boom, conv_key, conv_type, conv_sub, bytes]
DEFAULTS = [None, "d", 0, _missing, [], False]


def outcome(fn):
    try:
        rv = fn()
    except BaseException as e:  # noqa: B902
        return ("exc", type(e), repr(e.args).replace("OrigEnviron", "EnvironHeaders").replace("OrigHeaders", "Headers"))
    return ("ok", type(rv).__name__.replace("OrigHeaders", "Headers"), rv if not isinstance(rv, Headers) else list(rv))


def rand_key(rng):
    if rng.random() < 0.15:
        return rng.choice(ODD_KEYS)
    return rng.choice(NAMES)


def make_op(rng):
    kind = rng.randrange(16)
    k = rand_key(rng)
    v = rng.choice(VALUES)
    d = rng.choice(DEFAULTS)
    c = rng.choice(CONVS)
    if kind == 0:
        return ("get", lambda h: h.get(k))
    if kind == 1:
        return ("get_d", lambda h: h.get(k, d))
    if kind == 2:
        return ("get_t", lambda h: h.get(k, type=c))
    if kind == 3:
        return ("get_dt", lambda h: h.get(k, d, c))
    if kind == 4:
        return ("get_kw", lambda h: h.get(key=k, default=d, type=c))
    if kind == 5:
        return ("pop", lambda h: h.pop())
    if kind == 6:
        return ("pop_k", lambda h: h.pop(k))
    if kind == 7:
        return ("pop_kd", lambda h: h.pop(k, d))
    if kind == 8:
        return ("pop_kw", lambda h: h.pop(key=k, default=d))
    if kind == 9:
        return ("add", lambda h: h.add(rng_name(k), v))
    if kind == 10:
        return ("set", lambda h: h.set(rng_name(k), v))
    if kind == 11:
        return ("getitem", lambda h: h[k])
    if kind == 12:
        return ("contains", lambda h: k in h)
    if kind == 13:
        return ("getlist", lambda h: h.getlist(k) if isinstance(k, str) else None)
    if kind == 14:
        return ("add2", lambda h: h.add(rng_name(k), v))
    return ("pop_none_d", lambda h: h.pop(None, d))


def rng_name(k):
    return k if isinstance(k, str) and k else "X-Fallback"


def check_headers(rng):
    n = 0
    init = [(rng.choice(NAMES) or "E", rng.choice(VALUES)) for _ in range(rng.choice([0, 1, 2, 4, 8]))]
    new, old = Headers(init), OrigHeaders(init)
    for _ in range(rng.randrange(5, 40)):
        name, op = make_op(rng)
        a, b = outcome(lambda: op(new)), outcome(lambda: op(old))
        if a != b or new._list != old._list:
            print("MISMATCH", name, a, b, new._list, old._list)
            return None
        n += 1
    if list(new) != list(old) or new.to_wsgi_list() != old.to_wsgi_list():
        print("MISMATCH final")
        return None
    return n


def check_environ(rng):
    n = 0
    environ = {}
    for _ in range(rng.randrange(0, 8)):
        name = rng.choice(NAMES).upper().replace("-", "_")
        if name in ("CONTENT_TYPE", "CONTENT_LENGTH") and rng.random() < 0.7:
            environ[name] = rng.choice(VALUES)
        else:
            environ["HTTP_" + name] = rng.choice(VALUES)
    if rng.random() < 0.3:
        environ["wsgi.version"] = (1, 0)
        environ["HTTP_X_NONSTR"] = 5
    new, old = EnvironHeaders(environ), OrigEnviron(environ)
    for _ in range(25):
        name, op = make_op(rng)
        if name.startswith(("add", "set")):
            # mutate the environ instead; the view must follow
            environ["HTTP_X_FOO"] = rng.choice(VALUES)
            continue
        before = dict(environ)
        a, b = outcome(lambda: op(new)), outcome(lambda: op(old))
        if a != b or environ != before:
            print("MISMATCH environ", name, a, b)
            return None
        n += 1
    return n


def main():
    rng = random.Random(80802)
    total = 0
    for _ in range(4000):
        n = check_headers(rng)
        if n is None:
            print("FAIL")
            return 1
        total += n
    for _ in range(1500):
        n = check_environ(rng)
        if n is None:
            print("FAIL")
            return 1
        total += n
    print(f"compared {total} operations")
    print("PASS")
    return 0


if __name__ == "__main__":
    raise SystemExit(main())
