"""Differential check for refactoring 2 (MultipartDecoder.next_event / _parse_data).

Run: cd /tmp/wt15-C02 && PYTHONPATH=/tmp/wt15-C02/src /venv/bin/python /tmp/twin10-C02/2/diff_check.py
"""
from __future__ import annotations

import random
import typing as t

from werkzeug.datastructures import Headers
from werkzeug.exceptions import RequestEntityTooLarge
from werkzeug.http import parse_options_header
from werkzeug.sansio.multipart import BLANK_LINE_RE
from werkzeug.sansio.multipart import Data
from werkzeug.sansio.multipart import Epilogue
from werkzeug.sansio.multipart import Event
from werkzeug.sansio.multipart import Field
from werkzeug.sansio.multipart import File
from werkzeug.sansio.multipart import LINE_BREAK_RE
from werkzeug.sansio.multipart import MultipartDecoder
from werkzeug.sansio.multipart import MultipartEncoder
from werkzeug.sansio.multipart import NEED_DATA
from werkzeug.sansio.multipart import NeedData
from werkzeug.sansio.multipart import Preamble
from werkzeug.sansio.multipart import SEARCH_EXTRA_LENGTH
from werkzeug.sansio.multipart import State


class OrigDecoder(MultipartDecoder):
    """next_event and _parse_data are verbatim copies of the original."""

    def next_event(self) -> Event:
        event: Event = NEED_DATA

        if self.state == State.PREAMBLE:
            match = self.preamble_re.search(self.buffer, self._search_position)
            if match is not None:
                if match.group(1).startswith(b"--"):
                    self.state = State.EPILOGUE
                else:
                    self.state = State.PART
                data = bytes(self.buffer[: match.start()])
                del self.buffer[: match.end()]
                event = Preamble(data=data)
                self._search_position = 0
            else:
                # Update the search start position to be equal to the
                # current buffer length (already searched) minus a
                # safe buffer for part of the search target.
                self._search_position = max(
                    0, len(self.buffer) - len(self.boundary) - SEARCH_EXTRA_LENGTH
                )

        elif self.state == State.PART:
            match = BLANK_LINE_RE.search(self.buffer, self._search_position)
            if match is not None:
                headers = self._parse_headers(self.buffer[: match.start()])
                # The final header ends with a single CRLF, however a
                # blank line indicates the start of the
                # body. Therefore the end is after the first CRLF.
                headers_end = (match.start() + match.end()) // 2
                del self.buffer[:headers_end]

                if "content-disposition" not in headers:
                    raise ValueError("Missing Content-Disposition header")

                disposition, extra = parse_options_header(
                    headers["content-disposition"]
                )
                name = t.cast(str, extra.get("name"))
                filename = extra.get("filename")
                if filename is not None:
                    event = File(
                        filename=filename,
                        headers=headers,
                        name=name,
                    )
                else:
                    event = Field(
                        headers=headers,
                        name=name,
                    )
                self.state = State.DATA_START
                self._search_position = 0
                self._parts_decoded += 1

                if self.max_parts is not None and self._parts_decoded > self.max_parts:
                    raise RequestEntityTooLarge()
            else:
                # Update the search start position to be equal to the
                # current buffer length (already searched) minus a
                # safe buffer for part of the search target.
                self._search_position = max(0, len(self.buffer) - SEARCH_EXTRA_LENGTH)

        elif self.state == State.DATA_START:
            data, del_index, more_data = self._parse_data(self.buffer, start=True)
            del self.buffer[:del_index]
            event = Data(data=data, more_data=more_data)
            if more_data:
                self.state = State.DATA

        elif self.state == State.DATA:
            data, del_index, more_data = self._parse_data(self.buffer, start=False)
            del self.buffer[:del_index]
            if data or not more_data:
                event = Data(data=data, more_data=more_data)

        elif self.state == State.EPILOGUE and self.complete:
            event = Epilogue(data=bytes(self.buffer))
            del self.buffer[:]
            self.state = State.COMPLETE

        if self.complete and isinstance(event, NeedData):
            raise ValueError(f"Invalid form-data cannot parse beyond {self.state}")

        return event

    def _parse_data(self, data: bytes, *, start: bool) -> tuple[bytes, int, bool]:
        # Body parts must start with CRLF (or CR or LF)
        if start:
            match = LINE_BREAK_RE.match(data)
            data_start = t.cast(t.Match[bytes], match).end()
        else:
            data_start = 0

        boundary = b"--" + self.boundary

        if self.buffer.find(boundary) == -1:
            # No complete boundary in the buffer, but there may be
            # a partial boundary at the end. As the boundary
            # starts with either a nl or cr find the earliest and
            # return up to that as data.
            data_end = del_index = self.last_newline(data[data_start:]) + data_start
            # If amount of data after last newline is far from
            # possible length of partial boundary, we should
            # assume that there is no partial boundary in the buffer
            # and return all pending data.
            if (len(data) - data_end) > len(b"\n" + boundary):
                data_end = del_index = len(data)
            more_data = True
        else:
            match = self.boundary_re.search(data)
            if match is not None:
                if match.group(1).startswith(b"--"):
                    self.state = State.EPILOGUE
                else:
                    self.state = State.PART
                data_end = match.start()
                del_index = match.end()
            else:
                data_end = del_index = self.last_newline(data[data_start:]) + data_start
            more_data = match is None

        return bytes(data[data_start:data_end]), del_index, more_data


rng = random.Random(1002)

TEXT = "abcXYZ äöü文字🙂'=;"


def rand_text() -> str:
    return "".join(rng.choice(TEXT) for _ in range(rng.randrange(7)))


def rand_payload(boundary: bytes) -> bytes:
    pieces = [
        b"",
        b"\r",
        b"\n",
        b"\r\n",
        b"\r\n\r\n",
        b"--",
        b"-",
        b" ",
        boundary,
        b"--" + boundary,
        b"\r\n--" + boundary[:-1],
        b"\n--" + boundary[:-1] + b"X",
        b"\r\n--" + boundary + b"X",
        b"\r\n--" + boundary + b"--x",
        bytes(rng.randrange(256) for _ in range(rng.randrange(8))),
        b"x" * rng.randrange(40),
    ]
    return b"".join(rng.choice(pieces) for _ in range(rng.randrange(7)))


def build_body(boundary: bytes) -> bytes:
    enc = MultipartEncoder(boundary)
    out = [enc.send_event(Preamble(data=rng.choice([b"", b"pre", b"pre\r\n"])))]
    for _ in range(rng.randrange(4)):
        hdrs = Headers()
        if rng.random() < 0.5:
            hdrs.add("Content-Type", rng.choice(["text/plain", "a/b; charset=utf-8"]))
        if rng.random() < 0.5:
            out.append(enc.send_event(Field(name=rand_text(), headers=hdrs)))
        else:
            out.append(
                enc.send_event(
                    File(name=rand_text(), filename=rand_text(), headers=hdrs)
                )
            )
        for _ in range(rng.randrange(1, 3)):
            out.append(enc.send_event(Data(data=rand_payload(boundary), more_data=True)))
        out.append(enc.send_event(Data(data=b"", more_data=False)))
    out.append(enc.send_event(Epilogue(data=rng.choice([b"", b"epi", b"\r\nepi"]))))
    return b"".join(out)


def mutate(body: bytes, boundary: bytes) -> bytes:
    r = rng.random()
    if r < 0.45:
        return body
    if r < 0.55:
        return body.replace(b"\r\n", b"\n")
    if r < 0.62:
        return body.replace(b"\r\n", b"\r")
    if r < 0.72:  # truncate
        return body[: rng.randrange(len(body) + 1)]
    if r < 0.82 and body:  # delete a slice
        i = rng.randrange(len(body))
        return body[:i] + body[i + rng.randrange(1, 6) :]
    if r < 0.9:  # whitespace after boundary
        return body.replace(b"--" + boundary + b"\r\n", b"--" + boundary + b" \t\r\n")
    if r < 0.95:
        return body.replace(b"Content-Disposition", b"X-Nothing", 1)
    i = rng.randrange(len(body) + 1)
    return body[:i] + rand_payload(boundary) + body[i:]


def chunks(body: bytes) -> list[bytes]:
    mode = rng.random()
    if mode < 0.25:
        return [body]
    if mode < 0.5:
        return [body[i : i + 1] for i in range(len(body))]
    out = []
    i = 0
    hi = rng.choice([3, 10, 50])
    while i < len(body):
        n = rng.randrange(1, hi)
        out.append(body[i : i + n])
        i += n
    return out


def snapshot(dec: MultipartDecoder):
    return (
        dec.state,
        bytes(dec.buffer),
        dec._search_position,
        dec._parts_decoded,
        dec.complete,
    )


def step(dec: MultipartDecoder):
    try:
        ev = dec.next_event()
    except Exception as e:  # noqa: B902
        return ("exc", type(e), str(e))
    if isinstance(ev, (Field, File)):
        return ("ok", type(ev), ev.name, getattr(ev, "filename", None), list(ev.headers))
    return ("ok", type(ev), getattr(ev, "data", None), getattr(ev, "more_data", None))


def run_case(body: bytes, boundary: bytes, **kw) -> tuple[int, int]:
    new, old = MultipartDecoder(boundary, **kw), OrigDecoder(boundary, **kw)
    n = exc = 0
    for chunk in [*chunks(body), None]:
        ra = rb = None
        try:
            new.receive_data(chunk)
        except RequestEntityTooLarge:
            ra = "too large"
        try:
            old.receive_data(chunk)
        except RequestEntityTooLarge:
            rb = "too large"
        assert ra == rb
        if ra:
            return n, exc
        for _ in range(10000):
            a, b = step(new), step(old)
            n += 1
            assert a == b, (body, boundary, a, b)
            assert snapshot(new) == snapshot(old), (body, boundary)
            if a[0] == "exc":
                exc += 1
                # a caller may keep calling after an error; check a few more
                for _ in range(2):
                    a, b = step(new), step(old)
                    assert a == b and snapshot(new) == snapshot(old)
                if chunk is None:
                    return n, exc
                break
            if a[1] in (NeedData, Epilogue):
                break
    return n, exc


def main() -> None:
    total = excs = 0
    for _case in range(5000):
        boundary = rng.choice(
            [b"b", b"boundary", b"-", b"--", b"a.b+c", b"x" * 30, b"----WebKit7MA4YWxk"]
        )
        body = mutate(build_body(boundary), boundary)
        kw = {}
        if rng.random() < 0.15:
            kw["max_parts"] = rng.randrange(3)
        if rng.random() < 0.1:
            kw["max_form_memory_size"] = rng.randrange(200)
        n, e = run_case(body, boundary, **kw)
        total += n
        excs += e

    # Direct calls of _parse_data on arbitrary buffers.
    direct = 0
    for _case in range(4000):
        boundary = rng.choice([b"b", b"boundary", b"-"])
        buf = rand_payload(boundary) + rng.choice(
            [b"", b"\r\n--" + boundary + b"\r\n", b"\n--" + boundary + b"--", b"\r"]
        ) + rand_payload(boundary)
        start = rng.random() < 0.5
        res = []
        for cls in (MultipartDecoder, OrigDecoder):
            dec = cls(boundary)
            dec.buffer.extend(buf)
            dec.state = State.DATA_START if start else State.DATA
            try:
                out = ("ok", dec._parse_data(dec.buffer, start=start))
            except Exception as e:  # noqa: B902
                out = ("exc", type(e), str(e))
            res.append((out, dec.state))
        assert res[0] == res[1], (buf, boundary, start, res)
        direct += 1

    print(f"compared {total} next_event steps ({excs} raising), {direct} _parse_data calls")
    print("PASS")


if __name__ == "__main__":
    main()
