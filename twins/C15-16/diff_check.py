"""Differential check for refactoring 1 (urls._make_unquote_part, urls._decode_idna).

Run: cd /tmp/wt13-C15 && PYTHONPATH=/tmp/wt13-C15/src /venv/bin/python /tmp/twin8-C15/1/diff_check.py
"""
import random
import re
from urllib.parse import unquote

import werkzeug.urls as new  # registers the 'werkzeug.url_quote' error handler


# ---- ORIGINAL implementations (copied from the unmodified tree) ----
def orig_make_unquote_part(name, chars):
    choices = "|".join(f"{ord(c):02X}" for c in sorted(chars))
    pattern = re.compile(f"((?:%(?:{choices}))+)", re.I)

    def _unquote_partial(value):
        parts = iter(pattern.split(value))
        out = []

        for part in parts:
            out.append(unquote(part, "utf-8", "werkzeug.url_quote"))
            out.append(next(parts, ""))

        return "".join(out)

    _unquote_partial.__name__ = f"_unquote_{name}"
    return _unquote_partial


def orig_decode_idna(domain):
    try:
        data = domain.encode("ascii")
    except UnicodeEncodeError:
        return domain

    try:
        return data.decode("idna")
    except UnicodeError:
        pass

    parts = []

    for part in data.split(b"."):
        try:
            parts.append(part.decode("idna"))
        except UnicodeError:
            parts.append(part.decode("ascii"))

    return ".".join(parts)


_always_unsafe = bytes((*range(0x21), 0x25, 0x7F)).decode()
SETS = {
    "fragment": _always_unsafe,
    "query": _always_unsafe + "&=+#",
    "path": _always_unsafe + "/?#",
    "user": _always_unsafe + ":@/?#",
    "custom": "aZ~",
}


def run(f, *a):
    try:
        return ("ok", f(*a))
    except Exception as e:  # noqa: BLE001
        return ("exc", type(e))


rng = random.Random(1515)
ALPHA = "abcXYZ019-._~/?#&=+:@ %å☃\U0001f600\udc80"
HEX = "0123456789abcdefABCDEFgG"


def gen_quoted():
    out = []
    for _ in range(rng.randint(0, 14)):
        r = rng.random()
        if r < 0.45:
            out.append("%" + rng.choice(HEX) + rng.choice(HEX))
        elif r < 0.55:
            # reserved / control escapes that must stay quoted
            out.append("%%%02X" % rng.choice([0x00, 0x20, 0x25, 0x26, 0x2F, 0x3F, 0x23, 0x3D, 0x2B, 0x3A, 0x40, 0x7F]))
        elif r < 0.7:
            out.append("".join("%%%02X" % b for b in rng.choice(["å", "☃", "\U0001f600", "ß"]).encode()))
        elif r < 0.75:
            out.append("%")
        else:
            out.append(rng.choice(ALPHA))
    return "".join(out)


LABELS = ["xn--n3h", "xn--", "xn--a", "xn--zz--", "example", "a" * 64, "", "xn--bcher-kva",
          "XN--N3H", "-", "xn--80ak6aa92e", "☃", "bücher", "[::1]", "1", "xn--999999999"]


def gen_domain():
    if rng.random() < 0.3:
        return "".join(rng.choice("abcxn-.0é☃%:[] \udc80") for _ in range(rng.randint(0, 12)))
    return ".".join(rng.choice(LABELS) for _ in range(rng.randint(1, 5)))


n = 0
bad = 0

new_funcs = {name: new._make_unquote_part(name, chars) for name, chars in SETS.items()}
old_funcs = {name: orig_make_unquote_part(name, chars) for name, chars in SETS.items()}
module_level = {
    "fragment": new._unquote_fragment,
    "query": new._unquote_query,
    "path": new._unquote_path,
    "user": new._unquote_user,
}

for name in SETS:
    if new_funcs[name].__name__ != old_funcs[name].__name__:
        bad += 1
        print("name mismatch", name)

for _ in range(6000):
    v = gen_quoted()
    for name in SETS:
        a = run(old_funcs[name], v)
        b = run(new_funcs[name], v)
        n += 1
        if a != b:
            bad += 1
            print("unquote mismatch", name, repr(v), a, b)
        if name in module_level:
            c = run(module_level[name], v)
            if a != c:
                bad += 1
                print("module-level mismatch", name, repr(v), a, c)

for _ in range(6000):
    d = gen_domain()
    a = run(orig_decode_idna, d)
    b = run(new._decode_idna, d)
    n += 1
    if a != b:
        bad += 1
        print("idna mismatch", repr(d), a, b)

print(f"{n} comparisons, {bad} mismatches")
print("PASS" if bad == 0 else "FAIL")
