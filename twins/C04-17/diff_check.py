# --- shared scenario generator (pasted into every diff_check.py) ---
import random
import uuid as _uuid
from urllib.parse import urlsplit, unquote

from werkzeug.routing import Map, Rule, Submount, Subdomain
from werkzeug.datastructures import MultiDict

ALPHABET = list("abcXYZ019 ;?#%&=+@:,!$'()*~-_.") + ["é", "ü", "中", "\U0001f600", "Ж"]


def rand_text(rng, lo=1, hi=8):
    return "".join(rng.choice(ALPHABET) for _ in range(rng.randint(lo, hi)))


def rand_path(rng):
    segs = [rand_text(rng, 1, 5) for _ in range(rng.randint(1, 4))]
    return "/".join(segs)


def make_map(rng, idx):
    host_matching = idx % 5 == 4
    host = "example.org" if host_matching else None

    def R(rule, **kw):
        if host_matching:
            kw.setdefault("host", rng.choice(["example.org", "other.example.org", "<hh>.example.net"]))
        return Rule(rule, **kw)

    rules = [
        R("/", endpoint="index"),
        R("/s/<string:v>", endpoint="s"),
        R("/sl/<string(length=3):v>", endpoint="sl"),
        R("/sm/<string(minlength=2,maxlength=5):v>", endpoint="sm"),
        R("/i/<int:v>", endpoint="i"),
        R("/is/<int(signed=True):v>", endpoint="is"),
        R("/if/<int(fixed_digits=4):v>", endpoint="if"),
        R("/im/<int(min=3,max=500):v>", endpoint="im"),
        R("/f/<float:v>", endpoint="f"),
        R("/fs/<float(signed=True):v>", endpoint="fs"),
        R("/a/<any(about,help,'foo bar',\"x;y\"):v>", endpoint="a"),
        R("/u/<uuid:v>", endpoint="u"),
        R("/p/<path:v>", endpoint="p"),
        R("/pe/<path:v>/edit", endpoint="pe"),
        R("/two/<int:a>/x/<string:b>", endpoint="two"),
        # defaults: two rules for one endpoint
        R("/d/", endpoint="d", defaults={"page": 1}),
        R("/d/page/<int:page>", endpoint="d"),
        R("/dd/<int:v>/", endpoint="dd", defaults={"v": 7}),
        # methods
        R("/m/get/<v>", endpoint="m", methods=["GET"]),
        R("/m/post/<v>", endpoint="m", methods=["POST"]),
        # alias / build_only
        R("/al/<v>", endpoint="al"),
        R("/al2/<v>", endpoint="al", alias=True),
        R("/bo/<v>", endpoint="bo", build_only=True),
        R("/ws/<v>", endpoint="ws", websocket=True),
        R("/lit é;x/<v>", endpoint="lit"),
        Submount("/sub", [Rule("/x/<string:v>", endpoint="subx"), Rule("/y/<path:v>", endpoint="suby")]),
    ]
    if not host_matching:
        rules.append(Subdomain("api", [Rule("/k/<int:v>", endpoint="k"), Rule("/ks/<v>", endpoint="ks")]))
        rules.append(Rule("/sd/<v>", endpoint="sd", subdomain="<sub>"))
        rules.append(Rule("/multi/<v>", endpoint="multi", subdomain="a"))
        rules.append(Rule("/multi2/<v>", endpoint="multi", subdomain="b"))
    else:
        rules.append(Rule("/hm/<v>", endpoint="hm", host="other.example.org"))
        rules.append(Rule("/hm2/<v>", endpoint="hm", host="example.org"))
        rules.append(Rule("/hn/<v>", endpoint="hn", host="x.example.net"))
        rules.append(Rule("/hn2/<v>", endpoint="hn", host="y.example.net"))
    kw = dict(host_matching=host_matching, sort_parameters=idx % 2 == 0)
    if idx % 3 == 0:
        kw["strict_slashes"] = False
    return Map(rules, **kw)


ENDPOINTS = [
    "index", "s", "sl", "sm", "i", "is", "if", "im", "f", "fs", "a", "u", "p", "pe",
    "two", "d", "dd", "m", "al", "bo", "ws", "lit", "subx", "suby", "k", "ks", "sd",
    "multi", "hm", "hn", "missing",
]


def rand_value(rng, ep):
    r = rng.random()
    if r < 0.06:
        return rng.choice([None, "", "a/b", -5, 3.5, "zz", object, [1, 2], ("x",), float("nan"), 1e30, True])
    if ep in ("s", "m", "al", "bo", "ws", "lit", "subx", "ks", "sd", "multi", "hm", "hn"):
        return rand_text(rng)
    if ep == "sl":
        return rand_text(rng, 3, 3) if rng.random() < 0.8 else rand_text(rng, 1, 5)
    if ep == "sm":
        return rand_text(rng, 2, 5) if rng.random() < 0.8 else rand_text(rng, 1, 8)
    if ep in ("i", "if", "k", "dd"):
        return rng.choice([0, 1, 7, 42, 9999, 12345, rng.randint(0, 10**9), str(rng.randint(0, 99))])
    if ep == "is":
        return rng.randint(-10**6, 10**6)
    if ep == "im":
        return rng.randint(0, 600)
    if ep == "f":
        return rng.choice([0.0, 1.5, 3.25, round(rng.uniform(0, 1000), 3), 7])
    if ep == "fs":
        return round(rng.uniform(-1000, 1000), 4)
    if ep == "a":
        return rng.choice(["about", "help", "foo bar", "x;y", "nope"])
    if ep == "u":
        return _uuid.UUID(int=rng.getrandbits(128)) if rng.random() < 0.9 else str(_uuid.UUID(int=rng.getrandbits(128))).upper()
    if ep in ("p", "pe", "suby"):
        return rand_path(rng)
    return rand_text(rng)


def rand_values(rng, ep):
    vals = {}
    if ep == "two":
        vals = {"a": rng.randint(0, 1000), "b": rand_text(rng)}
    elif ep == "d":
        c = rng.random()
        if c < 0.3:
            vals = {}
        elif c < 0.6:
            vals = {"page": 1}
        else:
            vals = {"page": rng.choice([1, 2, 30, "1", 1.0, True])}
    elif ep == "dd":
        vals = {} if rng.random() < 0.3 else {"v": rng.choice([7, 8, "7", 7.0])}
    elif ep in ("index", "missing"):
        vals = {}
    else:
        vals = {"v": rand_value(rng, ep)}
    if ep == "sd":
        vals["sub"] = rng.choice(["www", "api", "x-y", "ü"])
    if rng.random() < 0.1 and vals:
        vals.pop(rng.choice(sorted(vals)))
    # extra query values
    if rng.random() < 0.4:
        for _ in range(rng.randint(1, 3)):
            k = rng.choice(["q", "z", "b c", "é", "hh", "n"])
            vals[k] = rng.choice([rand_text(rng), 5, None, [rand_text(rng), 3], (1, 2), "", 2.5, True])
    if "hh" not in vals and rng.random() < 0.5:
        vals["hh"] = rng.choice(["x", "y", "www"])
    if rng.random() < 0.1:
        return MultiDict([(k, v) for k, v in vals.items() if v is not None])
    return vals


def norm(x):
    if isinstance(x, float) and x != x:
        return "nan"
    if isinstance(x, dict):
        return {k: norm(v) for k, v in x.items()}
    return x


def run_scenarios(n_maps=10, per_map=450, seed=20260104):
    """Return a list of printable outcome records."""
    rng = random.Random(seed)
    out = []
    for mi in range(n_maps):
        m = make_map(rng, mi)
        script = ["/", "/app", "/app/"][mi % 3]
        server = "example.org"
        sub = [None, "", "api", "a", "b"][mi % 5] if not m.host_matching else None
        ad = m.bind(server, script_name=script, subdomain=sub, default_method=["GET", "POST", "GET"][mi % 3])
        for _ in range(per_map):
            ep = rng.choice(ENDPOINTS)
            vals = rand_values(rng, ep)
            method = rng.choice([None, None, "GET", "POST", "PUT"])
            fe = rng.random() < 0.4
            au = rng.random() < 0.8
            rec = [mi, ep, repr(sorted(vals.items(), key=lambda kv: str(kv[0])) if not isinstance(vals, MultiDict) else sorted(vals.items(multi=True), key=lambda kv: str(kv[0]))), method, fe, au]
            try:
                url = ad.build(ep, vals, method=method, force_external=fe, append_unknown=au)
                rec.append(("url", url))
            except Exception as e:  # noqa: BLE001
                rec.append(("exc", type(e).__name__))
                out.append(rec)
                continue
            # partial build too (gives websocket flag + domain part)
            try:
                rec.append(("pb", ad._partial_build(ep, vals, method, au)))
            except Exception as e:  # noqa: BLE001
                rec.append(("pbexc", type(e).__name__))
            # match what a server would deliver
            parts = urlsplit(url)
            path = unquote(parts.path)
            root = script.rstrip("/")
            if root and path.startswith(root):
                path = path[len(root):]
            netloc = parts.netloc
            try:
                if m.host_matching:
                    a2 = m.bind(netloc or server, script_name=script)
                elif netloc:
                    sd = netloc[: -len(server)].rstrip(".") if netloc.endswith(server) else ""
                    a2 = m.bind(server, script_name=script, subdomain=sd)
                else:
                    a2 = ad
                for meth in ("GET", "POST"):
                    try:
                        mep, mvals = a2.match(path, method=meth, query_args=parts.query, websocket=(ep == "ws"))
                        rec.append(("match", meth, mep, repr(norm(mvals))))
                        try:
                            rec.append(("rebuild", a2.build(mep, mvals, method=meth, force_external=fe)))
                        except Exception as e:  # noqa: BLE001
                            rec.append(("rebuildexc", type(e).__name__))
                    except Exception as e:  # noqa: BLE001
                        rec.append(("matchexc", meth, type(e).__name__, getattr(e, "new_url", None)))
            except Exception as e:  # noqa: BLE001
                rec.append(("bindexc", type(e).__name__))
            out.append(rec)
    return out


# --- ORIGINAL implementations (copied from the unmodified tree) ---
from werkzeug.routing.converters import ValidationError


def _orig_build(self, values, append_unknown=True):
    try:
        if append_unknown:
            return self._build_unknown(**values)
        else:
            return self._build(**values)
    except ValidationError:
        return None


def _orig_suitable_for(self, values, method=None):
    # if a method was given explicitly and that method is not supported
    # by this rule, this rule is not suitable.
    if (
        method is not None
        and self.methods is not None
        and method not in self.methods
    ):
        return False

    defaults = self.defaults or ()

    # all arguments required must be either in the defaults dict or
    # the value dictionary otherwise it's not suitable
    for key in self.arguments:
        if key not in defaults and key not in values:
            return False

    # in case defaults are given we ensure that either the value was
    # skipped or the value is the same as the default value.
    if defaults:
        for key, value in defaults.items():
            if key in values and value != values[key]:
                return False

    return True


def direct_checks(n=6000, seed=99):
    """Call Rule.suitable_for / Rule.build directly, refactored vs original."""
    rng = random.Random(seed)
    m = make_map(rng, 0)
    m2 = make_map(rng, 4)
    rules = list(m.iter_rules()) + list(m2.iter_rules())
    # an unbound rule as well (no _build attribute -> AttributeError both ways)
    unbound = Rule("/zz/<v>", endpoint="zz")
    bad = 0

    def call(f, *a):
        try:
            return ("ok", f(*a))
        except Exception as e:  # noqa: BLE001
            return ("exc", type(e).__name__)

    for i in range(n):
        rule = rng.choice(rules) if i % 50 else unbound
        vals = rand_values(rng, rule.endpoint if rng.random() < 0.8 else rng.choice(ENDPOINTS))
        method = rng.choice([None, "GET", "POST", "HEAD", "PUT"])
        au = rng.random() < 0.5
        r1 = call(type(rule).suitable_for, rule, vals, method)
        r2 = call(_orig_suitable_for, rule, vals, method)
        b1 = call(type(rule).build, rule, vals, au)
        b2 = call(_orig_build, rule, vals, au)
        if r1 != r2 or b1 != b2 or type(r1[1]) is not type(r2[1]):
            bad += 1
            if bad <= 5:
                print("DIRECT DIFF", rule, vals, method, au, r1, r2, b1, b2)
    return n, bad


def main():
    from werkzeug.routing.rules import Rule as _Rule

    refactored = run_scenarios()
    saved = (_Rule.build, _Rule.suitable_for)
    _Rule.build, _Rule.suitable_for = _orig_build, _orig_suitable_for
    try:
        original = run_scenarios()
    finally:
        _Rule.build, _Rule.suitable_for = saved

    assert len(original) == len(refactored) and len(original) >= 4000
    bad = [(a, b) for a, b in zip(original, refactored) if a != b]
    for a, b in bad[:5]:
        print("DIFF\n  orig:", a, "\n  new: ", b)
    print(f"{len(original)} scenarios compared, {len(bad)} differences")
    n, dbad = direct_checks()
    print(f"{n} direct suitable_for/build calls compared, {dbad} differences")
    print("PASS" if not bad and not dbad else "FAIL")


if __name__ == "__main__":
    main()
