"""Differential check for property C12, refactoring 1 (_partial_build flattened with early continue).

Runs the same seeded workload twice:
  pass A - the code as it is in the worktree (refactored),
  pass B - the worktree with the ORIGINAL implementations (pasted below)
           monkeypatched over the refactored functions,
and prints PASS only if every outcome (return value or exception type and
payload) is identical.  Maps are rebuilt for each pass because Rule compiles
the converters' ``to_url`` bound methods into its builder at bind time.

Run: cd /tmp/wt14-C12 && PYTHONPATH=/tmp/wt14-C12/src /venv/bin/python <this file>
"""

from __future__ import annotations

import random
import sys
import typing as t
import uuid
from urllib.parse import quote
from urllib.parse import urljoin

import werkzeug
from werkzeug.datastructures import MultiDict
from werkzeug.exceptions import HTTPException
from werkzeug.exceptions import MethodNotAllowed
from werkzeug.exceptions import NotFound
from werkzeug.routing import converters as conv_mod
from werkzeug.routing import map as map_mod
from werkzeug.routing import Map
from werkzeug.routing import Rule
from werkzeug.routing import Submount
from werkzeug.routing.exceptions import BuildError
from werkzeug.routing.exceptions import NoMatch
from werkzeug.routing.exceptions import RequestAliasRedirect
from werkzeug.routing.exceptions import RequestPath
from werkzeug.routing.exceptions import RequestRedirect
from werkzeug.routing.exceptions import WebsocketMismatch
from werkzeug.routing.rules import _simple_rule_re

assert werkzeug.__file__.startswith("/tmp/wt14-C12/"), werkzeug.__file__

MapAdapter = map_mod.MapAdapter
BaseConverter = conv_mod.BaseConverter
AnyConverter = conv_mod.AnyConverter
NumberConverter = conv_mod.NumberConverter
UUIDConverter = conv_mod.UUIDConverter


# --------------------------------------------------------------------------
# ORIGINAL implementations (copied verbatim from the unmodified tree,
# docstrings dropped; zero-arg super() spelled out since it is outside the
# class body).
# --------------------------------------------------------------------------
def orig_base_to_url(self, value):
    # safe = https://url.spec.whatwg.org/#url-path-segment-string
    return quote(str(value), safe="!$&'()*+,/:;=@")


def orig_any_to_url(self, value):
    if value in self.items:
        return super(AnyConverter, self).to_url(value)

    valid_values = ", ".join(f"'{item}'" for item in sorted(self.items))
    raise ValueError(f"'{value}' is not one of {valid_values}")


def orig_number_to_url(self, value):
    value_str = str(self.num_convert(value))
    if self.fixed_digits:
        value_str = value_str.zfill(self.fixed_digits)
    return value_str


def orig_uuid_to_url(self, value):
    return str(value)


def orig_match(
    self,
    path_info=None,
    method=None,
    return_rule=False,
    query_args=None,
    websocket=None,
):
    self.map.update()
    if path_info is None:
        path_info = self.path_info
    if query_args is None:
        query_args = self.query_args or {}
    method = (method or self.default_method).upper()

    if websocket is None:
        websocket = self.websocket

    domain_part = self.server_name

    if not self.map.host_matching and self.subdomain is not None:
        domain_part = self.subdomain

    path_part = f"/{path_info.lstrip('/')}" if path_info else ""

    try:
        result = self.map._matcher.match(domain_part, path_part, method, websocket)
    except RequestPath as e:
        # safe = https://url.spec.whatwg.org/#url-path-segment-string
        new_path = quote(e.path_info, safe="!$&'()*+,/:;=@")
        raise RequestRedirect(self.make_redirect_url(new_path, query_args)) from None
    except RequestAliasRedirect as e:
        raise RequestRedirect(
            self.make_alias_redirect_url(
                f"{domain_part}|{path_part}",
                e.endpoint,
                e.matched_values,
                method,
                query_args,
            )
        ) from None
    except NoMatch as e:
        if e.have_match_for:
            raise MethodNotAllowed(valid_methods=list(e.have_match_for)) from None

        if e.websocket_mismatch:
            raise WebsocketMismatch() from None

        raise NotFound() from None
    else:
        rule, rv = result

        if self.map.redirect_defaults:
            redirect_url = self.get_default_redirect(rule, method, rv, query_args)
            if redirect_url is not None:
                raise RequestRedirect(redirect_url)

        if rule.redirect_to is not None:
            if isinstance(rule.redirect_to, str):

                def _handle_match(match):
                    value = rv[match.group(1)]
                    return rule._converters[match.group(1)].to_url(value)

                redirect_url = _simple_rule_re.sub(_handle_match, rule.redirect_to)
            else:
                redirect_url = rule.redirect_to(self, **rv)

            if self.subdomain:
                netloc = f"{self.subdomain}.{self.server_name}"
            else:
                netloc = self.server_name

            raise RequestRedirect(
                urljoin(
                    f"{self.url_scheme or 'http'}://{netloc}{self.script_name}",
                    redirect_url,
                )
            )

        if return_rule:
            return rule, rv
        else:
            return rule.endpoint, rv


def orig_make_alias_redirect_url(self, path, endpoint, values, method, query_args):
    url = self.build(
        endpoint, values, method, append_unknown=False, force_external=True
    )
    if query_args:
        url += f"?{self.encode_query_args(query_args)}"
    assert url != path, "detected invalid alias setting. No canonical URL found"
    return url


def orig_partial_build(self, endpoint, values, method, append_unknown):
    # in case the method is none, try with the default method first
    if method is None:
        rv = self._partial_build(endpoint, values, self.default_method, append_unknown)
        if rv is not None:
            return rv

    # Default method did not match or a specific method is passed.
    # Check all for first match with matching host. If no matching
    # host is found, go with first result.
    first_match = None

    for rule in self.map._rules_by_endpoint.get(endpoint, ()):
        if rule.suitable_for(values, method):
            build_rv = rule.build(values, append_unknown)

            if build_rv is not None:
                rv = (build_rv[0], build_rv[1], rule.websocket)
                if self.map.host_matching:
                    if rv[0] == self.server_name:
                        return rv
                    elif first_match is None:
                        first_match = rv
                else:
                    return rv

    return first_match


def orig_build(
    self,
    endpoint,
    values=None,
    method=None,
    force_external=False,
    append_unknown=True,
    url_scheme=None,
):
    self.map.update()

    if values:
        if isinstance(values, MultiDict):
            values = {
                k: (v[0] if len(v) == 1 else v)
                for k, v in dict.items(values)
                if len(v) != 0
            }
        else:  # plain dict
            values = {k: v for k, v in values.items() if v is not None}
    else:
        values = {}

    rv = self._partial_build(endpoint, values, method, append_unknown)
    if rv is None:
        raise BuildError(endpoint, values, method, self)

    domain_part, path, websocket = rv
    host = self.get_host(domain_part)

    if url_scheme is None:
        url_scheme = self.url_scheme

    # Always build WebSocket routes with the scheme (browsers
    # require full URLs). If bound to a WebSocket, ensure that HTTP
    # routes are built with an HTTP scheme.
    secure = url_scheme in {"https", "wss"}

    if websocket:
        force_external = True
        url_scheme = "wss" if secure else "ws"
    elif url_scheme:
        url_scheme = "https" if secure else "http"

    # shortcut this.
    if not force_external and (
        (self.map.host_matching and host == self.server_name)
        or (not self.map.host_matching and domain_part == self.subdomain)
    ):
        return f"{self.script_name.rstrip('/')}/{path.lstrip('/')}"

    scheme = f"{url_scheme}:" if url_scheme else ""
    return f"{scheme}//{host}{self.script_name[:-1]}/{path.lstrip('/')}"


def install_originals() -> None:
    BaseConverter.to_url = orig_base_to_url
    AnyConverter.to_url = orig_any_to_url
    NumberConverter.to_url = orig_number_to_url
    UUIDConverter.to_url = orig_uuid_to_url
    MapAdapter.match = orig_match
    MapAdapter.make_alias_redirect_url = orig_make_alias_redirect_url
    MapAdapter._partial_build = orig_partial_build
    MapAdapter.build = orig_build


# --------------------------------------------------------------------------
# workload
# --------------------------------------------------------------------------
U1 = uuid.UUID("12345678-1234-5678-1234-567812345678")


def make_maps() -> list[Map]:
    def common_rules() -> list[t.Any]:
        return [
            Rule("/", endpoint="index"),
            Rule("/foo/", endpoint="foo"),
            Rule("/bar", endpoint="bar"),
            Rule("/bar/<name>", endpoint="bar_name"),
            Rule("/bar/<name>/", endpoint="bar_name_slash"),
            Rule("/p/", defaults={"page": 1}, endpoint="page"),
            Rule("/p/<int:page>/", endpoint="page"),
            Rule("/q", defaults={"n": 2.5, "k": "a"}, endpoint="q"),
            Rule("/q/<float:n>/<any(a,b,'c d'):k>", endpoint="q"),
            Rule("/users/<int(fixed_digits=4):uid>", endpoint="user"),
            Rule("/u/<int:uid>", endpoint="user", alias=True),
            Rule("/neg/<int(signed=True):v>/", endpoint="neg"),
            Rule("/wiki/<path:page>", endpoint="wiki"),
            Rule("/wiki/<path:page>/edit/", endpoint="wiki_edit"),
            Rule("/w/<path:page>", endpoint="wiki", alias=True),
            Rule("/obj/<uuid:ident>", endpoint="obj"),
            Rule("/o/<uuid:ident>/", endpoint="obj", alias=True),
            Rule("/only-post/", endpoint="only_post", methods=["POST"]),
            Rule("/multi", endpoint="multi", methods=["GET"]),
            Rule("/multi/post", endpoint="multi", methods=["POST"]),
            Rule("/ws/<room>/", endpoint="ws", websocket=True),
            Rule("/old/<name>", endpoint="old", redirect_to="bar/<name>"),
            Rule("/old2/<int:page>/", endpoint="old2", redirect_to="/p/<page>/"),
            Rule("/ns/<string(length=2):lang>/x/", endpoint="lang"),
            Rule("/a b/<name>/", endpoint="space"),
            Rule("/nm/a//b/", endpoint="nomerge", merge_slashes=False),
            Rule("/ns2/leaf", endpoint="leaf", strict_slashes=False),
            Rule("/ns2/branch/", endpoint="branch", strict_slashes=False),
            Submount("/sub", [Rule("/", endpoint="sub_index"), Rule("/x/", endpoint="sub_x")]),
        ]

    maps = [
        Map(common_rules()),
        Map(common_rules(), strict_slashes=False),
        Map(common_rules(), merge_slashes=False),
        Map(common_rules(), redirect_defaults=False),
        Map(
            common_rules()
            + [
                Rule("/sd/", endpoint="sd", subdomain="api"),
                Rule("/sd/<int:x>", endpoint="sdx", subdomain="api"),
                Rule("/sd2/", defaults={"x": 1}, endpoint="sd2", subdomain="<sub>"),
                Rule("/sd2/<int:x>/", endpoint="sd2", subdomain="<sub>"),
                Rule("/sd3/", endpoint="sd3", subdomain="other"),
                Rule("/sd3a/", endpoint="sd3", subdomain="other", alias=True),
            ],
            default_subdomain="www",
        ),
        Map(
            [
                Rule("/", endpoint="index", host="example.com"),
                Rule("/foo/", endpoint="foo", host="example.com"),
                Rule("/foo/", endpoint="foo", host="other.test"),
                Rule("/h/<int:x>/", endpoint="h", host="<hh>"),
                Rule("/h/", defaults={"x": 7}, endpoint="h", host="<hh>"),
                Rule("/files/<path:p>", endpoint="files", host="cdn.example.com"),
                Rule("/f/<path:p>", endpoint="files", host="cdn.example.com", alias=True),
                Rule("/f/<path:p>", endpoint="files", host="example.com", alias=True),
                Rule("/files/<path:p>", endpoint="files", host="example.com"),
                Rule("/sock/", endpoint="sock", host="example.com", websocket=True),
            ],
            host_matching=True,
        ),
    ]
    return maps


BINDS = [
    dict(server_name="example.com"),
    dict(server_name="example.com", script_name="/app"),
    dict(server_name="example.com", script_name="/app/", url_scheme="https"),
    dict(server_name="example.com:8080", script_name="//x/", query_args="a=1&b=2"),
    dict(server_name="example.com", subdomain="api", query_args={"z": "1 2", "y": ["a", "b"]}),
    dict(server_name="example.com", subdomain="", url_scheme="ws"),
    dict(server_name="example.com", subdomain="other", url_scheme="wss"),
    dict(server_name="cdn.example.com", url_scheme=""),
    dict(server_name="other.test", default_method="POST", path_info="/foo"),
]

SEGS = [
    "", "", "foo", "bar", "p", "q", "1", "0001", "42", "-3", "2.5", "a", "b", "c d",
    "users", "u", "neg", "wiki", "w", "edit", "obj", "o", str(U1), "only-post",
    "multi", "post", "ws", "room", "old", "old2", "ns", "en", "x", "a b", "nm",
    "ns2", "leaf", "branch", "sub", "sd", "sd2", "sd3", "sd3a", "h", "files", "f",
    "evil.com", "%2F", "%", "üñ", "a?b", "a#b", "a;b", "a:b", "@", "\\",
    "..", ".", "a+b", "a&b=c", "☃", " ", "%20",
]
METHODS = [None, "GET", "POST", "get", "HEAD", "PUT"]
QUERY = [None, None, "", "x=1", "x=1&y=%20", {}, {"a": "b"}, {"a": [1, 2], "k": "v w"},
         MultiDict([("m", "1"), ("m", "2")])]


GOOD_PATHS = [
    "/", "/foo/", "/bar", "/bar/x", "/bar/a b/", "/p/", "/p/1/", "/p/2/", "/q",
    "/q/2.5/a", "/q/1.5/c d", "/users/0042", "/u/42", "/u/12345", "/neg/-3/",
    "/wiki/a/b", "/wiki/a/b/edit/", "/w/a/b", "/w/a b/ü", "/obj/" + str(U1),
    "/o/" + str(U1) + "/", "/only-post/", "/multi", "/multi/post", "/ws/room/",
    "/old/x", "/old2/3/", "/ns/en/x/", "/a b/n/", "/nm/a//b/", "/ns2/leaf",
    "/ns2/branch/", "/sub/", "/sub/x/", "/sd/", "/sd/4", "/sd2/", "/sd2/1/",
    "/sd2/5/", "/sd3/", "/sd3a/", "/h/", "/h/7/", "/h/8/", "/files/a/b", "/f/a/b",
    "/f/a b/%2F", "/sock/", "/wiki/evil.com/x", "/w//evil.com/x", "/bar/a?b",
    "/bar/a;b:c@d/", "/wiki/a%b/☃", "/w/a#b",
]


def mutate(rng: random.Random, path: str) -> str:
    for _ in range(rng.randint(0, 3)):
        r = rng.random()
        if r < 0.25:
            path = path[:-1] if path.endswith("/") else path + "/"
        elif r < 0.5:
            i = rng.randrange(len(path) + 1)
            path = path[:i] + rng.choice(["/", "//", "///"]) + path[i:]
        elif r < 0.65:
            path = rng.choice(["", "/", "//", "//evil.com/", "///"]) + path.lstrip("/")
        elif r < 0.8:
            path = path + rng.choice(["/", "//", "/" + rng.choice(SEGS)])
        else:
            i = path.find("/", 1)
            if i > 0:
                path = path[:i] + "/" + path[i:]
    return path


def gen_path(rng: random.Random) -> str | None:
    r = rng.random()
    if r < 0.02:
        return None
    if r < 0.7:
        return mutate(rng, rng.choice(GOOD_PATHS))
    n = rng.randint(0, 5)
    parts = [rng.choice(SEGS) for _ in range(n)]
    lead = rng.choice(["/", "/", "/", "", "//", "///"])
    trail = rng.choice(["", "", "/", "//"])
    return lead + "/".join(parts) + trail


ENDPOINTS = [
    "index", "foo", "bar", "bar_name", "bar_name_slash", "page", "q", "user", "neg",
    "wiki", "wiki_edit", "obj", "only_post", "multi", "ws", "old", "old2", "lang",
    "space", "nomerge", "leaf", "branch", "sub_index", "sub_x", "sd", "sdx", "sd2",
    "sd3", "h", "files", "sock", "missing",
]
VALUE_POOL: dict[str, list[t.Any]] = {
    "name": ["x", "a b", "ü", "a/b", "", None, 5, "%2F", "a?b#c"],
    "page": [1, 2, "3", 0, -1, None, "x", 1.0, [1], "a/b", True],
    "n": [2.5, 1, "3.5", None, "x", -0.5],
    "k": ["a", "b", "c d", "z", None, ["a"], 1],
    "uid": [1, 42, "7", 12345, -1, None, "abc"],
    "v": [-3, 3, "-4", None],
    "ident": [U1, str(U1), "nope", None],
    "room": ["r", "a b", None],
    "lang": ["en", "eng", None],
    "x": [1, 7, 9, "2", None],
    "sub": ["api", "www", "", None],
    "hh": ["example.com", "other.test", "cdn.example.com", None],
    "p": ["a", "a/b", "a//b", "/a", "ü/ b", None],
    "extra": ["e", ["1", "2"], None, 3],
    "other": ["o"],
}


def gen_values(rng: random.Random) -> t.Any:
    r = rng.random()
    if r < 0.05:
        return None
    keys = rng.sample(list(VALUE_POOL), rng.randint(0, 4))
    items = [(k, rng.choice(VALUE_POOL[k])) for k in keys]
    if r < 0.2:
        md = MultiDict()
        for k, v in items:
            if isinstance(v, list):
                md.setlist(k, v)
            elif v is None:
                md.setlist(k, [])
            else:
                md.add(k, v)
                if rng.random() < 0.3:
                    md.add(k, v)
        return md
    return dict(items)


def plain(vals: t.Any) -> dict[str, t.Any]:
    if vals is None:
        return {}
    if isinstance(vals, MultiDict):
        return {k: (v[0] if len(v) == 1 else v) for k, v in dict.items(vals) if v}
    return dict(vals)


def norm(v: t.Any) -> t.Any:
    if isinstance(v, Rule):
        return ("Rule", v.rule, v.endpoint)
    if isinstance(v, tuple):
        return tuple(norm(x) for x in v)
    if isinstance(v, dict):
        return {k: norm(x) for k, x in v.items()}
    return v


def outcome(fn: t.Callable[[], t.Any]) -> t.Any:
    try:
        return ("ok", repr(norm(fn())))
    except RequestRedirect as e:
        return ("RequestRedirect", e.new_url, e.code)
    except MethodNotAllowed as e:
        return ("MethodNotAllowed", sorted(e.valid_methods or ()))
    except BuildError as e:
        return ("BuildError", repr(e.endpoint), repr(e.values), e.method, str(e))
    except HTTPException as e:
        return (type(e).__name__, e.code)
    except Exception as e:  # noqa: B902
        return (type(e).__name__, repr(e.args))


def follow(adapter: MapAdapter, path: str | None, method: str | None) -> t.Any:
    """Follow router redirects (property C12: terminates, same host)."""
    trail = []
    for _ in range(6):
        try:
            return trail, repr(norm(adapter.match(path, method)))
        except RequestRedirect as e:
            trail.append(e.new_url)
            prefix = None
            for sch in ("http", "https", "ws", "wss"):
                root = f"{sch}://{adapter.get_host(None)}{adapter.script_name}"
                if e.new_url.startswith(root):
                    prefix = root
            if prefix is None:
                return trail, "offsite"
            path = "/" + e.new_url[len(prefix):].partition("?")[0]
        except HTTPException as e:
            return trail, type(e).__name__
    return trail, "loop"


def converter_unit_results() -> list[t.Any]:
    m = Map()
    convs = [
        BaseConverter(m),
        conv_mod.UnicodeConverter(m),
        conv_mod.PathConverter(m),
        AnyConverter(m, "a", "b", "c d", "ü"),
        AnyConverter(m),
        conv_mod.IntegerConverter(m),
        conv_mod.IntegerConverter(m, fixed_digits=4),
        conv_mod.IntegerConverter(m, fixed_digits=3, signed=True),
        conv_mod.FloatConverter(m),
        conv_mod.FloatConverter(m, signed=True),
        UUIDConverter(m),
    ]
    values = [
        0, 1, -1, 42, 12345, 1.5, -2.25, 1e20, float("inf"), float("nan"), True, False,
        None, "", "a", "b", "c d", "ü", "a/b", "%2F", "a?b#c", "!$&'()*+,/:;=@",
        "☃ x", "12", "-12", "1.5", "x1", " 7 ", b"ab", b"12", [1], ["a"], ("a",),
        {"a": 1}, U1, str(U1), object, 10**30, "0007", "+5", "1_000",
    ]
    out = []
    for c in convs:
        for v in values:
            out.append(outcome(lambda c=c, v=v: c.to_url(v)))
    return out


def run_all(seed: int = 20261003) -> list[t.Any]:
    rng = random.Random(seed)
    results: list[t.Any] = list(converter_unit_results())
    maps = make_maps()
    adapters = []
    for mi, m in enumerate(maps):
        for b in BINDS:
            kw = dict(b)
            if m.host_matching:
                kw.pop("subdomain", None)
            adapters.append((mi, m.bind(**kw)))

    # matching (RequestPath handler, alias redirect, default redirect)
    for _ in range(20000):
        mi, a = rng.choice(adapters)
        path = gen_path(rng)
        method = rng.choice(METHODS)
        q = rng.choice(QUERY)
        ws = rng.choice([None, None, None, True, False])
        rr = rng.random() < 0.2
        results.append(
            outcome(
                lambda: a.match(path, method, return_rule=rr, query_args=q, websocket=ws)
            )
        )
        if rng.random() < 0.25:
            results.append(outcome(lambda: follow(a, path, method)))

    # building (build / _partial_build / converters' to_url)
    for _ in range(20000):
        mi, a = rng.choice(adapters)
        ep = rng.choice(ENDPOINTS)
        vals = gen_values(rng)
        method = rng.choice(METHODS[:4])
        fe = rng.random() < 0.4
        au = rng.random() < 0.7
        us = rng.choice([None, None, "http", "https", "ws", "wss", "", "ftp"])
        results.append(
            outcome(
                lambda: a.build(
                    ep, vals, method, force_external=fe, append_unknown=au, url_scheme=us
                )
            )
        )
        if rng.random() < 0.3:
            pv = plain(vals)
            results.append(outcome(lambda: a._partial_build(ep, pv, method, au)))
        if rng.random() < 0.15:
            q = rng.choice(QUERY[2:])
            pv = {k: v for k, v in plain(vals).items() if v is not None}
            path = rng.choice(["www|/u/1", "|/", "x", "http://example.com/users/0001"])
            results.append(
                outcome(
                    lambda: a.make_alias_redirect_url(path, ep, pv, method or "GET", q)
                )
            )
    return results


def main() -> int:
    refactored = run_all()
    install_originals()
    original = run_all()
    if len(refactored) != len(original):
        print("FAIL: different number of results")
        return 1
    bad = [(i, a, b) for i, (a, b) in enumerate(zip(refactored, original)) if a != b]
    kinds: dict[str, int] = {}
    for r in original:
        kinds[r[0]] = kinds.get(r[0], 0) + 1
    print(f"{len(original)} comparisons; outcome kinds: {kinds}")
    if bad:
        for i, a, b in bad[:10]:
            print("DIFF", i, "\n  refactored:", a, "\n  original:  ", b)
        print(f"FAIL: {len(bad)} differences")
        return 1
    print("PASS")
    return 0


if __name__ == "__main__":
    sys.exit(main())
