"""Differential check for the C17 refactoring: the classes in the worktree's
werkzeug.datastructures.accept are compared against a verbatim copy of the
ORIGINAL implementation (pasted below, only the relative import of
ImmutableList adjusted) on generated inputs.  Prints PASS only if every
result and every raised exception type is identical.
"""
# ruff: noqa
from __future__ import annotations

# ---------------------------------------------------------------------------
# ORIGINAL implementation (copy of src/werkzeug/datastructures/accept.py at
# the unmodified tree), kept under the names OrigAccept etc. further below.
# ---------------------------------------------------------------------------

import codecs
import collections.abc as cabc
import re
import typing as t

from werkzeug.datastructures.structures import ImmutableList


class Accept(ImmutableList[tuple[str, float]]):
    """An :class:`Accept` object is just a list subclass for lists of
    ``(value, quality)`` tuples.  It is automatically sorted by specificity
    and quality.

    All :class:`Accept` objects work similar to a list but provide extra
    functionality for working with the data.  Containment checks are
    normalized to the rules of that header:

    >>> a = CharsetAccept([('ISO-8859-1', 1), ('utf-8', 0.7)])
    >>> a.best
    'ISO-8859-1'
    >>> 'iso-8859-1' in a
    True
    >>> 'UTF8' in a
    True
    >>> 'utf7' in a
    False

    To get the quality for an item you can use normal item lookup:

    >>> print a['utf-8']
    0.7
    >>> a['utf7']
    0

    .. versionchanged:: 0.5
       :class:`Accept` objects are forced immutable now.

    .. versionchanged:: 1.0.0
       :class:`Accept` internal values are no longer ordered
       alphabetically for equal quality tags. Instead the initial
       order is preserved.

    """

    def __init__(
        self, values: Accept | cabc.Iterable[tuple[str, float]] | None = ()
    ) -> None:
        if values is None:
            super().__init__()
            self.provided = False
        elif isinstance(values, Accept):
            self.provided = values.provided
            super().__init__(values)
        else:
            self.provided = True
            values = sorted(
                values, key=lambda x: (self._specificity(x[0]), x[1]), reverse=True
            )
            super().__init__(values)

    def _specificity(self, value: str) -> tuple[bool, ...]:
        """Returns a tuple describing the value's specificity."""
        return (value != "*",)

    def _value_matches(self, value: str, item: str) -> bool:
        """Check if a value matches a given accept item."""
        return item == "*" or item.lower() == value.lower()

    @t.overload
    def __getitem__(self, key: str) -> float: ...
    @t.overload
    def __getitem__(self, key: t.SupportsIndex) -> tuple[str, float]: ...
    @t.overload
    def __getitem__(self, key: slice) -> list[tuple[str, float]]: ...
    def __getitem__(
        self, key: str | t.SupportsIndex | slice
    ) -> float | tuple[str, float] | list[tuple[str, float]]:
        """Besides index lookup (getting item n) you can also pass it a string
        to get the quality for the item.  If the item is not in the list, the
        returned quality is ``0``.
        """
        if isinstance(key, str):
            return self.quality(key)
        return list.__getitem__(self, key)

    def quality(self, key: str) -> float:
        """Returns the quality of the key.

        .. versionadded:: 0.6
           In previous versions you had to use the item-lookup syntax
           (eg: ``obj[key]`` instead of ``obj.quality(key)``)
        """
        for item, quality in self:
            if self._value_matches(key, item):
                return quality
        return 0

    def __contains__(self, value: str) -> bool:  # type: ignore[override]
        for item, _quality in self:
            if self._value_matches(value, item):
                return True
        return False

    def __repr__(self) -> str:
        pairs_str = ", ".join(f"({x!r}, {y})" for x, y in self)
        return f"{type(self).__name__}([{pairs_str}])"

    def index(self, key: str | tuple[str, float]) -> int:  # type: ignore[override]
        """Get the position of an entry or raise :exc:`ValueError`.

        :param key: The key to be looked up.

        .. versionchanged:: 0.5
           This used to raise :exc:`IndexError`, which was inconsistent
           with the list API.
        """
        if isinstance(key, str):
            for idx, (item, _quality) in enumerate(self):
                if self._value_matches(key, item):
                    return idx
            raise ValueError(key)
        return list.index(self, key)

    def find(self, key: str | tuple[str, float]) -> int:
        """Get the position of an entry or return -1.

        :param key: The key to be looked up.
        """
        try:
            return self.index(key)
        except ValueError:
            return -1

    def values(self) -> cabc.Iterator[str]:
        """Iterate over all values."""
        for item in self:
            yield item[0]

    def to_header(self) -> str:
        """Convert the header set into an HTTP header string."""
        result = []
        for value, quality in self:
            if quality != 1:
                value = f"{value};q={quality}"
            result.append(value)
        return ",".join(result)

    def __str__(self) -> str:
        return self.to_header()

    def _best_single_match(self, match: str) -> tuple[str, float] | None:
        for client_item, quality in self:
            if self._value_matches(match, client_item):
                # self is sorted by specificity descending, we can exit
                return client_item, quality
        return None

    @t.overload
    def best_match(self, matches: cabc.Iterable[str]) -> str | None: ...
    @t.overload
    def best_match(self, matches: cabc.Iterable[str], default: str = ...) -> str: ...
    def best_match(
        self, matches: cabc.Iterable[str], default: str | None = None
    ) -> str | None:
        """Returns the best match from a list of possible matches based
        on the specificity and quality of the client. If two items have the
        same quality and specificity, the one is returned that comes first.

        :param matches: a list of matches to check for
        :param default: the value that is returned if none match
        """
        result = default
        best_quality: float = -1
        best_specificity: tuple[float, ...] = (-1,)
        for server_item in matches:
            match = self._best_single_match(server_item)
            if not match:
                continue
            client_item, quality = match
            specificity = self._specificity(client_item)
            if quality <= 0 or quality < best_quality:
                continue
            # better quality or same quality but more specific => better match
            if quality > best_quality or specificity > best_specificity:
                result = server_item
                best_quality = quality
                best_specificity = specificity
        return result

    @property
    def best(self) -> str | None:
        """The best match as value."""
        if self:
            return self[0][0]

        return None


_mime_split_re = re.compile(r"/|(?:\s*;\s*)")


def _normalize_mime(value: str) -> list[str]:
    return _mime_split_re.split(value.lower())


class MIMEAccept(Accept):
    """Like :class:`Accept` but with special methods and behavior for
    mimetypes.
    """

    def _specificity(self, value: str) -> tuple[bool, ...]:
        return tuple(x != "*" for x in _mime_split_re.split(value))

    def _value_matches(self, value: str, item: str) -> bool:
        # item comes from the client, can't match if it's invalid.
        if "/" not in item:
            return False

        # value comes from the application, tell the developer when it
        # doesn't look valid.
        if "/" not in value:
            raise ValueError(f"invalid mimetype {value!r}")

        # Split the match value into type, subtype, and a sorted list of parameters.
        normalized_value = _normalize_mime(value)
        value_type, value_subtype = normalized_value[:2]
        value_params = sorted(normalized_value[2:])

        # "*/*" is the only valid value that can start with "*".
        if value_type == "*" and value_subtype != "*":
            raise ValueError(f"invalid mimetype {value!r}")

        # Split the accept item into type, subtype, and parameters.
        normalized_item = _normalize_mime(item)
        item_type, item_subtype = normalized_item[:2]
        item_params = sorted(normalized_item[2:])

        # "*/not-*" from the client is invalid, can't match.
        if item_type == "*" and item_subtype != "*":
            return False

        return (
            (item_type == "*" and item_subtype == "*")
            or (value_type == "*" and value_subtype == "*")
        ) or (
            item_type == value_type
            and (
                item_subtype == "*"
                or value_subtype == "*"
                or (item_subtype == value_subtype and item_params == value_params)
            )
        )

    @property
    def accept_html(self) -> bool:
        """True if this object accepts HTML."""
        return "text/html" in self or self.accept_xhtml  # type: ignore[comparison-overlap]

    @property
    def accept_xhtml(self) -> bool:
        """True if this object accepts XHTML."""
        return "application/xhtml+xml" in self or "application/xml" in self  # type: ignore[comparison-overlap]

    @property
    def accept_json(self) -> bool:
        """True if this object accepts JSON."""
        return "application/json" in self  # type: ignore[comparison-overlap]


_locale_delim_re = re.compile(r"[_-]")


def _normalize_lang(value: str) -> list[str]:
    """Process a language tag for matching."""
    return _locale_delim_re.split(value.lower())


class LanguageAccept(Accept):
    """Like :class:`Accept` but with normalization for language tags."""

    def _value_matches(self, value: str, item: str) -> bool:
        return item == "*" or _normalize_lang(value) == _normalize_lang(item)

    @t.overload
    def best_match(self, matches: cabc.Iterable[str]) -> str | None: ...
    @t.overload
    def best_match(self, matches: cabc.Iterable[str], default: str = ...) -> str: ...
    def best_match(
        self, matches: cabc.Iterable[str], default: str | None = None
    ) -> str | None:
        """Given a list of supported values, finds the best match from
        the list of accepted values.

        Language tags are normalized for the purpose of matching, but
        are returned unchanged.

        If no exact match is found, this will fall back to matching
        the first subtag (primary language only), first with the
        accepted values then with the match values. This partial is not
        applied to any other language subtags.

        The default is returned if no exact or fallback match is found.

        :param matches: A list of supported languages to find a match.
        :param default: The value that is returned if none match.
        """
        # Look for an exact match first. If a client accepts "en-US",
        # "en-US" is a valid match at this point.
        result = super().best_match(matches)

        if result is not None:
            return result

        # Fall back to accepting primary tags. If a client accepts
        # "en-US", "en" is a valid match at this point. Need to use
        # re.split to account for 2 or 3 letter codes.
        fallback = Accept(
            [(_locale_delim_re.split(item[0], 1)[0], item[1]) for item in self]
        )
        result = fallback.best_match(matches)

        if result is not None:
            return result

        # Fall back to matching primary tags. If the client accepts
        # "en", "en-US" is a valid match at this point.
        fallback_matches = [_locale_delim_re.split(item, 1)[0] for item in matches]
        result = super().best_match(fallback_matches)

        # Return a value from the original match list. Find the first
        # original value that starts with the matched primary tag.
        if result is not None:
            return next(
                item
                for item in matches
                if _locale_delim_re.split(item, 1)[0] == result
            )

        return default


class CharsetAccept(Accept):
    """Like :class:`Accept` but with normalization for charsets."""

    def _value_matches(self, value: str, item: str) -> bool:
        def _normalize(name: str) -> str:
            try:
                return codecs.lookup(name).name
            except (LookupError, ValueError):
                # ValueError: the name contains a null character.
                return name.lower()

        return item == "*" or _normalize(value) == _normalize(item)


# ---------------------------------------------------------------------------
# harness
# ---------------------------------------------------------------------------
OrigAccept, OrigMIMEAccept, OrigLanguageAccept, OrigCharsetAccept = (
    Accept,
    MIMEAccept,
    LanguageAccept,
    CharsetAccept,
)
# (the original names stay bound: the original code refers to ``Accept``)

import random
import sys

from werkzeug import http
from werkzeug.datastructures import accept as new

assert "/tmp/wt14-C17/src" in new.__file__, new.__file__

PAIRS = [
    (OrigAccept, new.Accept),
    (OrigMIMEAccept, new.MIMEAccept),
    (OrigLanguageAccept, new.LanguageAccept),
    (OrigCharsetAccept, new.CharsetAccept),
]

rng = random.Random(1717)

GENERIC = ["*", "gzip", "GZIP", "br", "identity", "deflate", "", "x", "X", "a-b", "*;q"]
MIMES = [
    "*/*", "text/*", "text/html", "TEXT/HTML", "text/plain", "application/json",
    "application/*", "*/html", "text/html;level=1", "text/html; level=1",
    "text/html;level=2", "text/html;level=1;b=2", "text/html;b=2;level=1",
    "application/xhtml+xml", "application/xml", "text", "", "*", "image/png",
    "text/", "/html", "a/b/c",
]
LANGS = [
    "*", "en", "EN", "en-US", "en_US", "en-us", "en-GB", "en_gb", "de", "de-DE",
    "de_AT", "de-AT-1996", "fr", "fr-CA", "zh-Hans-CN", "zh_hans", "zh", "ast",
    "ast-ES", "", "-", "_", "en-", "-en", "e", "i-klingon", "x-en", "*-US", "es-419",
]
CHARSETS = [
    "*", "utf-8", "UTF8", "utf_8", "latin1", "iso-8859-1", "ISO_8859-1", "ascii",
    "us-ascii", "utf-16", "cp1252", "windows-1252", "unknown-charset", "", "utf\x007",
    "a\x00", "big5", "U8",
]
VOCAB = {0: GENERIC, 1: MIMES, 2: LANGS, 3: CHARSETS}
QS = [0, 0.0, 0.001, 0.1, 0.3, 0.5, 0.5, 0.8, 0.9, 1, 1.0, 1, 1]
QSTR = [
    "", ";q=0", ";q=0.0", ";q=0.5", ";q=1", ";q=1.0", ";q=1.000", ";q=0.001",
    ";q=0.9", ";q=1.5", ";q=-1", ";q=abc", ";q=0.1234", ";q=.5", "; q=0.7",
    ";Q=0.3", ";q=2", ";q=1.0001", ";q=", ";q=0.50",
]


def outcome(fn):
    try:
        return ("ok", fn())
    except Exception as e:  # noqa: BLE001
        return ("exc", type(e))


class Once:
    """Iterable that can be consumed once (like a generator)."""

    def __init__(self, items):
        self._it = iter(items)

    def __iter__(self):
        return self._it


def same(a, b):
    if a[0] != b[0]:
        return False
    if a[0] == "exc":
        return a[1] is b[1]
    x, y = a[1], b[1]
    return type(x) is type(y) and x == y and repr(x) == repr(y)


n_checks = 0
failures = []


def check(label, fo, fn_):
    global n_checks
    n_checks += 1
    a, b = outcome(fo), outcome(fn_)
    if not same(a, b):
        failures.append((label, a, b))


def rand_values(fam):
    vocab = VOCAB[fam]
    k = rng.choice([0, 1, 1, 2, 2, 3, 3, 4, 5, 7])
    return [(rng.choice(vocab), rng.choice(QS)) for _ in range(k)]


def rand_header(fam):
    vocab = VOCAB[fam]
    k = rng.choice([0, 1, 2, 2, 3, 3, 4, 6])
    sep = rng.choice([",", ", ", " , "])
    return sep.join(rng.choice(vocab) + rng.choice(QSTR) for _ in range(k))


def rand_offers(fam):
    vocab = VOCAB[fam]
    k = rng.choice([0, 1, 1, 2, 2, 3, 4, 6])
    return [rng.choice(vocab) for _ in range(k)]


def exercise(fam, o, n):
    vocab = VOCAB[fam]
    check("list", lambda: list(o), lambda: list(n))
    check("provided", lambda: o.provided, lambda: n.provided)
    check("repr-tail", lambda: repr(o).split("(", 1)[1], lambda: repr(n).split("(", 1)[1])
    check("to_header", lambda: o.to_header(), lambda: n.to_header())
    check("best", lambda: o.best, lambda: n.best)
    keys = rng.sample(vocab, min(len(vocab), 6))
    for key in keys:
        check(("quality", list(o), key), lambda: o.quality(key), lambda: n.quality(key))
        check(("getitem", list(o), key), lambda: o[key], lambda: n[key])
        check(("contains", list(o), key), lambda: key in o, lambda: key in n)
        check(("index", list(o), key), lambda: o.index(key), lambda: n.index(key))
        check(("find", list(o), key), lambda: o.find(key), lambda: n.find(key))
        check(
            ("_best_single_match", list(o), key),
            lambda: o._best_single_match(key),
            lambda: n._best_single_match(key),
        )
        item = rng.choice(vocab)
        check(
            ("_value_matches", key, item),
            lambda: o._value_matches(key, item),
            lambda: n._value_matches(key, item),
        )
        check(("_specificity", key), lambda: o._specificity(key), lambda: n._specificity(key))
    # tuple / non-string keys for index / find / getitem
    tkeys = [(rng.choice(vocab), rng.choice(QS)), 0, -1, 5, None, 1.5, slice(0, 2)]
    if len(o):
        tkeys.append(list(o)[rng.randrange(len(o))])
    for tk in tkeys:
        check(("index-t", list(o), tk), lambda: o.index(tk), lambda: n.index(tk))
        check(("find-t", list(o), tk), lambda: o.find(tk), lambda: n.find(tk))
        check(("getitem-t", list(o), tk), lambda: o[tk], lambda: n[tk])
    for empty in ([], (), iter(())):
        check(("best_match-empty", list(o)), lambda: o.best_match(empty, "D"), lambda: n.best_match(empty, "D"))
    for _ in range(4):
        offers = rand_offers(fam)
        default = rng.choice([None, None, "DEFAULT", ""])
        check(
            ("best_match", list(o), offers, default),
            lambda: o.best_match(offers, default),
            lambda: n.best_match(offers, default),
        )
        check(
            ("best_match-nodefault", list(o), offers),
            lambda: o.best_match(offers),
            lambda: n.best_match(offers),
        )
        check(
            ("best_match-tuple", list(o), offers),
            lambda: o.best_match(tuple(offers), default=default),
            lambda: n.best_match(tuple(offers), default=default),
        )
        # one-shot iterables: remaining items after the call must agree too
        io, in_ = Once(offers), Once(offers)
        check(
            ("best_match-once", list(o), offers, default),
            lambda: (o.best_match(io, default), list(io._it)),
            lambda: (n.best_match(in_, default), list(in_._it)),
        )
        go, gn = (x for x in offers), (x for x in offers)
        check(
            ("best_match-gen", list(o), offers),
            lambda: (o.best_match(go), list(go)),
            lambda: (n.best_match(gn), list(gn)),
        )
        # offers of the wrong type
        bad = offers + [rng.choice([None, 3, b"en", ("en",)])]
        rng.shuffle(bad)
        check(
            ("best_match-bad", list(o), bad),
            lambda: o.best_match(bad, default),
            lambda: n.best_match(bad, default),
        )


N = 2500
for fam, (ocls, ncls) in enumerate(PAIRS):
    # empty / None / copy constructors
    for arg in ((), None, []):
        exercise(fam, ocls(arg), ncls(arg))
    for _ in range(N):
        if rng.random() < 0.5:
            vals = rand_values(fam)
            o, n = ocls(vals), ncls(vals)
        else:
            h = rand_header(fam)
            o = http.parse_accept_header(h, ocls)
            n = http.parse_accept_header(h, ncls)
        exercise(fam, o, n)
        if rng.random() < 0.1:
            exercise(fam, ocls(o), ncls(n))
    # malformed entries inside the list (non 2-tuples, non-str values)
    for vals in (
        [("en", 1, 2)],
        [["en", 1]],
        [(None, 1)],
        [("en", 1), (3, 0.5)],
        [("en", None)],
        [("en-US", "1"), ("de", "0.5")],
    ):
        o, n = outcome(lambda: ocls(vals)), outcome(lambda: ncls(vals))
        check(("ctor", vals), lambda: o[0], lambda: n[0])
        if o[0] == "ok" and n[0] == "ok":
            for _ in range(25):
                exercise(fam, o[1], n[1])

print(f"{n_checks} comparisons, {len(failures)} mismatches")
for f in failures[:20]:
    print("MISMATCH", f)
if failures:
    print("FAIL")
    sys.exit(1)
print("PASS")
