"""Differential check for refactoring 3 (formparser.MultiPartParser.parse,
formparser.FormDataParser._parse_urlencoded, urls._urlencode).

ORIGINAL implementations are pasted below (as subclasses / functions) and
compared with the refactored ones from the worktree on generated inputs:
multipart bodies (well-formed, lenient, damaged; many read-buffer sizes and
memory / part limits), urlencoded bodies and _urlencode inputs.  Results and
exception types must be identical.
"""
from __future__ import annotations

import random
import sys
import typing as t
from io import BytesIO
from urllib.parse import parse_qsl
from urllib.parse import urlencode

from werkzeug.datastructures import FileStorage
from werkzeug.datastructures import iter_multi_items
from werkzeug.datastructures import MultiDict
from werkzeug.exceptions import RequestEntityTooLarge
from werkzeug.formparser import _chunk_iter
from werkzeug.formparser import FormDataParser
from werkzeug.formparser import MultiPartParser
from werkzeug.sansio.multipart import Data
from werkzeug.sansio.multipart import Epilogue
from werkzeug.sansio.multipart import Field
from werkzeug.sansio.multipart import File
from werkzeug.sansio.multipart import MultipartDecoder
from werkzeug.sansio.multipart import NeedData
from werkzeug.test import encode_multipart
from werkzeug.test import EnvironBuilder
from werkzeug.urls import _urlencode
from werkzeug.wrappers import Request


# --------------------------------------------------------------------------
# ORIGINAL implementations
# --------------------------------------------------------------------------
class OrigMultiPartParser(MultiPartParser):
    def parse(  # type: ignore[override]
        self, stream: t.IO[bytes], boundary: bytes, content_length: int | None
    ) -> t.Any:
        current_part: Field | File
        field_size: int | None = None
        container: t.IO[bytes] | list[bytes]
        _write: t.Callable[[bytes], t.Any]

        parser = MultipartDecoder(
            boundary,
            max_form_memory_size=self.max_form_memory_size,
            max_parts=self.max_form_parts,
        )

        fields = []
        files = []

        for data in _chunk_iter(stream.read, self.buffer_size):
            parser.receive_data(data)
            event = parser.next_event()
            while not isinstance(event, (Epilogue, NeedData)):
                if isinstance(event, Field):
                    current_part = event
                    field_size = 0
                    container = []
                    _write = container.append
                elif isinstance(event, File):
                    current_part = event
                    field_size = None
                    container = self.start_file_streaming(event, content_length)
                    _write = container.write
                elif isinstance(event, Data):
                    if self.max_form_memory_size is not None and field_size is not None:
                        field_size += len(event.data)

                        if field_size > self.max_form_memory_size:
                            raise RequestEntityTooLarge()

                    _write(event.data)
                    if not event.more_data:
                        if isinstance(current_part, Field):
                            value = b"".join(container).decode(
                                self.get_part_charset(current_part.headers), "replace"
                            )
                            fields.append((current_part.name, value))
                        else:
                            container = t.cast(t.IO[bytes], container)
                            container.seek(0)
                            files.append(
                                (
                                    current_part.name,
                                    FileStorage(
                                        container,
                                        current_part.filename,
                                        current_part.name,
                                        headers=current_part.headers,
                                    ),
                                )
                            )

                event = parser.next_event()

        return self.cls(fields), self.cls(files)


class OrigFormDataParser(FormDataParser):
    def _parse_multipart(self, stream, mimetype, content_length, options):  # type: ignore
        parser = OrigMultiPartParser(
            stream_factory=self.stream_factory,
            max_form_memory_size=self.max_form_memory_size,
            max_form_parts=self.max_form_parts,
            cls=self.cls,
        )
        boundary = options.get("boundary", "").encode("ascii")

        if not boundary:
            raise ValueError("Missing boundary")

        form, files = parser.parse(stream, boundary, content_length)
        return stream, form, files

    def _parse_urlencoded(self, stream, mimetype, content_length, options):  # type: ignore
        if (
            self.max_form_memory_size is not None
            and content_length is not None
            and content_length > self.max_form_memory_size
        ):
            raise RequestEntityTooLarge()

        items = parse_qsl(
            stream.read().decode(),
            keep_blank_values=True,
            errors="werkzeug.url_quote",
        )
        return stream, self.cls(items), self.cls()


def orig_urlencode(query: t.Any) -> str:
    items = [x for x in iter_multi_items(query) if x[1] is not None]
    # safe = https://url.spec.whatwg.org/#percent-encoded-bytes
    return urlencode(items, safe="!$'()*,/:;?@")


# --------------------------------------------------------------------------
# generators
# --------------------------------------------------------------------------
rng = random.Random(2026100203)

NAME_POOL = "abcXYZ019 _-.;=:/'*&+%#?äöüßé中文日本\U0001f600 \t"
TEXT_POOL = NAME_POOL + '"\\\r\n\x00\x7f'


def rand_name(maxlen: int = 10) -> str:
    s = "".join(rng.choice(NAME_POOL) for _ in range(rng.randrange(0, maxlen)))
    return s.replace("%22", "")


def rand_value(maxlen: int = 30) -> str:
    return "".join(rng.choice(TEXT_POOL) for _ in range(rng.randrange(0, maxlen)))


def rand_boundary() -> str:
    n = rng.choice([1, 3, 8, 20, 40, 70])
    return "".join(
        rng.choice("abcdefghijklmnopqrstuvwxyz0123456789-_'.+") for _ in range(n)
    )


def rand_payload(boundary: bytes) -> bytes:
    pieces = [
        b"",
        b"\r",
        b"\n",
        b"\r\n",
        b"--",
        b"\r\n--",
        b"\r\n--" + boundary[:-1],
        b"\r\n--" + boundary[:-1] + b"X",
        b"--" + boundary,
        boundary,
        b"\x00\xff\xfe\x80",
        b"abc def",
        b"y" * rng.randrange(0, 300),
        bytes(rng.randrange(256) for _ in range(rng.randrange(0, 12))),
    ]
    return b"".join(rng.choice(pieces) for _ in range(rng.randrange(0, 7)))


def rand_multipart() -> tuple[str, bytes]:
    boundary = rand_boundary()
    values: MultiDict[str, t.Any] = MultiDict()
    for _ in range(rng.randrange(0, 7)):
        key = rng.choice(["a", "b", rand_name(), rand_name()])
        r = rng.random()
        if r < 0.45:
            values.add(key, rand_value())
        elif r < 0.9:
            fs = FileStorage(
                BytesIO(rand_payload(boundary.encode())),
                filename=rand_name(),
                content_type=rng.choice(
                    [None, "text/plain", "image/png", "text/plain; charset=iso-8859-1"]
                ),
            )
            values.add(key, fs)
        else:
            # stream without a filename -> Field with a Content-Type header
            fs = FileStorage(
                BytesIO(rand_payload(boundary.encode())),
                filename=None,
                content_type=rng.choice(
                    ["text/plain; charset=iso-8859-1", "text/plain; charset=ascii"]
                ),
            )
            values.add(key, fs)
    boundary, body = encode_multipart(values, boundary=boundary)
    r = rng.random()
    if r < 0.1 and body:
        body = body[: rng.randrange(len(body))]  # truncated
    elif r < 0.2:
        body = body.replace(b"\r\n", rng.choice([b"\n", b"\r"]))  # lenient framing
    elif r < 0.25:
        body = body.replace(b"Content-Disposition", b"X-Nothing", 1)
    return boundary, body


def snapshot(result: t.Any) -> t.Any:
    stream, form, files = result
    out_files = []
    for key, fs in files.items(multi=True):
        fs.stream.seek(0)
        out_files.append(
            (
                key,
                fs.name,
                fs.filename,
                fs.content_type,
                fs.content_length,
                list(fs.headers),
                fs.stream.read(),
                type(fs.stream).__name__,
            )
        )
    return (
        type(form).__name__,
        list(form.items(multi=True)),
        type(files).__name__,
        out_files,
        stream.tell(),
    )


def call(fn: t.Callable[[], t.Any]) -> t.Any:
    try:
        return ("ok", fn())
    except Exception as e:  # noqa: B902
        return ("exc", type(e).__name__, str(e))


def check_multipart() -> int:
    n = 0
    for _ in range(3000):
        boundary, body = rand_multipart()
        kwargs: dict[str, t.Any] = {}
        if rng.random() < 0.2:
            kwargs["max_form_memory_size"] = rng.choice([0, 5, 50, 500])
        if rng.random() < 0.15:
            kwargs["max_form_parts"] = rng.randrange(0, 5)
        buffer_size = rng.choice([1, 2, 3, 7, 16, 64, 1000, 64 * 1024])
        content_length = rng.choice([None, len(body)])
        res = []
        for cls in (OrigMultiPartParser, MultiPartParser):
            p = cls(buffer_size=buffer_size, **kwargs)

            def run(p: t.Any = p) -> t.Any:
                stream = BytesIO(body)
                form, files = p.parse(stream, boundary.encode(), content_length)
                return snapshot((stream, form, files))

            res.append(call(run))
        if res[0] != res[1]:
            print("FAIL multipart parse", boundary, body, kwargs, buffer_size)
            print(" orig:", res[0])
            print(" new :", res[1])
            return -1
        n += 1

        # through FormDataParser.parse (silent and not silent)
        silent = rng.random() < 0.5
        fkw = {k: v for k, v in kwargs.items()}
        res = []
        for fcls in (OrigFormDataParser, FormDataParser):
            fp = fcls(silent=silent, **fkw)

            def run2(fp: t.Any = fp) -> t.Any:
                return snapshot(
                    fp.parse(
                        BytesIO(body),
                        "multipart/form-data",
                        content_length,
                        {"boundary": boundary},
                    )
                )

            res.append(call(run2))
        if res[0] != res[1]:
            print("FAIL FormDataParser multipart", boundary, body, fkw, silent)
            return -1
        n += 1
    return n


def rand_query() -> t.Any:
    pairs: list[tuple[t.Any, t.Any]] = []
    for _ in range(rng.randrange(0, 7)):
        key: t.Any = rng.choice(["a", "b", "", rand_name(), rand_value(8)])
        r = rng.random()
        val: t.Any
        if r < 0.6:
            val = rand_value()
        elif r < 0.7:
            val = None
        elif r < 0.8:
            val = ""
        elif r < 0.87:
            val = rng.randrange(-5, 1000)
        elif r < 0.94:
            val = rand_value().encode()
        else:
            val = rng.choice([1.5, True, b"", "\ud800"])  # lone surrogate -> error
        pairs.append((key, val))
    shape = rng.random()
    if shape < 0.3:
        return pairs
    if shape < 0.4:
        return tuple(pairs)
    if shape < 0.6:
        return MultiDict(pairs)
    if shape < 0.8:
        d: dict[t.Any, t.Any] = {}
        for k, v in pairs:
            d[k] = v
        return d
    d2: dict[t.Any, t.Any] = {}
    for k, v in pairs:
        d2.setdefault(k, []).append(v)
    if rng.random() < 0.5:
        return {k: tuple(v) for k, v in d2.items()}
    return d2


def check_urlencoded() -> int:
    n = 0
    for _ in range(4000):
        q = rand_query()
        a = call(lambda: orig_urlencode(q))
        b = call(lambda: _urlencode(q))
        if a != b:
            print("FAIL _urlencode", q, a, b)
            return -1
        n += 1
        if a[0] != "ok":
            continue
        body = a[1].encode("ascii")
        if rng.random() < 0.2:
            body += rng.choice([b"&", b"&&x", b"%", b"%zz=%e4", b"=\xff", b";a=1"])
        limit = rng.choice([None, None, 0, 5, len(body), len(body) + 1, 10**6])
        content_length = rng.choice([None, len(body), len(body) - 1, 0])
        silent = rng.random() < 0.5
        res = []
        for fcls in (OrigFormDataParser, FormDataParser):
            fp = fcls(silent=silent, max_form_memory_size=limit)

            def run(fp: t.Any = fp) -> t.Any:
                return snapshot(
                    fp.parse(
                        BytesIO(body),
                        "application/x-www-form-urlencoded",
                        content_length,
                        None,
                    )
                )

            res.append(call(run))
        if res[0] != res[1]:
            print("FAIL _parse_urlencoded", body, limit, content_length, res)
            return -1
        n += 1
    return n


def check_roundtrip() -> int:
    """EnvironBuilder -> Request.form/files/args round trip still identical."""
    n = 0
    for _ in range(800):
        pairs = [("k" + rand_name(), rand_value()) for _ in range(rng.randrange(0, 6))]
        multipart = rng.random() < 0.5
        data: MultiDict[str, t.Any] = MultiDict(pairs)
        uploads = []
        if multipart:
            for _ in range(rng.randrange(1, 4)):
                key, fname, payload = (
                    "f" + rand_name(),
                    rand_name() or "n",
                    rand_payload(b"WerkzeugFormPart"),
                )
                uploads.append((key, fname, payload))
                data.add(key, (BytesIO(payload), fname, "application/x-custom"))
        builder = EnvironBuilder(method="POST", data=data, query_string=MultiDict(pairs))
        req = Request(builder.get_environ())
        got_form = list(req.form.items(multi=True))
        got_args = list(req.args.items(multi=True))
        got_files = [
            (k, f.filename, f.read()) for k, f in req.files.items(multi=True)
        ]
        # MultiDict iteration groups repeated keys (by first appearance); that
        # is the order the builder encodes, so it is the expected order.
        want_pairs = list(MultiDict(pairs).items(multi=True))
        want_files = [
            (k, v[0], v[1])
            for k, v in MultiDict((u[0], u[1:]) for u in uploads).items(multi=True)
        ]
        if got_form != want_pairs or got_args != want_pairs or got_files != want_files:
            print("FAIL roundtrip", want_pairs, got_form, got_args, got_files, want_files)
            return -1
        builder.close()
        n += 1
    return n


def main() -> int:
    total = 0
    for fn in (check_multipart, check_urlencoded, check_roundtrip):
        r = fn()
        if r < 0:
            return 1
        total += r
    print(f"PASS ({total} comparisons)")
    return 0


if __name__ == "__main__":
    sys.exit(main())
